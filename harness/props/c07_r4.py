"""C07, round 4 — generators for the classes 14-20 of AGENT_ROUND4.md (implementation only; every replay snippet is the oracle
itself: KINDS_PRELUDE of c07.py + EXT_PRELUDE of c07_ext.py + R4_PRELUDE + "P = {...}" + BODY).

* BIG_BODY    molecules with 4..8 atoms through every route (MolGrid(...) with BeckeWeights, from_preset, from_size, from_pruned by
              degrees and by sizes), atoms of different sizes: the index table, the per-atom grids, the aim weights, the integral
              decomposition and interpolate *after* the construction, both values of store, twice with the same argument objects
              (classes 16, 20 and the seeded "index table rewritten by the aim-weights callable").
* OBJKIND_BODY class 14: dtype / layout of the arrays *held by* the radial / atomic grid objects handed to the constructors.
* ARGS_BODY   class 15: omitted vs None vs the default spelled out, positional vs keyword, both of d_sectors / s_sectors.
* SHARED_BODY class 16: one argument object for several requests (same list for every atom, views into larger caller arrays with guard
              bytes, the same arrays for two and three calls of the same and of different entry points).
* CALLBACK_BODY class 17: value kinds of what the aim-weights callable returns, complex / longdouble function values.
* RAISE_BODY  class 18: a call that raises leaves no trace.
* LAYER_BODY  class 19: where the consumed layers (Becke weights, atomic grids, radial transforms) are extreme.
"""
import importlib

from ..common import Ctx


def _base():
    return importlib.import_module("harness.props.c07")


def _ext():
    return importlib.import_module("harness.props.c07_ext")


R4_PRELUDE = r"""
from grid.basegrid import OneDGrid, LocalGrid
def kind_of(a, kind):
    # the same numbers held in another dtype / memory layout (values are chosen representable in every kind asked for)
    a = np.asarray(a)
    if kind == 'float64': return np.array(a, dtype=float)
    if kind in ('int64', 'int32', 'uint8', 'float32', 'float16', 'bool', 'longdouble'): return np.array(a).astype(kind)
    if kind == 'readonly':
        b = np.array(a, dtype=float); b.setflags(write=False); return b
    if kind == 'strided': return np.repeat(np.array(a, dtype=float), 2, axis=0)[::2]
    if kind == 'negstride': return np.array(a, dtype=float)[::-1].copy()[::-1]
    if kind == 'fortran': return np.asfortranarray(np.array(a, dtype=float))
    if kind == 'view': return guarded(np.array(a, dtype=float))[1]
    raise KeyError(kind)
def guarded(a, pad=3, fill=-7.25):
    # a view into a larger caller array: (the large array, the view)
    a = np.asarray(a)
    big = np.full((a.shape[0] + 2 * pad,) + a.shape[1:], fill, dtype=a.dtype)
    big[pad:pad + a.shape[0]] = a
    return big, big[pad:pad + a.shape[0]]
def cums(gs):
    return np.concatenate([[0], np.cumsum([int(g.size) for g in gs])]).astype(int)
def routes(route, atn, co, rgs, rot, opt):
    # -> (constructor(aim, store), builder of the atomic grids by hand); rgs = one radial grid object per atom
    n = len(atn)
    if route == 'init':
        hand = lambda: [AtomGrid(rgs[i], degrees=[opt['degs'][i]], center=co[i], rotate=rot) for i in range(n)]
        ctor = lambda aim, store: MolGrid(atn, hand(), aim if aim is not None else BeckeWeights(order=3), store=store)
    elif route == 'from_preset':
        names = [opt['presets'][i % len(opt['presets'])] for i in range(n)]
        hand = lambda: [AtomGrid.from_preset(atnum=int(atn[i]), preset=names[i], rgrid=rgs[i], center=co[i], rotate=rot) for i in range(n)]
        ctor = lambda aim, store: MolGrid.from_preset(atn, co, list(names), list(rgs), aim, rotate=rot, store=store)
    elif route == 'from_size':
        hand = lambda: [AtomGrid(rgs[0], degrees=None, sizes=[opt['size']], center=co[i], rotate=rot) for i in range(n)]
        ctor = lambda aim, store: MolGrid.from_size(atn, co, opt['size'], rgs[0], aim, rotate=rot, store=store)
    elif route in ('from_pruned_d', 'from_pruned_s'):
        rsec = [[0.5, 1.0, 2.0][: (i + opt.get('shift', 0)) % 4] for i in range(n)]
        dsec = [[3, 5, 7, 9][: len(r) + 1] for r in rsec]; ssec = [[6, 14, 26, 38][: len(r) + 1] for r in rsec]
        rad = [0.75 + 0.25 * i for i in range(n)]
        if route == 'from_pruned_d':
            hand = lambda: [AtomGrid.from_pruned(rgs[i], rad[i], r_sectors=rsec[i], d_sectors=dsec[i], center=co[i], rotate=rot) for i in range(n)]
            ctor = lambda aim, store: MolGrid.from_pruned(atn, co, list(rad), rsec, dsec, rgrid=list(rgs), aim_weights=aim, rotate=rot, store=store)
        else:
            hand = lambda: [AtomGrid.from_pruned(rgs[i], rad[i], r_sectors=rsec[i], s_sectors=ssec[i], center=co[i], rotate=rot) for i in range(n)]
            ctor = lambda aim, store: MolGrid.from_pruned(atn, co, list(rad), rsec, s_sectors=ssec, rgrid=list(rgs), aim_weights=aim, rotate=rot, store=store)
    else:
        raise KeyError(route)
    return ctor, hand
def check_after(KEY, m, hand, atn, co, what, store, aim_expect=None, interp=0, seed=0):
    # everything the property says about a finished molecular grid, against atomic grids built by hand and an index table computed here
    n = len(hand); ind = cums(hand); size = int(ind[-1])
    got = np.asarray(m.indices)
    assert got.shape == (n + 1,) and got.dtype.kind in 'iu' and np.array_equal(got, ind), (
        f'{KEY} :: {what}: the index table after the construction is {got.tolist()}, the running sums of the atomic grid sizes are {ind.tolist()}')
    assert m.size == size and m.points.shape == (size, 3) and m.weights.shape == (size,) and m.atcoords.shape == (n, 3), f'{KEY} :: {what}: shapes of points / weights / atcoords'
    assert np.array_equal(m.atcoords, np.asarray(co, dtype=float)), f'{KEY} :: {what}: atcoords are not the given centres'
    for k in range(n):
        s, e = int(ind[k]), int(ind[k + 1])
        assert np.array_equal(m.points[s:e], hand[k].points) and np.array_equal(m.atweights[s:e], hand[k].weights), (
            f'{KEY} :: {what}: points / atweights[{s}:{e}] are not atomic grid {k} built by hand')
        g = m.get_atomic_grid(k)
        assert g.size == e - s and np.array_equal(g.points, hand[k].points) and np.array_equal(g.weights, hand[k].weights) and np.array_equal(g.center, hand[k].center), (
            f'{KEY} :: {what}: get_atomic_grid({k}) after the construction is not atomic grid {k} (size {g.size}, expected {e - s})')
        it = m[k]
        assert it.size == e - s and np.array_equal(it.points, hand[k].points) and np.array_equal(it.center, hand[k].center), (
            f'{KEY} :: {what}: mg[{k}] after the construction does not hold the points of atomic grid {k} (size {it.size}, expected {e - s})')
        if store:
            assert type(g).__name__ == 'AtomGrid' and np.array_equal(it.weights, hand[k].weights), f'{KEY} :: {what}: the stored atomic grid {k} is not the grid built by hand'
    aimw = np.asarray(m.aim_weights, dtype=float)
    assert aimw.shape == (size,) and np.array_equal(m.weights, m.atweights * aimw), f'{KEY} :: {what}: weights != atweights * aim_weights'
    if aim_expect is not None:
        assert np.array_equal(aimw, aim_expect), (
            f'{KEY} :: {what}: aim_weights differ from BeckeWeights(order=3) evaluated on pristine copies of (points, atcoords, atnums, index table) by {np.max(np.abs(aimw - aim_expect)):.3g}')
    rs = np.random.default_rng(seed)
    f = rs.uniform(-1, 1, size)
    tot = float(m.integrate(f))
    parts = math.fsum(float(hand[k].integrate(aimw[ind[k]:ind[k + 1]] * f[ind[k]:ind[k + 1]])) for k in range(n))
    assert abs(tot - parts) <= 1e-12 * math.fsum(np.abs(m.weights * f).tolist()) + 1e-300, (
        f'{KEY} :: {what}: integrate(f) = {tot!r} but the atomic integrals of aim*f over the hand-made segments sum to {parts!r}')
    if interp and store:
        fs = np.exp(-((m.points[:, None, :] - np.asarray(co, dtype=float)[None, :, :]) ** 2).sum(axis=2)).sum(axis=1)
        pts = rs.uniform(-2, 2, (interp, 3)) + np.asarray(co, dtype=float)[0]
        I = m.interpolate(fs)
        for args in ([], [1], [1, True]):
            gotv = I(pts, *args)
            want = hand[0].interpolate((aimw * fs)[ind[0]:ind[1]])(pts, *args)
            for k in range(1, n): want = want + hand[k].interpolate((aimw * fs)[ind[k]:ind[k + 1]])(pts, *args)
            sc = max(1e-300, float(np.max(np.abs(want), initial=0.0)))
            assert np.shape(gotv) == np.shape(want) and float(np.max(np.abs(gotv - want), initial=0.0)) <= 1e-11 * sc, (
                f'{KEY} :: {what}: interpolate(f)(points, *{args}) with {interp} points after the construction is not the sum over the {n} atoms of the atomic '
                f'interpolants of (aim_weights * f) on the hand-made segments (max deviation {float(np.max(np.abs(gotv - want), initial=0.0)):.3g}, values up to {sc:.3g})')
        assert np.array_equal(np.asarray(m.indices), ind), f'{KEY} :: {what}: the index table changed during interpolate'
"""

# -- 4..8 atoms, every route, everything after the construction ---------------------------------------------------------------------
BIG_BODY = r"""
KEY = P['key']
atn = np.array(P['atnums']); co = np.array(P['coords'], dtype=float); n = len(atn); rot = P['rotate']
rgs = [GaussLaguerre(k) for k in P['nrad']]
opt = dict(degs=P['degs'], presets=P['presets'], size=P['size'], shift=P['shift'])
for route in P['routes']:
    ctor, handf = routes(route, atn, co, rgs, rot, opt)
    hand = handf(); ind = cums(hand)
    pts0 = np.concatenate([g.points for g in hand])
    # the reference aim weights: the same callable on pristine copies, with an index table computed here
    bw = BeckeWeights(order=3)
    aim_ref = np.asarray(bw(pts0.copy(), co.copy(), atn.copy(), ind.copy()), dtype=float)
    snap = (atn.copy(), co.copy())
    seen_idx = []
    def spy(points, atcoords, atnums, indices, seen=seen_idx):
        seen.append(np.array(indices, copy=True))
        return np.asarray(BeckeWeights(order=3)(points, atcoords, atnums, indices))
    for store in (True, False):
        for aimk in P['aims']:
            aim = {'default': None, 'becke': BeckeWeights(order=3), 'spy': spy}[aimk]
            what = f'{route} with {n} atoms {P["atnums"]} (sizes {np.diff(ind).tolist()}), aim weights {aimk}, store={store}'
            try:
                m = ctor(aim, store)
            except Exception as e:
                raise AssertionError(f'{KEY}:raises :: {what} raises {type(e).__name__}: {str(e)[:150]} although the atomic grids build by hand')
            check_after(KEY, m, hand, atn, co, what, store, aim_expect=aim_ref, interp=P['interp'] if aimk == P['aims'][0] else 0, seed=P['seed'])
            if aimk == 'spy':
                assert len(seen_idx) >= 1 and np.array_equal(seen_idx[-1], ind), f'{KEY} :: {what}: the aim-weights callable was handed the index table {seen_idx[-1].tolist()}'
            # the same argument objects a second time: the same grid
            m2 = ctor(aim, store)
            same(KEY, m2, m, what + ': second construction from the same argument objects vs the first')
            check_after(KEY, m2, hand, atn, co, what + ' (second construction)', store, aim_expect=aim_ref, seed=P['seed'] + 1)
            assert np.array_equal(np.asarray(m.indices), ind), f'{KEY} :: {what}: the index table of the first grid changed when a second one was built'
    assert np.array_equal(atn, snap[0]) and np.array_equal(co, snap[1]), f'{KEY} :: {route}: the caller\'s atnums / atcoords changed'
"""

# -- class 14: arrays held by the objects handed in ---------------------------------------------------------------------------------------
OBJKIND_BODY = r"""
KEY = P['key']
atn = np.array(P['atnums']); co = np.array(P['coords'], dtype=float); n = len(atn); rot = P['rotate']
rp = np.array(P['rpoints'], dtype=float); rw = np.array(P['rweights'], dtype=float)
kind = P['kind']
vals_p, vals_w = np.asarray(kind_of(rp, kind), dtype=float), np.asarray(kind_of(rw, P['wkind']), dtype=float)     # what the kind can hold
def rgrid(k):      # k = None: the float64 reference
    return OneDGrid(kind_of(rp, k) if k else vals_p.copy(), kind_of(rw, P['wkind']) if k else vals_w.copy(), (0, np.inf))
opt = dict(degs=P['degs'], presets=['coarse', 'medium'], size=14, shift=1)
for route in P['routes']:
    held = [rgrid(kind) for _ in range(n)]
    snaps = [(np.array(g.points, copy=True), np.array(g.weights, copy=True), g.points.dtype, g.weights.dtype) for g in held]
    ctor, _ = routes(route, atn, co, held, rot, opt)
    _, hand64 = routes(route, atn, co, [rgrid(None) for _ in range(n)], rot, opt)
    what = f'{route} with radial grids holding {kind} points / {P["wkind"]} weights'
    try:
        ref_hand = hand64()
    except Exception as e:
        REJECTED = 'reference:' + type(e).__name__; continue
    ref = MolGrid(atn, ref_hand, BeckeWeights(order=3))
    for store in (False, True):
        try:
            m = ctor(None, store)
        except Exception as e:
            raise AssertionError(f'{KEY}:raises :: {what} raises {type(e).__name__}: {str(e)[:150]}; the float64 copies of the same numbers are accepted')
        for t in ATTRS:
            x, y = np.asarray(getattr(m, t)), np.asarray(getattr(ref, t))
            assert x.dtype == y.dtype and x.shape == y.shape and np.array_equal(x, y), (
                f'{KEY} :: {what}, store={store}: {t} differs from the grid computed from float64 copies of the same numbers '
                + (f'(dtype {x.dtype} vs {y.dtype})' if x.dtype != y.dtype or x.shape != y.shape else f'(max deviation {np.max(np.abs(x.astype(float) - y.astype(float))):.3g})'))
        check_after(KEY, m, ref_hand, atn, co, what, store, seed=P['seed'])
    for g, (p0, w0, dp, dw) in zip(held, snaps):
        assert g.points.dtype == dp and g.weights.dtype == dw and np.array_equal(g.points, p0) and np.array_equal(g.weights, w0), f'{KEY} :: {what}: the radial grid object handed in was modified'
# atomic grids holding such arrays, handed to MolGrid(...)
P3 = np.array(P['apoints'], dtype=float).reshape(-1, 3); W = np.array(P['aweights'], dtype=float); C = np.array(P['acenter'], dtype=float)
for akind in P['akinds']:
    gs = [LocalGrid(kind_of(P3 + k, akind), kind_of(W + k, akind), kind_of(C + k, akind if akind != 'fortran' else 'float64')) for k in range(2)]
    f64 = [LocalGrid(np.asarray(g.points, dtype=float).copy(), np.asarray(g.weights, dtype=float).copy(), np.asarray(g.center, dtype=float).copy()) for g in gs]
    A = np.linspace(0.25, 1.0, 2 * len(W))
    for store in (False, True):
        what = f'MolGrid(atnums, [grids holding {akind} arrays], array, store={store})'
        try:
            m = MolGrid(np.array([1, 8]), gs, A.copy(), store=store)
        except Exception as e:
            raise AssertionError(f'{KEY}:raises :: {what} raises {type(e).__name__}: {str(e)[:150]}')
        r = MolGrid(np.array([1, 8]), f64, A.copy(), store=store)
        for t in ATTRS:
            x, y = np.asarray(getattr(m, t)), np.asarray(getattr(r, t))
            assert x.dtype == y.dtype and x.shape == y.shape and np.array_equal(x, y), f'{KEY} :: {what}: {t} differs from the grid built from float64 copies of the same numbers (dtype {x.dtype} vs {y.dtype})'
        for k in range(2):
            g, h = m.get_atomic_grid(k), r.get_atomic_grid(k)
            assert np.array_equal(np.asarray(g.points, dtype=float), h.points) and np.array_equal(np.asarray(g.weights, dtype=float), h.weights), f'{KEY} :: {what}: get_atomic_grid({k}) differs'
# function values / query points of other kinds for interpolate and integrate on a stored grid
hand = [AtomGrid(GaussLaguerre(5), degrees=[5], center=co[i], rotate=rot) for i in range(min(n, 3))]
m = MolGrid(atn[: len(hand)], hand, BeckeWeights(order=3), store=True)
base = np.round(np.exp(-((m.points[:, None, :] - co[None, : len(hand), :]) ** 2).sum(axis=2)).sum(axis=1) * 8).astype(float)     # small integers
pts = np.array(P['qpoints'], dtype=float).reshape(-1, 3)
want = m.interpolate(base.copy())(pts.copy()); wint = m.integrate(base.copy())
for fk in P['fkinds']:
    fv = kind_of(base if fk != 'bool' else (base > 2), fk); snap = np.array(fv, copy=True)
    ref_f = np.asarray(fv, dtype=float)
    got = m.interpolate(fv)(pts.copy()); w2 = m.interpolate(ref_f.copy())(pts.copy())
    sc = max(1e-300, float(np.max(np.abs(w2))))
    assert np.shape(got) == np.shape(w2) and float(np.max(np.abs(np.asarray(got, dtype=float) - np.asarray(w2, dtype=float)))) <= 1e-10 * sc, (
        f'{KEY} :: interpolate of {fk} function values differs from the float64 computation on the same numbers by {float(np.max(np.abs(np.asarray(got, dtype=float) - np.asarray(w2, dtype=float)))):.3g} (values up to {sc:.3g})')
    assert abs(float(m.integrate(fv)) - float(m.integrate(ref_f.copy()))) <= 1e-12 * abs(float(wint)) + 1e-300, f'{KEY} :: integrate of {fk} function values differs from the float64 computation'
    assert fv.dtype == snap.dtype and np.array_equal(fv, snap), f'{KEY} :: the {fk} function values were modified'
for pk in P['pkinds']:
    q = kind_of(pts, pk); snap = np.array(q, copy=True)
    for args in ([], [1], [1, True]):
        got = m.interpolate(base.copy())(q, *args); w2 = m.interpolate(base.copy())(np.asarray(q, dtype=float).copy(), *args)
        sc = max(1e-300, float(np.max(np.abs(w2))))
        assert np.shape(got) == np.shape(w2) and float(np.max(np.abs(got - w2))) <= 1e-10 * sc, f'{KEY} :: interpolate(f)(points held as {pk}, *{args}) differs from the float64 points by {float(np.max(np.abs(got - w2))):.3g}'
    assert q.dtype == snap.dtype and np.array_equal(q, snap), f'{KEY} :: the {pk} query points were modified by the interpolant'
"""

# -- class 15: every documented argument combination ------------------------------------------------------------------------------------------
ARGS_BODY = r"""
KEY = P['key']
atn = np.array(P['atnums']); co = np.array(P['coords'], dtype=float); n = len(atn)
R0 = GaussLaguerre(P['nrad'])
rsec = [[0.5, 1.0][: i % 3] for i in range(n)]; dsec = [[3, 5, 7][: len(r) + 1] for r in rsec]; ssec = [[6, 14, 26][: len(r) + 1] for r in rsec]
junk = [[131] * (len(r) + 1) for r in rsec]
B3 = lambda: BeckeWeights(order=3)
def group(name, ref, variants):
    for label, fn in variants:
        try:
            got = fn()
        except Exception as e:
            raise AssertionError(f'{KEY}:raises :: {name}: the call with {label} raises {type(e).__name__}: {str(e)[:150]}')
        same(KEY, got, ref, f'{name}: the call with {label} vs the grid built by hand with every argument spelled out')
        assert (got.atgrids is not None) == (ref.atgrids is not None), f'{KEY} :: {name}: the call with {label}: atgrids stored / not stored'
for dflt in (False, True):       # explicit radial grid / the default radial grids (rgrid omitted / None)
    rg = (lambda z: _generate_default_rgrid(z)) if dflt else (lambda z: R0)
    rgkw = [{}, {'rgrid': None}] if dflt else [{'rgrid': R0}]
    # ---- from_preset
    hand = [AtomGrid.from_preset(atnum=int(atn[i]), preset='coarse', rgrid=rg(int(atn[i])), center=co[i], rotate=37) for i in range(n)]
    ref = MolGrid(atn, hand, B3(), store=False)
    V = []
    for kw in rgkw:
        V += [(f'{kw} only', lambda kw=kw: MolGrid.from_preset(atn, co, 'coarse', **kw)),
              (f'{kw}, aim_weights=None', lambda kw=kw: MolGrid.from_preset(atn, co, 'coarse', aim_weights=None, **kw)),
              (f'{kw}, aim_weights=BeckeWeights(order=3), rotate=37, store=False', lambda kw=kw: MolGrid.from_preset(atn, co, 'coarse', aim_weights=B3(), rotate=37, store=False, **kw)),
              (f'{kw}, every argument by keyword', lambda kw=kw: MolGrid.from_preset(atnums=atn, atcoords=co, preset='coarse', aim_weights=None, rotate=37, store=False, **kw))]
    V.append(('every argument positional', lambda: MolGrid.from_preset(atn, co, 'coarse', None if dflt else R0, None, 37, False)))
    group('from_preset' + (' (default radial grids)' if dflt else ''), ref, V)
    # ---- from_size
    hand = [AtomGrid(rg(int(atn[i])), degrees=None, sizes=[14], center=co[i], rotate=37) for i in range(n)]
    ref = MolGrid(atn, hand, B3(), store=False)
    V = []
    for kw in rgkw:
        V += [(f'{kw} only', lambda kw=kw: MolGrid.from_size(atn, co, 14, **kw)),
              (f'{kw}, aim_weights=None, rotate=37', lambda kw=kw: MolGrid.from_size(atn, co, 14, aim_weights=None, rotate=37, **kw)),
              (f'{kw}, every argument by keyword', lambda kw=kw: MolGrid.from_size(atnums=atn, atcoords=co, size=14, aim_weights=B3(), rotate=37, store=False, **kw))]
    V.append(('every argument positional', lambda: MolGrid.from_size(atn, co, 14, None if dflt else R0, None, 37, False)))
    group('from_size' + (' (default radial grids)' if dflt else ''), ref, V)
    # ---- from_pruned: degrees, sizes, both (the sizes win), omitted / None
    for use_s in (False, True):
        hand = [AtomGrid.from_pruned(rg(int(atn[i])), 1.25, r_sectors=rsec[i], d_sectors=None if use_s else dsec[i], s_sectors=ssec[i] if use_s else None, center=co[i], rotate=37) for i in range(n)]
        ref = MolGrid(atn, hand, B3(), store=False)
        V = []
        for kw in rgkw:
            if use_s:
                V += [(f'{kw}, s_sectors only', lambda kw=kw: MolGrid.from_pruned(atn, co, 1.25, rsec, s_sectors=ssec, **kw)),
                      (f'{kw}, d_sectors and s_sectors (the sizes win)', lambda kw=kw: MolGrid.from_pruned(atn, co, 1.25, rsec, dsec, s_sectors=ssec, **kw)),
                      (f'{kw}, other d_sectors and s_sectors (the sizes win)', lambda kw=kw: MolGrid.from_pruned(atn, co, 1.25, rsec, d_sectors=junk, s_sectors=ssec, aim_weights=None, rotate=37, store=False, **kw)),
                      (f'{kw}, d_sectors=50 and s_sectors', lambda kw=kw: MolGrid.from_pruned(atn, co, 1.25, rsec, 50, s_sectors=ssec, **kw))]
            else:
                V += [(f'{kw}, d_sectors positional', lambda kw=kw: MolGrid.from_pruned(atn, co, 1.25, rsec, dsec, **kw)),
                      (f'{kw}, d_sectors by keyword, s_sectors=None', lambda kw=kw: MolGrid.from_pruned(atn, co, 1.25, rsec, d_sectors=dsec, s_sectors=None, **kw)),
                      (f'{kw}, everything by keyword with the defaults spelled out', lambda kw=kw: MolGrid.from_pruned(atnums=atn, atcoords=co, radius=1.25, r_sectors=rsec, d_sectors=dsec, s_sectors=None, aim_weights=B3(), rotate=37, store=False, **kw))]
        group('from_pruned by ' + ('sizes' if use_s else 'degrees') + (' (default radial grids)' if dflt else ''), ref, V)
# ---- MolGrid(...), its accessors and the interpolant: positional / keyword / omitted / default
hand = [AtomGrid(R0, degrees=[5], center=co[i], rotate=0) for i in range(n)]; size = sum(g.size for g in hand)
A = np.random.default_rng(P['seed']).uniform(0.1, 1, size)
ref = MolGrid(atn, hand, A.copy(), False)
group('MolGrid', ref, [('store omitted', lambda: MolGrid(atn, hand, A.copy())), ('store=False by keyword', lambda: MolGrid(atn, hand, A.copy(), store=False)),
                       ('all by keyword', lambda: MolGrid(atnums=atn, atgrids=hand, aim_weights=A.copy(), store=False))])
ms = MolGrid(atn, hand, A.copy(), True)
for k in range(n):
    a, b = ms.get_atomic_grid(k), ms.get_atomic_grid(index=k)
    assert a is b, f'{KEY} :: get_atomic_grid(index={k}) by keyword is not get_atomic_grid({k})'
    a, b = ref.get_atomic_grid(k), ref.get_atomic_grid(index=k)
    assert np.array_equal(a.points, b.points) and np.array_equal(a.weights, b.weights), f'{KEY} :: get_atomic_grid(index={k}) by keyword differs (store=False)'
f = np.exp(-((ms.points[:, None, :] - co[None, :, :]) ** 2).sum(axis=2)).sum(axis=1)
pts = np.random.default_rng(P['seed'] + 1).uniform(-2, 2, (P['npts'], 3))
I = ms.interpolate(func_vals=f); J = ms.interpolate(f)
for label, x, y in (('omitted options vs deriv=0, deriv_spherical=False, only_radial_derivs=False', I(pts), J(pts, 0, False, False)),
                    ('points by keyword', I(points=pts), J(pts)), ('deriv=1 by keyword', I(pts, deriv=1), J(pts, 1)),
                    ('deriv_spherical by keyword', I(pts, 1, deriv_spherical=True), J(pts, 1, True)),
                    ('only_radial_derivs by keyword', I(pts, 2, only_radial_derivs=True), J(pts, 2, False, True)),
                    ('deriv_spherical=False spelled out', I(pts, 1, False), J(pts, 1))):
    assert np.shape(x) == np.shape(y) and np.array_equal(x, y), f'{KEY} :: interpolate(f)(...): {label} give different answers'
"""

# -- class 16: the same argument object for several requests ------------------------------------------------------------------------------------
SHARED_BODY = r"""
KEY = P['key']
n = len(P['atnums']); rot = P['rotate']
# the caller's arrays are views into larger arrays; the bytes around the views are watched
big_z, atn = guarded(np.array(P['atnums'], dtype=np.int64), fill=-1)
big_c, co = guarded(np.array(P['coords'], dtype=float))
R0 = GaussLaguerre(P['nrad'])
one_r = [0.5, 1.0]; one_d = [3, 5, 7]; one_s = [6, 14, 26]
rsec = [one_r] * n; dsec = [one_d] * n; ssec = [one_s] * n           # the *same* inner list for every atom
big_rad, radius = guarded(np.array([1.0 + 0.25 * i for i in range(n)]))
rglist = [R0] * n
presets = ['coarse'] * n
pristine = dict(z=np.array(P['atnums'], dtype=np.int64), c=np.array(P['coords'], dtype=float), rad=np.array(radius, copy=True))
def refs():
    z, c, rad = pristine['z'].copy(), pristine['c'].copy(), pristine['rad'].copy()
    R = GaussLaguerre(P['nrad'])
    return {
        'from_preset': MolGrid(z, [AtomGrid.from_preset(atnum=int(z[i]), preset='coarse', rgrid=R, center=c[i], rotate=rot) for i in range(n)], BeckeWeights(order=3)),
        'from_size': MolGrid(z, [AtomGrid(R, degrees=None, sizes=[14], center=c[i], rotate=rot) for i in range(n)], BeckeWeights(order=3)),
        'from_pruned_d': MolGrid(z, [AtomGrid.from_pruned(R, float(rad[i]), r_sectors=[0.5, 1.0], d_sectors=[3, 5, 7], center=c[i], rotate=rot) for i in range(n)], BeckeWeights(order=3)),
        'from_pruned_s': MolGrid(z, [AtomGrid.from_pruned(R, float(rad[i]), r_sectors=[0.5, 1.0], s_sectors=[6, 14, 26], center=c[i], rotate=rot) for i in range(n)], BeckeWeights(order=3)),
    }
REF = refs()
CALL = {
    'from_preset': lambda store: MolGrid.from_preset(atn, co, presets, rglist, rotate=rot, store=store),
    'from_size': lambda store: MolGrid.from_size(atn, co, 14, R0, rotate=rot, store=store),
    'from_pruned_d': lambda store: MolGrid.from_pruned(atn, co, radius, rsec, dsec, rgrid=rglist, rotate=rot, store=store),
    'from_pruned_s': lambda store: MolGrid.from_pruned(atn, co, radius, rsec, s_sectors=ssec, rgrid=rglist, rotate=rot, store=store),
}
def unchanged_all(when):
    assert np.array_equal(atn, pristine['z']) and np.array_equal(co, pristine['c']) and np.array_equal(radius, pristine['rad']), f'{KEY} :: the caller\'s atnums / atcoords / radius arrays changed {when}'
    for big, view, fill, nm in ((big_z, atn, -1, 'atnums'), (big_c, co, -7.25, 'atcoords'), (big_rad, radius, -7.25, 'radius')):
        assert np.all(big[:3] == fill) and np.all(big[-3:] == fill), f'{KEY} :: the bytes around the caller\'s {nm} view changed {when}'
    assert one_r == [0.5, 1.0] and one_d == [3, 5, 7] and one_s == [6, 14, 26] and presets == ['coarse'] * n and all(g is R0 for g in rglist), f'{KEY} :: the caller\'s sector / preset / radial-grid lists changed {when}'
    assert np.array_equal(R0.points, GaussLaguerre(P['nrad']).points) and np.array_equal(R0.weights, GaussLaguerre(P['nrad']).weights), f'{KEY} :: the shared radial grid changed {when}'
kept = []
for t, name in enumerate(P['order']):
    store = bool((t + P['seed']) % 2)
    m = CALL[name](store)
    what = f'call {t} ({name}, store={store}) of the sequence {P["order"]} on one set of argument objects (views into larger arrays, one inner list for every atom, one radial grid object)'
    same(KEY, m, REF[name], what + ' vs the grid built by hand from pristine copies')
    unchanged_all('after ' + what)
    kept.append((name, m, mol_arrays(m)))
for name, m, arrs in kept:
    assert eqv(mol_arrays(m), arrs), f'{KEY} :: a grid built earlier ({name}) changed while later ones were built from the same argument objects'
# ---- one aim-weights array / one function-value array / one point array for several requests
hand = [AtomGrid(R0, degrees=[5], center=pristine['c'][i], rotate=rot) for i in range(n)]; size = sum(g.size for g in hand)
bigA, A = guarded(np.random.default_rng(P['seed']).uniform(0.1, 1, size)); A0 = A.copy()
grids = [MolGrid(atn, hand, A, store=bool(k % 2)) for k in range(3)]
for k, g in enumerate(grids):
    assert np.array_equal(g.weights, g.atweights * A0) and np.array_equal(A, A0), f'{KEY} :: grid {k} of three built with one aim-weights array: weights are not atweights * (pristine copy of the array)'
assert np.all(bigA[:3] == -7.25) and np.all(bigA[-3:] == -7.25), f'{KEY} :: the bytes around the aim-weights view changed'
ms = grids[1]
bigF, F = guarded(np.exp(-((ms.points[:, None, :] - pristine['c'][None, :, :]) ** 2).sum(axis=2)).sum(axis=1)); F0 = F.copy()
bigQ, Q = guarded(np.random.default_rng(P['seed'] + 2).uniform(-2, 2, (P['npts'], 3))); Q0 = Q.copy()
ref_int = float(MolGrid(atn, hand, A0.copy(), store=True).integrate(F0.copy()))
ref_I = {tuple(a): MolGrid(atn, hand, A0.copy(), store=True).interpolate(F0.copy())(Q0.copy(), *a) for a in ([], [1], [1, True], [2, False, True])}
for rep in range(3):
    assert float(ms.integrate(F)) == ref_int, f'{KEY} :: integrate call {rep} on one function-value array differs from the pristine computation'
    I = ms.interpolate(F)
    for a, want in ref_I.items():
        got = I(Q, *a)
        assert np.shape(got) == np.shape(want) and np.array_equal(got, want), (
            f'{KEY} :: interpolate request {rep} with options {list(a)} on one function-value array and one point array differs from the computation on pristine copies '
            f'(max deviation {float(np.max(np.abs(got - want))):.3g})')
    assert np.array_equal(F, F0) and np.array_equal(Q, Q0) and np.all(bigF[:3] == -7.25) and np.all(bigF[-3:] == -7.25) and np.all(bigQ[:3] == -7.25) and np.all(bigQ[-3:] == -7.25), (
        f'{KEY} :: the function values / query points (or the bytes around these views) changed during request {rep}')
assert np.array_equal(np.asarray(ms.indices), cums(hand)), f'{KEY} :: the index table changed during the requests'
"""

# -- class 17: value kinds of what the aim-weights callable returns, of the function values ------------------------------------------------------
CALLBACK_BODY = r"""
KEY = P['key']
atn = np.array(P['atnums']); co = np.array(P['coords'], dtype=float); n = len(atn)
hand = [AtomGrid(GaussLaguerre(P['nrad'][i]), degrees=[P['degs'][i]], center=co[i], rotate=0) for i in range(n)]
size = sum(g.size for g in hand); atw = np.concatenate([g.weights for g in hand]); ind = cums(hand)
rs = np.random.default_rng(P['seed'])
base = np.round(rs.uniform(0, 1, size) * 64) / 64              # representable in float16 .. longdouble
im = np.round(rs.uniform(-1, 1, size) * 64) / 64
VALS = {
    'complex128': base + 1j * im, 'complex64': (base + 1j * im).astype(np.complex64), 'longdouble': base.astype(np.longdouble),
    'float32': base.astype(np.float32), 'float16': base.astype(np.float16), 'int64': np.round(base * 4).astype(np.int64), 'bool': base > 0.5,
    'list-float': base.tolist(), 'list-complex': (base + 1j * im).tolist(), 'zero-d': np.array(0.75), 'python-float': 0.75, 'python-complex': 0.5 + 0.25j,
    'python-int': 2, 'numpy-bool-scalar': np.True_,
}
f = rs.uniform(-1, 1, size); fc = f + 1j * rs.uniform(-1, 1, size)
def expect(v): return atw * np.asarray(v)
for kind in P['kinds']:
    v = VALS[kind]
    for store in (False, True):
        what = f'aim-weights callable returning {kind} (store={store})'
        try:
            m = MolGrid(atn, hand, (lambda points, atcoords, atnums, indices, v=v: v), store=store)
        except Exception as e:
            raise AssertionError(f'{KEY}:raises :: MolGrid with an {what} raises {type(e).__name__}: {str(e)[:150]}')
        w = np.asarray(m.weights); ex = expect(v)
        assert w.shape == (size,) and np.array_equal(w, ex), f'{KEY} :: {what}: weights are not atweights * (the returned values) (dtype {w.dtype}, expected {ex.dtype})'
        assert np.array_equal(np.asarray(m.indices), ind) and np.array_equal(m.atweights, atw), f'{KEY} :: {what}: index table / atweights'
        for fv, nm in ((f, 'real'), (fc, 'complex')):
            tot = complex(m.integrate(fv)); want = complex(np.sum(ex.astype(complex) * fv))
            sc = float(np.sum(np.abs(ex.astype(complex) * fv))) + 1e-300
            assert abs(tot - want) <= 1e-11 * sc, f'{KEY} :: {what}: integrate of {nm} values = {tot!r}, sum(weights * f) = {want!r}'
        # linearity in the returned values: real and imaginary part separately
        if np.iscomplexobj(np.asarray(v)):
            mr = MolGrid(atn, hand, (lambda *a, v=v: np.asarray(v).real.astype(float) * np.ones(size)), store=store)
            mi = MolGrid(atn, hand, (lambda *a, v=v: np.asarray(v).imag.astype(float) * np.ones(size)), store=store)
            assert np.allclose(w.real, mr.weights, rtol=1e-15, atol=0) and np.allclose(w.imag, mi.weights, rtol=1e-15, atol=0), f'{KEY} :: {what}: real / imaginary parts of the weights are not the weights of the real / imaginary parts'
# a callable whose kind changes from call to call: every grid gets what was returned for it
state = {'k': 0}
seq = [VALS[k] for k in P['changing']]
def changing(points, atcoords, atnums, indices):
    v = seq[state['k'] % len(seq)]; state['k'] += 1; return v
for t in range(len(seq) + 1):
    m = MolGrid(atn, hand, changing, store=bool(t % 2))
    ex = expect(seq[t % len(seq)])
    assert np.array_equal(np.asarray(m.weights), ex), f'{KEY} :: call {t} of a callable returning {P["changing"]} in turn: weights are not atweights * (what this call returned)'
# complex / longdouble function values where the mathematics is linear: integrate and interpolate
ms = MolGrid(atn, hand, BeckeWeights(order=3), store=True)
g = np.exp(-((ms.points[:, None, :] - co[None, :, :]) ** 2).sum(axis=2)).sum(axis=1); h = g * np.cos(ms.points[:, 0])
pts = rs.uniform(-2, 2, (P['npts'], 3))
zi = complex(ms.integrate(g + 1j * h)); assert abs(zi - (float(ms.integrate(g)) + 1j * float(ms.integrate(h)))) <= 1e-12 * (abs(zi) + 1e-300), f'{KEY} :: integrate(g + i h) != integrate(g) + i integrate(h)'
li = ms.integrate(g.astype(np.longdouble)); assert abs(float(li) - float(ms.integrate(g))) <= 1e-12 * abs(float(li)), f'{KEY} :: integrate of longdouble values differs from float64'
aimw = np.asarray(ms.aim_weights, dtype=float)
for args in ([], [1], [1, True], [2, False, True]):
    try:
        zc = ms.interpolate(g + 1j * h)(pts, *args)
    except Exception as e:
        NOTES.append(f'interpolate of complex function values is rejected ({type(e).__name__}) — outside the clause'); break
    # the MolGrid side: the sum over the atoms of the atomic interpolants of the complex values
    want = hand[0].interpolate((aimw * (g + 1j * h))[ind[0]:ind[1]])(pts, *args)
    for k in range(1, n): want = want + hand[k].interpolate((aimw * (g + 1j * h))[ind[k]:ind[k + 1]])(pts, *args)
    sc = float(np.max(np.abs(want))) + 1e-300
    assert np.shape(zc) == np.shape(want) and float(np.max(np.abs(zc - want))) <= 1e-11 * sc, f'{KEY} :: interpolate of complex values (points, *{args}) is not the sum over the atoms of the atomic interpolants of the same values'
    # linearity, where the atomic layer itself is linear in complex data (AtomGrid's Cartesian derivative drops the imaginary part: C09's subject)
    a0 = hand[0]; s0 = slice(ind[0], ind[1])
    lin = a0.interpolate((g + 1j * h)[s0])(pts, *args) - (a0.interpolate(g[s0])(pts, *args) + 1j * a0.interpolate(h[s0])(pts, *args))
    if float(np.max(np.abs(lin))) > 1e-9 * (float(np.max(np.abs(a0.interpolate(g[s0])(pts, *args)))) + 1e-300):
        NOTES.append(f'AtomGrid.interpolate is not linear in complex function values for the options {args} (the imaginary part is dropped): lower layer, the molecular linearity is not asserted there')
        continue
    zr, zim = ms.interpolate(g)(pts, *args), ms.interpolate(h)(pts, *args)
    sc = float(np.max(np.abs(zr)) + np.max(np.abs(zim))) + 1e-300
    assert np.shape(zc) == np.shape(zr) and float(np.max(np.abs(zc - (zr + 1j * zim)))) <= 1e-10 * sc, f'{KEY} :: interpolate(g + i h)(points, *{args}) != interpolate(g) + i interpolate(h) (max deviation {float(np.max(np.abs(zc - (zr + 1j * zim)))):.3g})'
"""

# -- class 18: a call that raises leaves no trace ---------------------------------------------------------------------------------------------
RAISE_BODY = r"""
KEY = P['key']
atn = np.array(P['atnums']); co = np.array(P['coords'], dtype=float); n = len(atn); rot = P['rotate']
R0 = GaussLaguerre(P['nrad'])
rsec = [[0.5, 1.0][: i % 3] for i in range(n)]; dsec = [[3, 5, 7][: len(r) + 1] for r in rsec]; ssec = [[6, 14, 26][: len(r) + 1] for r in rsec]
GOOD = {
    'from_preset': lambda: MolGrid.from_preset(atn, co, 'coarse', R0, rotate=rot),
    'from_preset-default-rgrid': lambda: MolGrid.from_preset(atn, co, 'coarse', rotate=rot),
    'from_size': lambda: MolGrid.from_size(atn, co, 14, R0, rotate=rot),
    'from_pruned_d': lambda: MolGrid.from_pruned(atn, co, 1.25, rsec, dsec, rgrid=R0, rotate=rot),
    'from_pruned_s': lambda: MolGrid.from_pruned(atn, co, 1.25, rsec, s_sectors=ssec, rgrid=R0, rotate=rot),
}
BEFORE = {k: (digest(fn()), fn()) for k, fn in GOOD.items()}
zbad = atn.copy(); zbad[-1] = 58
BAD = [
    ('from_preset with an unknown preset name', lambda: MolGrid.from_preset(atn, co, 'no-such-preset', R0)),
    ('from_preset with a short preset list', lambda: MolGrid.from_preset(atn, co, ['coarse'] * (n - 1), R0)),
    ('from_preset with a dict missing an element', lambda: MolGrid.from_preset(atn, co, {999: 'coarse'}, R0)),
    ('from_preset with a radial grid of an unsupported type', lambda: MolGrid.from_preset(atn, co, 'coarse', 3.5)),
    ('from_preset with an element without default radial grid (last atom)', lambda: MolGrid.from_preset(zbad, co, 'coarse')),
    ('from_preset with a shell-count preset and the default radial grid', lambda: MolGrid.from_preset(atn, co, 'sg_0')),
    ('from_preset with one-dimensional atcoords', lambda: MolGrid.from_preset(atn, co[0], 'coarse', R0)),
    ('from_preset with too few centres', lambda: MolGrid.from_preset(atn, co[:-1], 'coarse', R0)) if n > 1 else None,
    ('from_size with an element without default radial grid (last atom)', lambda: MolGrid.from_size(zbad, co, 14)),
    ('from_size with a list of radial grids', lambda: MolGrid.from_size(atn, co, 14, [R0] * n)),
    ('from_size with an aim-weights array of the wrong size', lambda: MolGrid.from_size(atn, co, 14, R0, np.ones(3))),
    ('from_pruned with one sector list too few', lambda: MolGrid.from_pruned(atn, co, 1.25, rsec[:-1], dsec, rgrid=R0)),
    ('from_pruned with degrees that do not fit the sectors (last atom)', lambda: MolGrid.from_pruned(atn, co, 1.25, rsec, dsec[:-1] + [[3] * (len(dsec[-1]) + 2)], rgrid=R0)),
    ('from_pruned with an integer radius', lambda: MolGrid.from_pruned(atn, co, 1, rsec, dsec, rgrid=R0)),
    ('from_pruned with an integer s_sectors', lambda: MolGrid.from_pruned(atn, co, 1.25, rsec, dsec, s_sectors=26, rgrid=R0)),
    ('from_pruned with a dict missing an element', lambda: MolGrid.from_pruned(atn, co, 1.25, rsec, dsec, rgrid={999: R0})),
    ('MolGrid with aim weights of an unsupported type', lambda: MolGrid(atn, [AtomGrid(R0, degrees=[3], center=c) for c in co], [0.5])),
    ('MolGrid with an aim-weights callable that raises', lambda: MolGrid(atn, [AtomGrid(R0, degrees=[3], center=c) for c in co], lambda *a: (_ for _ in ()).throw(RuntimeError('callback')))),
    ('MolGrid without atomic grids', lambda: MolGrid(np.array([], dtype=int), [], np.ones(0))),
]
BAD = [b for b in BAD if b is not None]
order = P['order']
snap = (atn.copy(), co.copy(), [list(r) for r in rsec], [list(d) for d in dsec], R0.points.copy(), R0.weights.copy())
for t in order:
    label, fn = BAD[t % len(BAD)]
    try:
        fn(); raised = None
    except Exception as e:
        raised = type(e).__name__
    if raised is None:
        NOTES.append(f'accepted on this tree (not a rejection): {label}')
    assert np.array_equal(atn, snap[0]) and np.array_equal(co, snap[1]) and rsec == snap[2] and dsec == snap[3] and np.array_equal(R0.points, snap[4]) and np.array_equal(R0.weights, snap[5]), (
        f'{KEY} :: the caller\'s arguments changed during the rejected call: {label}')
    for k in P['after']:
        d0, g0 = BEFORE[k]
        g = GOOD[k]()
        same(KEY, g, g0, f'{k} after the rejected call "{label}" ({raised}) vs the same call before any rejection')
# ---- on one object: rejected requests between accepted ones
hand = [AtomGrid(R0, degrees=[5], center=co[i], rotate=rot) for i in range(n)]; size = sum(g.size for g in hand)
A = np.random.default_rng(P['seed']).uniform(0.1, 1, size)
f = np.random.default_rng(P['seed'] + 1).uniform(-1, 1, size); pts = np.random.default_rng(P['seed'] + 2).uniform(-2, 2, (P['npts'], 3))
for store in (True, False):
    fresh = lambda: MolGrid(atn, hand, A.copy(), store=store)
    m = fresh()
    REQ = [('integrate(f)', lambda g: float(g.integrate(f))), ('get_atomic_grid(0)', lambda g: snap_grid(g.get_atomic_grid(0))),
           (f'mg[{n - 1}]', lambda g: snap_grid(g[n - 1])), ('get_localgrid', lambda g: (lambda L: (np.sort(L.indices), np.sort(L.weights)))(g.get_localgrid(co[0], 1.5))),
           ('indices', lambda g: np.array(g.indices, copy=True)), ('weights', lambda g: np.array(g.weights, copy=True))]
    if store:
        REQ.append(('interpolate(f)(points, 1)', lambda g: np.array(g.interpolate(f)(pts, 1))))
    WANT = {nm: fn(fresh()) for nm, fn in REQ}
    REJ = [('get_atomic_grid(-1)', lambda g: g.get_atomic_grid(-1)), (f'get_atomic_grid({n})', lambda g: g.get_atomic_grid(n)), (f'mg[{n}]', lambda g: g[n]),
           ('integrate of a short array', lambda g: g.integrate(f[:-1])), ('integrate of a matrix', lambda g: g.integrate(np.ones((size, 2)))), ('integrate()', lambda g: g.integrate()),
           ('interpolate of a short array', lambda g: g.interpolate(f[:-1])(pts)), ('interpolate(f)(points, deriv=7)', lambda g: g.interpolate(f)(pts, 7)),
           ('interpolate(f)(points of a wrong shape)', lambda g: g.interpolate(f)(np.ones((2, 2)))), ('get_localgrid with a negative radius', lambda g: g.get_localgrid(co[0], -1.0)),
           ('get_localgrid with a centre of a wrong shape', lambda g: g.get_localgrid(np.zeros(2), 1.0)), ('points setter with a wrong shape', lambda g: setattr(g, 'points', np.zeros((3, 3)))),
           ('weights setter with a wrong shape', lambda g: setattr(g, 'weights', np.zeros(3))), ('save without stored grids', (lambda g: g.save(io.BytesIO())) if not store else (lambda g: g.get_atomic_grid('x')))]
    for t in order:
        label, bad = REJ[t % len(REJ)]
        try:
            bad(m); raised = None
        except Exception as e:
            raised = type(e).__name__
        if raised is None:
            NOTES.append(f'accepted on this tree (store={store}): {label}'); m = fresh(); continue
        for nm, fn in REQ:
            assert eqv(fn(m), WANT[nm]), f'{KEY} :: {nm} after the rejected request "{label}" ({raised}) on one grid (store={store}) differs from the same request on a new grid'
"""

# -- class 19: where the consumed layers are extreme ------------------------------------------------------------------------------------------
LAYER_BODY = r"""
from grid.rtransform import BeckeRTransform, HandyModRTransform, LinearFiniteRTransform
from grid.onedgrid import GaussChebyshev, Trapezoidal
KEY = P['key']
zs = P['atnums']; co = np.array(P['coords'], dtype=float); n = len(zs)
# ---- (a) atoms from 1e-6 to 1e9 bohr apart, partners with very different Bragg radii: preset grids with the default radial grids
if P['mode'] == 'distance':
    for preset in P['presets']:
        for store in (False, True):
            what = f'MolGrid.from_preset(atnums={zs}, preset={preset!r}, store={store}) with the atoms {P["distance"]:g} bohr apart'
            try:
                m = MolGrid.from_preset(np.array(zs), co, preset, store=store)
            except Exception as e:
                raise AssertionError(f'{KEY}:raises :: {what} raises {type(e).__name__}: {str(e)[:150]}')
            hand = [AtomGrid.from_preset(atnum=zs[i], preset=preset, rgrid=_generate_default_rgrid(zs[i]), center=co[i], rotate=37) for i in range(n)]
            check_after(KEY, m, hand, np.array(zs), co, what, store, seed=P['seed'])
            a = np.asarray(m.aim_weights, dtype=float)
            assert np.all(np.isfinite(a)) and a.min() >= 0.0 and a.max() <= 1.0 + 1e-12 and np.all(np.isfinite(m.weights)), f'{KEY} :: {what}: atom-in-molecule weights not finite / outside [0, 1] (min {np.nanmin(a)}, max {np.nanmax(a)})'
            # measured envelope on the pinned tree (fine grid, exponent 2, 1e-6 .. 1e9 bohr, H/H, H/He, O/H, H/Cs): error <= 0.4 %
            if preset == 'fine':
                al = 2.0
                fv = sum((al / math.pi) ** 1.5 * np.exp(-al * ((m.points - c) ** 2).sum(axis=1)) for c in co)
                err = abs(float(m.integrate(fv)) - n) / n
                assert err <= 0.01, f'{KEY} :: {what}: the sum of normalised Gaussians (exponent 2) integrates {err:.3%} off the total charge'
# ---- (b) radial grids next to the singular end of their transform (radii up to 1e3 .. 1e5 bohr, weights up to 1e4 .. 1e9), trimmed ends
else:
    rgs = {'becke': BeckeRTransform(1e-4, 1.5).transform_1d_grid(GaussChebyshev(P['nrad'])),
           'handymod': HandyModRTransform(1e-3, 30.0, 3).transform_1d_grid(GaussChebyshev(P['nrad'])),
           'linear-short': LinearFiniteRTransform(1e-9, 1e-6).transform_1d_grid(Trapezoidal(P['nrad']))}
    rg = rgs[P['radial']]
    assert np.all(np.isfinite(rg.points)) and np.all(np.isfinite(rg.weights)), f'{KEY} :: the radial grid {P["radial"]} is not finite (lower layer)'
    atn = np.array(zs)
    for route in P['routes']:
        ctor, handf = routes(route, atn, co, [rg] * n, P['rotate'], dict(degs=P['degs'], presets=['coarse'], size=14, shift=1))
        hand = handf()
        for store in (False, True):
            what = f'{route} on {n} atoms with the radial grid {P["radial"]} (radii {rg.points.min():.3g} .. {rg.points.max():.3g}, weights up to {rg.weights.max():.3g}), store={store}'
            try:
                m = ctor(None, store)
            except Exception as e:
                raise AssertionError(f'{KEY}:raises :: {what} raises {type(e).__name__}: {str(e)[:150]}')
            check_after(KEY, m, hand, atn, co, what, store, seed=P['seed'])
            a = np.asarray(m.aim_weights, dtype=float)
            assert np.all(np.isfinite(a)) and a.min() >= 0.0 and a.max() <= 1.0 + 1e-12, f'{KEY} :: {what}: atom-in-molecule weights not finite / outside [0, 1]'
"""


def _run(ctx, body, P, tag, nontrivial=True):
    base, ext = _base(), _ext()
    saved = base.KINDS_PRELUDE
    try:
        base.KINDS_PRELUDE = saved + "import io\n" + ext.EXT_PRELUDE + R4_PRELUDE
        return base._run_snippet(ctx, body, P, tag, nontrivial=nontrivial)
    finally:
        base.KINDS_PRELUDE = saved


def _mol(ctx, n, dmin=1.4, box=3.5):
    return _base()._lattice_mol(ctx, n, box=box, dmin=dmin)


ROUTES = ["init", "from_preset", "from_size", "from_pruned_d", "from_pruned_s"]


def oracle_big(ctx: Ctx, budget):
    """4..8 atoms through every route, every quick run (the seeded rewrite of the index table by the aim-weights callable needs >= 4 atoms)"""
    rng = ctx.rng
    large = budget == "large" or ctx.thorough
    base = _base()
    sizes = [4, 5, 6, 7, 8] if large else sorted({4, 8, rng.choice([5, 6, 7])})
    for n in sizes:
        routes = ROUTES if (large or n in (4, 8)) else rng.sample(ROUTES, 2)
        P = dict(key="molgrid.MolGrid:after-construction", atnums=[rng.choice(base.ELEMENTS) for _ in range(n)], coords=_mol(ctx, n),
                 nrad=[rng.choice([3, 4, 5]) for _ in range(n)], degs=[rng.choice([3, 5, 7]) for _ in range(n)], presets=["coarse", "medium"],
                 size=rng.choice([6, 14]), shift=rng.randrange(4), rotate=rng.choice([0, 37, rng.randrange(1, 10 ** 6)]), routes=routes,
                 aims=["default", "spy"] if n in (4, 8) or large else ["default"], interp=rng.choice([1, 2, 4]), seed=rng.randrange(2 ** 31))
        if len(set(P["nrad"])) == 1:
            P["nrad"][0] = 3 + (P["nrad"][0] - 2) % 3
        _run(ctx, BIG_BODY, P, f"oracle:after-construction:{n}-atoms")


def oracle_objkind(ctx: Ctx, budget):
    rng = ctx.rng
    large = budget == "large" or ctx.thorough
    base = _base()
    # (longdouble radial grids are left out: the atomic layer then computes in extended precision, which is not "the same numbers")
    kinds = ["int64", "int32", "float32", "bool", "readonly", "strided", "negstride", "view", "float16", "uint8"]
    todo = kinds if large else rng.sample(kinds, 4)
    for kind in todo:
        n = rng.choice([2, 4, 5])
        rp = [1.0, 2.0, 4.0, 6.0][: rng.choice([3, 4])]
        if kind == "bool":
            rp = [1.0]
        P = dict(key="molgrid.MolGrid:object-array-kinds", atnums=[rng.choice(base.ELEMENTS) for _ in range(n)], coords=_mol(ctx, n), rotate=rng.choice([0, 37]),
                 rpoints=rp, rweights=[1.0, 2.0, 3.0, 1.0][: len(rp)], kind=kind, wkind=rng.choice([kind, "float64"]) if kind != "bool" else "bool",
                 degs=[rng.choice([3, 5]) for _ in range(n)], routes=ROUTES if large else rng.sample(ROUTES, 2),
                 apoints=[[rng.randrange(-4, 5) for _ in range(3)] for _ in range(rng.choice([1, 2, 5]))], aweights=None, acenter=[1.0, 0.0, 2.0],
                 akinds=["int64", "float32", "bool", "readonly", "strided", "negstride", "fortran", "view", "longdouble"] if large else rng.sample(
                     ["int64", "float32", "bool", "readonly", "strided", "negstride", "fortran", "view", "longdouble"], 3),
                 qpoints=[[rng.randrange(-2, 3) + 0.5 for _ in range(3)] for _ in range(rng.choice([1, 2, 4]))],
                 fkinds=["int64", "int32", "float32", "bool", "readonly", "strided", "negstride", "view", "longdouble"] if large else rng.sample(
                     ["int64", "int32", "float32", "bool", "readonly", "strided", "negstride", "view", "longdouble"], 3),
                 pkinds=["float32", "readonly", "strided", "negstride", "fortran", "view"] if large else rng.sample(["float32", "readonly", "strided", "negstride", "fortran", "view"], 2),
                 seed=rng.randrange(2 ** 31))
        P["aweights"] = [float(1 + k % 2) for k in range(len(P["apoints"]))]
        _run(ctx, OBJKIND_BODY, P, f"oracle:object-array-kinds:{kind}")


def oracle_args(ctx: Ctx, budget):
    rng = ctx.rng
    base = _base()
    for rep in range(3 if (budget == "large" or ctx.thorough) else 1):
        n = rng.choice([2, 3, 4])
        P = dict(key="molgrid.MolGrid:argument-combinations", atnums=[rng.choice(base.ELEMENTS) for _ in range(n)], coords=_mol(ctx, n), nrad=rng.choice([4, 5]),
                 npts=rng.choice([1, 2, 4]), seed=rng.randrange(2 ** 31))
        _run(ctx, ARGS_BODY, P, "oracle:argument-combinations")


def oracle_shared(ctx: Ctx, budget):
    rng = ctx.rng
    base = _base()
    names = ["from_preset", "from_size", "from_pruned_d", "from_pruned_s"]
    for rep in range(4 if (budget == "large" or ctx.thorough) else 2):
        n = rng.choice([2, 4, 5])
        order = [rng.choice(names) for _ in range(3)] + rng.sample(names, 4)
        order += [order[0], order[0]]                                   # the same entry point two and three times
        P = dict(key="molgrid.MolGrid:shared-arguments", atnums=[rng.choice(base.ELEMENTS) for _ in range(n)], coords=_mol(ctx, n), nrad=rng.choice([4, 5]),
                 rotate=rng.choice([0, 37, rng.randrange(1, 10 ** 6)]), order=order, npts=rng.choice([1, 2, 5]), seed=rng.randrange(2 ** 31))
        _run(ctx, SHARED_BODY, P, f"oracle:shared-arguments:{n}-atoms")


def oracle_callback(ctx: Ctx, budget):
    rng = ctx.rng
    base = _base()
    large = budget == "large" or ctx.thorough
    allk = ["complex128", "complex64", "longdouble", "float32", "float16", "int64", "bool", "list-float", "list-complex", "zero-d", "python-float",
            "python-complex", "python-int", "numpy-bool-scalar"]
    for rep in range(3 if large else 1):
        n = rng.choice([1, 2, 4])
        P = dict(key="molgrid.MolGrid.__init__:callback-value-kinds", atnums=[rng.choice(base.ELEMENTS) for _ in range(n)], coords=_mol(ctx, n),
                 nrad=[rng.choice([3, 4]) for _ in range(n)], degs=[rng.choice([3, 5]) for _ in range(n)], kinds=allk if large else ["complex128", "zero-d"] + rng.sample(allk, 5),
                 changing=rng.sample(["float32", "complex128", "int64", "longdouble", "bool", "python-float"], 4), npts=rng.choice([1, 2, 4]), seed=rng.randrange(2 ** 31))
        _run(ctx, CALLBACK_BODY, P, "oracle:callback-value-kinds", nontrivial=n >= 2)


def oracle_raise(ctx: Ctx, budget):
    rng = ctx.rng
    base = _base()
    large = budget == "large" or ctx.thorough
    for rep in range(3 if large else 1):
        n = rng.choice([2, 3, 4])
        P = dict(key="molgrid.MolGrid:rejected-call-leaves-no-trace", atnums=[rng.choice(base.ELEMENTS) for _ in range(n)], coords=_mol(ctx, n), nrad=rng.choice([4, 5]),
                 rotate=rng.choice([0, 37]), order=rng.sample(range(60), 60 if large else 12),
                 after=["from_preset", "from_preset-default-rgrid", "from_size", "from_pruned_d", "from_pruned_s"] if large else
                 ["from_preset-default-rgrid"] + rng.sample(["from_preset", "from_size", "from_pruned_d", "from_pruned_s"], 1),
                 npts=rng.choice([1, 2, 4]), seed=rng.randrange(2 ** 31))
        ns = _run(ctx, RAISE_BODY, P, "oracle:rejected-call")
        if ns is not None and ns.get("NOTES"):
            ctx.extra.setdefault("input_kinds", {})["accepted_although_listed_as_rejections"] = sorted(set(ns["NOTES"]))[:12]


def oracle_layer(ctx: Ctx, budget):
    rng = ctx.rng
    large = budget == "large" or ctx.thorough
    pairs = [[1, 1], [1, 55], [8, 1], [1, 2], [17, 3]]
    dists = [1e-6, 1e-3, 0.05, 0.2, 0.5, 10.0, 1e3, 1e6, 1e9]
    for d in (dists if large else rng.sample(dists, 3)):
        zs = rng.choice(pairs)
        ax = rng.randrange(3)
        c1 = [0.0, 0.0, 0.0]
        c1[ax] = d
        P = dict(key="molgrid.MolGrid:extreme-lower-layer", mode="distance", atnums=zs, coords=[[0.0, 0.0, 0.0], c1], distance=d,
                 presets=["coarse", "fine"] if large else [rng.choice(["coarse", "fine"])], seed=rng.randrange(2 ** 31))
        _run(ctx, LAYER_BODY, P, f"oracle:extreme-layer:distance:{d:g}")
    base = _base()
    for radial in (["becke", "handymod", "linear-short"] if large else [rng.choice(["becke", "handymod", "linear-short"])]):
        n = rng.choice([2, 4, 6])
        P = dict(key="molgrid.MolGrid:extreme-lower-layer", mode="radial", radial=radial, atnums=[rng.choice(base.ELEMENTS) for _ in range(n)], coords=_mol(ctx, n),
                 nrad=rng.choice([12, 20]), degs=[rng.choice([3, 5]) for _ in range(n)], rotate=rng.choice([0, 37]),
                 routes=ROUTES if large else rng.sample(ROUTES, 2), seed=rng.randrange(2 ** 31))
        _run(ctx, LAYER_BODY, P, f"oracle:extreme-layer:radial:{radial}")


ORACLE_PARTS = [("after-construction", oracle_big), ("object-array-kinds", oracle_objkind), ("argument-combinations", oracle_args),
                ("shared-arguments", oracle_shared), ("callback-value-kinds", oracle_callback), ("rejected-call", oracle_raise),
                ("extreme-layer", oracle_layer)]

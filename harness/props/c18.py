"""C18 — multi-domain integration equals the iterated product quadrature."""
import importlib
import itertools
import math

import numpy as np

from ..common import Ctx, Tokens, close, driver_batch, f2b, fvec

LEVEL = "proof"
LEVEL_TEXT = (
    "Lean theorems over any commutative semiring of values, any point type (mixed 1-D/3-D), any number and sizes of "
    "domains, list mode and repeated-grid mode: the point-by-point route with every chunk size c >= 1 (dividing the total "
    "or not) and the vectorised route (incl. the single-domain shortcut) both equal the sum over all combinations of one "
    "node per domain of (product of weights) * f(points); independence of the chunk size; size = number of enumerated "
    "points = number of enumerated weights = product of the sizes; points and weights are images of one enumeration of "
    "the product set, in itertools.product order (position formula, membership); nested-sum form; separable integrands "
    "give the product of the single-grid integrals. c = 0 gives 0 (recorded, outside the property). Tie to the code: "
    "hand model of ngrid.py compared with the implementation on random configurations (structure exactly, values with "
    "tolerance)."
)
TECHNIQUE = "Lean 4 proof (generic list/semiring theorems) + differential correspondence + nested-sum oracle"
GEN = []
LEAN_MODULES = ["GridVerif.Props.C18"]
THEOREMS = [
    "GridVerif.C18.mem_product",
    "GridVerif.C18.product_order",
    "GridVerif.C18.constructor_spec",
    "GridVerif.C18.domains_spec",
    "GridVerif.C18.points_weights_enumerate",
    "GridVerif.C18.size_eq",
    "GridVerif.C18.integrate_nonvec_eq",
    "GridVerif.C18.integrate_chunk_independent",
    "GridVerif.C18.integrate_chunk_zero",
    "GridVerif.C18.integrate_vec_eq",
    "GridVerif.C18.vectorised_eq_pointwise",
    "GridVerif.C18.productSum_nested",
    "GridVerif.C18.separable",
    "GridVerif.C18.integrate_separable",
    "GridVerif.NGrid.chunk_fold",
    "GridVerif.NGrid.flatten_chunked",
]
RULE = (
    "correspondence: random MultiDomainGrid configurations (1-4 domains, list or repeated-grid mode, mixed 1-D/3-D points, "
    "sizes 1..7, signed weights, separable and non-separable integrands passed to the model as their table of values over "
    "the product set); per configuration: size / enumerated points (as index tuples) / enumerated weights, the vectorised "
    "route and the point-by-point route for chunk sizes from {1,2,3,5,total-1,total,total+1,6000} (and 0, recorded); "
    "_chunked_iterator lengths; constructor rejections; wrong-shape vectorised integrand. non-trivial = at least 2 domains "
    "and a chunk size >= 1 not dividing the total (point-by-point), or at least 2 domains (vectorised / structure)"
)
TRUSTED_BASE = [
    "Lean 4.33 kernel; axioms propext, Classical.choice, Quot.sound only (audited per theorem)",
    "hand model Model/NGrid.lean of MultiDomainGrid, tied by correspondence",
    "itertools.product / islice / zip semantics as modelled (product: last factor fastest; islice(it, 0) = empty)",
    "a vectorised integrand F is the pointwise integrand evaluated on every point of the last domain (hypothesis hF)",
]
ASSUMPTIONS = [
    "exact arithmetic in the theorems; floating-point results agree up to summation order (tolerance 1e-11 of the sum of |terms|)",
    "Grid.__init__ guarantees len(points) == len(weights) (Grid.WF)",
    "negative chunk sizes (islice raises) and non-integer chunk sizes are outside the model",
]

# The integrand family, as source text so that replay snippets are self-contained.
INTEGRAND_SRC = '''
import numpy as np
class Integrand:
    """kind 'sep': prod_k (c0[k] + c1[k] t_k + c2[k] t_k^2);  kind 'nonsep': exp(-0.3 s^2) + sum_k t_k t_{k+1} + 0.1 s,
    s = sum_k c1[k] t_k;  t_k = a[k] * x_k for a 1-D point, d[k] . x_k for a 3-D point.
    Works pointwise and with an array of points as the last argument."""
    def __init__(self, kind, dims, a, d, c0, c1, c2):
        self.kind, self.dims, self.a, self.d = kind, dims, a, [np.array(v, dtype=float) for v in d]
        self.c0, self.c1, self.c2 = c0, c1, c2
    def t(self, k, x):
        x = np.asarray(x, dtype=float)
        return x * self.a[k] if self.dims[k] == 1 else x @ self.d[k]
    def __call__(self, *args):
        ts = [self.t(k, x) for k, x in enumerate(args)]
        if self.kind == "sep":
            r = 1.0
            for k, t in enumerate(ts):
                r = r * (self.c0[k] + self.c1[k] * t + self.c2[k] * t * t)
            return r + 0.0 * ts[-1]
        s = 0.0
        for k, t in enumerate(ts):
            s = s + self.c1[k] * t
        r = np.exp(-0.3 * s * s) + 0.1 * s
        for k in range(len(ts) - 1):
            r = r + ts[k] * ts[k + 1]
        return r
    def factor(self, k, x):
        t = self.t(k, x)
        return self.c0[k] + self.c1[k] * t + self.c2[k] * t * t
'''
_ns = {}
exec(INTEGRAND_SRC, _ns)
Integrand = _ns["Integrand"]


def _r(x):
    return round(float(x), 3)


def _config(ctx: Ctx, cap: int):
    """-> dict(mode, nd, dims, pts, wts, integrand-params)"""
    rng = ctx.rng
    nd = rng.choice([1, 2, 2, 3, 3, 4])
    mode = "repeat" if rng.random() < 0.3 else "list"
    ngr = 1 if mode == "repeat" else nd
    while True:
        sizes = [rng.randint(1, 7) for _ in range(ngr)]
        tot = sizes[0] ** nd if mode == "repeat" else math.prod(sizes)
        if tot <= cap:
            break
    dims = [rng.choice([1, 3]) for _ in range(ngr)]
    pts, wts = [], []
    for n, dm in zip(sizes, dims):
        p = [[_r(rng.uniform(-1.5, 1.5)) for _ in range(dm)] for _ in range(n)]
        pts.append([q[0] for q in p] if dm == 1 else p)
        wts.append([_r(rng.uniform(-0.5, 1.5)) or 0.25 for _ in range(n)])
    ddims = dims * nd if mode == "repeat" else dims
    par = dict(
        kind=rng.choice(["sep", "nonsep"]), dims=ddims,
        a=[_r(rng.uniform(0.3, 1.2)) for _ in range(nd)],
        d=[[_r(rng.uniform(-1, 1)) for _ in range(3)] for _ in range(nd)],
        c0=[_r(rng.uniform(0.5, 1.5)) for _ in range(nd)],
        c1=[_r(rng.uniform(-1, 1)) for _ in range(nd)],
        c2=[_r(rng.uniform(-0.5, 0.5)) for _ in range(nd)],
    )
    return dict(mode=mode, nd=nd, dims=dims, pts=pts, wts=wts, par=par, total=tot)


def _build(cfg):
    bg = importlib.import_module("grid.basegrid")
    ng = importlib.import_module("grid.ngrid")
    grids = [bg.Grid(np.array(p, dtype=float), np.array(w, dtype=float)) for p, w in zip(cfg["pts"], cfg["wts"])]
    mg = ng.MultiDomainGrid(grids, num_domains=cfg["nd"]) if cfg["mode"] == "repeat" else ng.MultiDomainGrid(grids)
    doms = grids * cfg["nd"] if cfg["mode"] == "repeat" else grids
    return mg, grids, doms


def _spec(cfg):
    return f"{cfg['mode']} {cfg['nd']} {len(cfg['wts'])} " + " ".join(fvec(w) for w in cfg["wts"])


def _table(doms, f):
    """values of f over the product set, own mixed-radix loop (last domain fastest)."""
    sizes = [d.size for d in doms]
    out = []
    for idx in np.ndindex(*sizes):
        out.append(float(f(*[d.points[i] for d, i in zip(doms, idx)])))
    return out


def _chunk_sizes(total):
    return sorted({1, 2, 3, 5, max(1, total - 1), total, total + 1, 6000})


def corr(ctx: Ctx):
    ng = importlib.import_module("grid.ngrid")
    bg = importlib.import_module("grid.basegrid")
    ncfg = ctx.n(500, 10000)
    cap = 500 if not ctx.thorough else 2401
    cfgs = [_config(ctx, cap if i % 5 else 60) for i in range(ncfg)]
    lines, meta = [], []
    for ci, cfg in enumerate(cfgs):
        mg, grids, doms = _build(cfg)
        f = Integrand(**cfg["par"])
        tab = _table(doms, f)
        cfg["_tab"] = tab
        spec = _spec(cfg)
        lines.append("C18.struct " + spec)
        meta.append((ci, "struct", None))
        lines.append(f"C18.vec {spec} {fvec(tab)}")
        meta.append((ci, "vec", None))
        cs = _chunk_sizes(cfg["total"])
        if cfg["total"] > 80:
            keep = ctx.rng.sample(cs, 3)
            nd_ = [c for c in cs if cfg["total"] % c and c < cfg["total"]]
            if nd_:
                keep.append(ctx.rng.choice(nd_))
            cs = sorted(set(keep))
        if ci % 7 == 0:
            cs = [0] + cs
        for c in cs:
            lines.append(f"C18.nonvec {c} {spec} {fvec(tab)}")
            meta.append((ci, "nonvec", c))
        if ci % 9 == 0:
            lines.append(f"C18.vecbad {spec} {fvec(tab)}")
            meta.append((ci, "vecbad", None))
    ans = driver_batch(lines)
    built = {}
    for (ci, kind, c), a in zip(meta, ans):
        cfg = cfgs[ci]
        if ci not in built:
            built.clear()
            built[ci] = _build(cfg) + (Integrand(**cfg["par"]),)
        mg, grids, doms, f = built[ci]
        case = {k: cfg[k] for k in ("mode", "nd", "dims", "pts", "wts", "par")}
        sizes = [d.size for d in doms]
        total = cfg["total"]
        wit = dict(case, op=kind, chunk=c)
        if kind == "struct":
            ctx.count(["struct", case], nontrivial=cfg["nd"] >= 2, tag=f"struct:{cfg['mode']}:nd{cfg['nd']}")
            t = Tokens(a)
            if t.tok() != "ok":
                ctx.fail("corr", "ngrid.struct", f"model rejected a valid configuration: {a}", witness=wit)
                continue
            msize = t.nat()
            r, cc = t.nat(), t.nat()
            combos = [[t.nat() for _ in range(cc)] for _ in range(r)]
            mw = t.fvec()
            isize = int(mg.size)
            ipts = list(mg.points)
            iw = [float(x) for x in mg.weights]
            if isize != msize or len(ipts) != r or len(iw) != len(mw):
                ctx.fail("corr", "ngrid.size", f"size: implementation {isize} (points {len(ipts)}, weights {len(iw)}), model {msize} ({r}, {len(mw)})", witness=wit)
                continue
            okp = all(
                len(tp) == len(cb) and all(np.array_equal(np.asarray(x), np.asarray(d.points[i])) for x, d, i in zip(tp, doms, cb))
                for tp, cb in zip(ipts, combos)
            )
            if not okp:
                ctx.fail("corr", "ngrid.points", "enumerated points differ from the model's product order", witness=wit)
            if not all(close(x, y, rtol=1e-13, atol=1e-300) for x, y in zip(iw, mw)):
                ctx.fail("corr", "ngrid.weights", "enumerated weights differ from the model's", witness=wit)
            continue
        wprod = np.ones(())
        for d in doms:
            wprod = np.multiply.outer(wprod, d.weights)
        scale = float(np.abs(wprod.ravel() * np.array(cfg["_tab"])).sum()) + 1e-300
        if kind == "vec":
            ctx.count(["vec", case], nontrivial=cfg["nd"] >= 2, tag="vec:" + ("shortcut" if cfg["nd"] == 1 else cfg["mode"]))
            try:
                iv = "ok", float(mg.integrate(f))
            except ValueError:
                iv = "value-error", None
        elif kind == "vecbad":
            ctx.count(["vecbad", case], nontrivial=False, tag="vec:wrong-shape")
            try:
                iv = "ok", float(mg.integrate(lambda *xs: f(*xs)[1:]))
            except ValueError:
                iv = "value-error", None
        else:
            nontriv = cfg["nd"] >= 2 and c >= 1 and total % c != 0
            ctx.count(["nonvec", c, case], nontrivial=nontriv,
                      tag="nonvec:" + ("c=0" if c == 0 else "c=1" if c == 1 else "c>total" if c > total else "c=total" if c == total else "divides" if total % c == 0 else "not-dividing"))
            try:
                iv = "ok", float(mg.integrate(f, non_vectorized=True, integration_chunk_size=c))
            except ValueError:
                iv = "value-error", None
        t = Tokens(a)
        tag = t.tok()
        if tag != iv[0]:
            ctx.fail("corr", f"ngrid.integrate:{kind}", f"{kind} c={c}: implementation {iv}, model {a}", witness=wit)
            continue
        if tag == "ok":
            mv = t.flt()
            if not close(iv[1], mv, rtol=1e-11, scale=scale):
                ctx.fail("corr", f"ngrid.integrate:{kind}", f"{kind} c={c}: implementation {iv[1]!r}, model {mv!r} (scale {scale:.3g})", witness=wit)
    # _chunked_iterator lengths
    pairs = [(c, n) for c in (0, 1, 2, 3, 5, 7, 6000) for n in (0, 1, 2, 5, 6, 7, 14, 15)]
    ans = driver_batch([f"C18.chunks {c} {n}" for c, n in pairs])
    for (c, n), a in zip(pairs, ans):
        impl = [len(x) for x in ng._chunked_iterator(iter(range(n)), c)]
        ctx.count(["chunks", c, n], nontrivial=False, tag="chunks")
        if a != "ok " + " ".join(map(str, [len(impl)] + impl)):
            ctx.fail("corr", "ngrid._chunked_iterator", f"_chunked_iterator(range({n}), {c}) has chunk lengths {impl}, model {a}")
    # constructor rejections
    g1 = bg.Grid(np.array([0.0, 1.0]), np.array([1.0, 1.0]))
    g2 = bg.Grid(np.zeros((3, 3)), np.ones(3))
    cases = [("list", None, []), ("list", None, [g1]), ("list", None, [g1, g2]), ("repeat", 2, [g1, g2]), ("repeat", 0, [g1]),
             ("repeat", 1, [g1]), ("repeat", 3, [g2]), ("repeat", 2, [])]
    ans = driver_batch([f"C18.new {m} {nd or 0} {len(gl)} " + " ".join(str(g.size) for g in gl) for m, nd, gl in cases])
    for (m, nd, gl), a in zip(cases, ans):
        try:
            ng.MultiDomainGrid(gl, num_domains=nd)
            impl = "ok"
        except ValueError:
            impl = "value-error"
        ctx.count(["new", m, nd, len(gl)], nontrivial=False, tag="constructor:" + impl)
        if impl != a.strip():
            ctx.fail("corr", "ngrid.__init__", f"MultiDomainGrid({len(gl)} grids, num_domains={nd}): implementation {impl}, model {a}")


SNIPPET = """import warnings; warnings.filterwarnings('ignore')
import math, numpy as np
from grid.basegrid import Grid
from grid.ngrid import MultiDomainGrid
{integrand_src}
cfg = {cfg!r}
grids = [Grid(np.array(p, dtype=float), np.array(w, dtype=float)) for p, w in zip(cfg['pts'], cfg['wts'])]
mg = MultiDomainGrid(grids, num_domains=cfg['nd']) if cfg['mode'] == 'repeat' else MultiDomainGrid(grids)
doms = grids * cfg['nd'] if cfg['mode'] == 'repeat' else grids
f = Integrand(**cfg['par'])
terms = []
def rec(k, args, w):
    if k == len(doms):
        terms.append(w * float(f(*args))); return
    for i in range(doms[k].size):
        rec(k + 1, args + [doms[k].points[i]], w * float(doms[k].weights[i]))
rec(0, [], 1.0)
want, scale = math.fsum(terms), math.fsum(abs(t) for t in terms) + 1e-300
what = {what!r}
if what == 'vec':
    got = float(mg.integrate(f))
elif what == 'nonvec':
    got = float(mg.integrate(f, non_vectorized=True, integration_chunk_size={chunk}))
elif what == 'separable':
    got = float(mg.integrate(f))
    want = math.prod(math.fsum(float(d.weights[i]) * float(f.factor(k, d.points[i])) for i in range(d.size)) for k, d in enumerate(doms))
elif what == 'size':
    got, want, scale = int(mg.size), len(terms), 0
    assert got == want == len(list(mg.points)) == len(list(mg.weights)), (got, want)
assert abs(got - want) <= 1e-10 * scale, f'{{what}}: integrate gives {{got!r}}, nested product quadrature {{want!r}}'
"""


def _real_grids(ctx, nd):
    """domains from the library's own grid classes (small)."""
    od = importlib.import_module("grid.onedgrid")
    ang = importlib.import_module("grid.angular")
    out = []
    for _ in range(nd):
        k = ctx.rng.randrange(4)
        if k == 0:
            out.append(od.GaussLegendre(ctx.rng.randint(2, 6)))
        elif k == 1:
            out.append(od.Trapezoidal(ctx.rng.randint(2, 6)))
        elif k == 2:
            out.append(ang.AngularGrid(degree=3, method="lebedev"))
        else:
            out.append(od.MidPoint(ctx.rng.randint(2, 5)))
    return out


def oracle(ctx: Ctx, budget: str):
    """The property on the implementation against an explicit nested-loop quadrature
    (recursion over the domains, math.fsum; no itertools, no model)."""
    ng = importlib.import_module("grid.ngrid")
    n = 25 if budget == "small" else 400
    for it in range(n):
        cfg = _config(ctx, 150 if budget == "small" else 700)
        mg, grids, doms = _build(cfg)
        f = Integrand(**cfg["par"])
        pub = {k: cfg[k] for k in ("mode", "nd", "dims", "pts", "wts", "par")}
        terms, combos, wlist = [], [], []

        def rec(k, args, idx, w):
            if k == len(doms):
                terms.append(w * float(f(*args)))
                combos.append(tuple(idx))
                wlist.append(w)
                return
            for i in range(doms[k].size):
                rec(k + 1, args + [doms[k].points[i]], idx + [i], w * float(doms[k].weights[i]))

        rec(0, [], [], 1.0)
        want = math.fsum(terms)
        scale = math.fsum(abs(t) for t in terms) + 1e-300

        def snip(what, chunk=0):
            return SNIPPET.format(integrand_src=INTEGRAND_SRC, cfg=pub, what=what, chunk=chunk)

        # size / enumerations
        ipts, iw = list(mg.points), [float(x) for x in mg.weights]
        if not (int(mg.size) == len(terms) == len(ipts) == len(iw)):
            ctx.fail("oracle", "ngrid.size", f"size {mg.size}, {len(ipts)} points, {len(iw)} weights, product set has {len(terms)}",
                     witness=pub, snippet=snip("size"))
        else:
            for tp, wv, cb, ww in zip(ipts, iw, combos, wlist):
                if not all(np.array_equal(np.asarray(x), np.asarray(d.points[i])) for x, d, i in zip(tp, doms, cb)):
                    ctx.fail("oracle", "ngrid.points", f"points are not the product set in nested-loop order at combination {cb}", witness=pub, snippet=snip("size"))
                    break
                if not close(wv, ww, rtol=1e-13, atol=1e-300):
                    ctx.fail("oracle", "ngrid.weights", f"weight of combination {cb} is {wv!r}, product of the weights {ww!r}", witness=pub, snippet=snip("size"))
                    break
        got = float(mg.integrate(f))
        if not close(got, want, rtol=1e-10, scale=scale):
            ctx.fail("oracle", "ngrid.integrate:vectorized", f"vectorised integrate {got!r}, nested product quadrature {want!r}",
                     witness=dict(pub, got=got, want=want), snippet=snip("vec"))
        tot = cfg["total"]
        for c in _chunk_sizes(tot) if tot <= 60 else ctx.rng.sample(_chunk_sizes(tot), 3):
            got = float(mg.integrate(f, non_vectorized=True, integration_chunk_size=c))
            if not close(got, want, rtol=1e-10, scale=scale):
                ctx.fail("oracle", "ngrid.integrate:chunk", f"point-by-point integrate with chunk size {c} gives {got!r}, nested product quadrature {want!r} (total {tot})",
                         witness=dict(pub, chunk=c, got=got, want=want), snippet=snip("nonvec", c))
        if cfg["par"]["kind"] == "sep":
            prod = math.prod(math.fsum(float(d.weights[i]) * float(f.factor(k, d.points[i])) for i in range(d.size)) for k, d in enumerate(doms))
            got = float(mg.integrate(f))
            if not close(got, prod, rtol=1e-10, scale=scale):
                ctx.fail("oracle", "ngrid.integrate:separable", f"separable integrand: integrate {got!r}, product of single-grid integrals {prod!r}",
                         witness=dict(pub, got=got, want=prod), snippet=snip("separable"))
    # the library's own grid classes as domains
    for it in range(6 if budget == "small" else 60):
        nd = ctx.rng.randint(1, 3)
        doms = _real_grids(ctx, nd)
        dims = [1 if d.points.ndim == 1 else 3 for d in doms]
        par = dict(kind=ctx.rng.choice(["sep", "nonsep"]), dims=dims, a=[0.7] * nd, d=[[0.3, -0.5, 0.8]] * nd,
                   c0=[1.0] * nd, c1=[0.5, -0.4, 0.9][:nd], c2=[0.25, 0.1, -0.2][:nd])
        f = Integrand(**par)
        mg = ng.MultiDomainGrid(doms)
        terms = []

        def rec2(k, args, w):
            if k == len(doms):
                terms.append(w * float(f(*args)))
                return
            for i in range(doms[k].size):
                rec2(k + 1, args + [doms[k].points[i]], w * float(doms[k].weights[i]))

        rec2(0, [], 1.0)
        want, scale = math.fsum(terms), math.fsum(abs(t) for t in terms) + 1e-300
        tot = len(terms)
        res = [("vectorized", float(mg.integrate(f)))]
        for c in (1, max(1, tot - 1), tot + 1):
            res.append((f"chunk", float(mg.integrate(f, non_vectorized=True, integration_chunk_size=c))))
        for key, got in res:
            if not close(got, want, rtol=1e-10, scale=scale) or int(mg.size) != tot:
                ctx.fail("oracle", f"ngrid.integrate:{key}:library-grids",
                         f"{[type(d).__name__ + str(d.size) for d in doms]}: integrate {got!r}, nested product quadrature {want!r}, size {mg.size} vs {tot}",
                         witness=dict(grids=[type(d).__name__ + str(d.size) for d in doms], par=par))

"""C18 — multi-domain integration equals the iterated product quadrature."""
import importlib
import itertools
import math

import numpy as np

from ..common import Ctx, Tokens, close, driver_batch, f2b, fvec

LEVEL = "proof"
LEVEL_TEXT = (
    "Lean theorems over any commutative semiring of values, any point type (mixed 1-D/3-D), any number and sizes of "
    "domains, list mode and repeated-grid mode: the point-by-point route with every chunk size c >= 1 (dividing the total "
    "or not) and the vectorised route (incl. the single-domain shortcut) both equal the sum over all combinations of one "
    "node per domain of (product of weights) * f(points); independence of the chunk size; size = number of enumerated "
    "points = number of enumerated weights = product of the sizes; points and weights are images of one enumeration of "
    "the product set, in itertools.product order (position formula, membership); nested-sum form; separable integrands "
    "give the product of the single-grid integrals. c = 0 gives 0 (recorded, outside the property). Tie to the code, way 1 "
    "(translator, regenerated on every run): MultiDomainGrid.__init__, num_domains, size, weights, points, integrate (both "
    "routes) and _chunked_iterator are translated from the AST of ngrid.py into Gen/NGrid.lean over named primitives "
    "(itertools.product, islice, zip, np.prod, np.sum, list indexing/slicing, `while True` with a pass bound); theorems: each "
    "generated program equals the hand model (gen_*_eq_model: constructor, size, weights, points, _chunked_iterator for every "
    "size, point-by-point route, vectorised route), and the route / chunk-independence / enumeration theorems are restated "
    "over the generated programs (gen_integrate_nonvec_eq, gen_integrate_vec_eq, gen_integrate_chunk_independent, "
    "gen_size_points_weights). Way 2: model and generated programs compared with the implementation on random "
    "configurations (structure exactly, values with tolerance)."
)
TECHNIQUE = "Lean 4 proof (generic list/semiring theorems; AST translation of ngrid.py with gen = model theorems) + differential correspondence + nested-sum oracle"
GEN = ["ngrid"]
LEAN_MODULES = ["GridVerif.Props.C18", "GridVerif.Props.C18.Gen"]
THEOREMS = [
    "GridVerif.C18.mem_product",
    "GridVerif.C18.product_order",
    "GridVerif.C18.constructor_spec",
    "GridVerif.C18.domains_spec",
    "GridVerif.C18.points_weights_enumerate",
    "GridVerif.C18.size_eq",
    "GridVerif.C18.integrate_nonvec_eq",
    "GridVerif.C18.integrate_chunk_independent",
    "GridVerif.C18.integrate_chunk_zero",
    "GridVerif.C18.integrate_vec_eq",
    "GridVerif.C18.vectorised_eq_pointwise",
    "GridVerif.C18.productSum_nested",
    "GridVerif.C18.separable",
    "GridVerif.C18.integrate_separable",
    "GridVerif.NGrid.chunk_fold",
    "GridVerif.NGrid.flatten_chunked",
    # over the text generated from ngrid.py (Gen/NGrid.lean)
    "GridVerif.C18.gen_chunked_eq_model",
    "GridVerif.C18.gen_init_eq_model",
    "GridVerif.C18.gen_size_eq_model",
    "GridVerif.C18.gen_weights_eq_model",
    "GridVerif.C18.gen_points_eq_model",
    "GridVerif.C18.gen_integrate_nonvec_eq_model",
    "GridVerif.C18.gen_integrate_vec_eq_model",
    "GridVerif.C18.gen_constructor_wf",
    "GridVerif.C18.gen_size_points_weights",
    "GridVerif.C18.gen_integrate_nonvec_eq",
    "GridVerif.C18.gen_integrate_chunk_independent",
    "GridVerif.C18.gen_integrate_vec_eq",
]
RULE = (
    "correspondence: random MultiDomainGrid configurations (1-4 domains; list mode, repeated-grid mode, and the same grid object "
    "listed several times; points that are scalars (N,), 1-vectors (N,1), 2- and 3-vectors, mixed; sizes 1..7, signed weights, "
    "separable and non-separable integrands passed to the model as their table of values over the product set); per "
    "configuration: size / enumerated points (as index tuples) / enumerated weights, the vectorised route and the "
    "point-by-point route for chunk sizes from {1,2,3,5,total-1,total,total+1,6000,default} (and 0, recorded), each answered "
    "by the hand model and by the generated programs; _chunked_iterator lengths; constructor rejections; wrong-shape "
    "vectorised integrand. Argument kinds covered in every run (variant:* in the distribution): integrand values handed back as "
    "float64 / float32 / int64 / int32 / bool arrays, Python lists, Python float / int / bool and 0-d arrays; chunk sizes as int / "
    "np.int64 / np.int32; positional and keyword call forms; strided and read-only grid arrays; every call repeated on the same "
    "object after other calls (identical answer required) and the object rebuilt. non-trivial = at least 2 domains and a chunk "
    "size >= 1 not dividing the total (point-by-point), or at least 2 domains (vectorised / structure)"
)
TRUSTED_BASE = [
    "Lean 4.33 kernel; axioms propext, Classical.choice, Quot.sound only (audited per theorem)",
    "translator harness/translate/ngrid.py (Python AST -> Gen/NGrid.lean) and the primitives it targets in Model/NGrid.lean "
    "(itertoolsProduct = product with the last factor fastest, pyIslice = take/drop, pyZip, pyIndex, pySlice, npProd, npSum, npMul "
    "with a length check, pyWhileTrue with a pass bound); generators are lists; mitigation: the generated programs are run by the "
    "driver on every configuration and compared with the implementation",
    "basegrid.Grid.integrate = shape check + sum of weights*values (Grid.integrate of the model), tied by correspondence",
    "a vectorised integrand is the pointwise integrand evaluated on every point of the last domain (hypothesis hF)",
]
ASSUMPTIONS = [
    "exact arithmetic in the theorems; floating-point results agree up to summation order (tolerance 1e-11 of the sum of |terms|)",
    "Grid.__init__ guarantees len(points) == len(weights) (Grid.WF)",
    "negative chunk sizes (islice raises) and non-integer chunk sizes are outside the model",
]

# The integrand family, as source text so that replay snippets are self-contained.
INTEGRAND_SRC = '''
import numpy as np
class Integrand:
    # kind 'sep': prod_k (c0[k] + c1[k] t_k + c2[k] t_k^2);  kind 'nonsep': exp(-0.3 s^2) + sum_k t_k t_{k+1} + 0.1 s,
    # s = sum_k c1[k] t_k;  t_k = a[k] * x_k for a scalar point (dims[k] = 1: grid points of shape (N,)), a[k] * x_k[0] for a
    # one-component point (dims[k] = 11: points of shape (N, 1)), d[k][:m] . x_k for an m-component point (dims[k] = m = 2, 3).
    # Works pointwise and with an array of points as the last argument.
    # ret: the type in which the value is handed back: float64 (NumPy scalar / array), float32, int (Python int / int64 array
    # holding rint(3 v)), int32, bool (v > 0.9; Python bool / bool array), list (Python float / list of floats), 0d (0-d array / array).
    def __init__(self, kind, dims, a, d, c0, c1, c2, ret="float64"):
        self.kind, self.dims, self.a, self.d = kind, dims, a, [np.array(v, dtype=float) for v in d]
        self.c0, self.c1, self.c2, self.ret = c0, c1, c2, ret
    def t(self, k, x):
        x = np.asarray(x, dtype=float)
        if self.dims[k] == 1:
            return x * self.a[k]
        if self.dims[k] == 11:
            return x[..., 0] * self.a[k]
        return x @ self.d[k][: self.dims[k]]
    def raw(self, *args):
        ts = [self.t(k, x) for k, x in enumerate(args)]
        if self.kind == "sep":
            r = 1.0
            for k, t in enumerate(ts):
                r = r * (self.c0[k] + self.c1[k] * t + self.c2[k] * t * t)
            return r + 0.0 * ts[-1]
        s = 0.0
        for k, t in enumerate(ts):
            s = s + self.c1[k] * t
        r = np.exp(-0.3 * s * s) + 0.1 * s
        for k in range(len(ts) - 1):
            r = r + ts[k] * ts[k + 1]
        return r
    def __call__(self, *args):
        r, ret = self.raw(*args), self.ret
        if ret == "float64":
            return r
        a = np.asarray(r, dtype=float)
        scalar = a.ndim == 0
        if ret == "float32":
            return np.float32(a) if scalar else a.astype(np.float32)
        if ret in ("int", "int32"):
            q = np.rint(3 * a)
            if scalar:
                return int(q) if ret == "int" else np.int32(q)
            return q.astype(np.int64 if ret == "int" else np.int32)
        if ret == "bool":
            return bool(a > 0.9) if scalar else (a > 0.9)
        if ret == "list":
            return float(a) if scalar else a.tolist()
        if ret == "0d":
            return np.array(float(a)) if scalar else a
        raise ValueError(ret)
    def factor(self, k, x):
        t = self.t(k, x)
        return self.c0[k] + self.c1[k] * t + self.c2[k] * t * t
'''
_ns = {}
exec(INTEGRAND_SRC, _ns)
Integrand = _ns["Integrand"]

# How a configuration is turned into objects and calls of the library (source text: used by the replay snippets too).
BUILD_SRC = '''
import numpy as np
def _arr(values, how):
    a = np.array(values, dtype=float)
    if how == "strided":
        big = np.zeros(tuple(2 * s for s in a.shape)); sl = tuple(slice(None, None, 2) for _ in a.shape)
        big[sl] = a
        return big[sl]
    if how == "readonly":
        a.setflags(write=False)
    return a
def build(cfg, Grid, MultiDomainGrid):
    # -> (multi-domain grid, listed grids, domains).  mode 'list': one grid per domain; 'repeat': one grid and num_domains;
    # 'list-same': the *same grid object* listed nd times.
    lay = cfg.get("layout", "c")
    grids = [Grid(_arr(p, lay), _arr(w, lay)) for p, w in zip(cfg["pts"], cfg["wts"])]
    if cfg["mode"] == "repeat":
        return MultiDomainGrid(grids, num_domains=cfg["nd"]), grids, grids * cfg["nd"]
    if cfg["mode"] == "list-same":
        same = [grids[0]] * cfg["nd"]
        return MultiDomainGrid(same), same, same
    return MultiDomainGrid(grids), grids, grids
def chunk_arg(cfg, c):
    return {"int": int, "np.int64": np.int64, "np.int32": np.int32}[cfg.get("ctype", "int")](c)
def run(mg, f, cfg, kind, c=None):
    # one call of integrate in the call form named by the configuration (c = None: the default chunk size)
    pos = cfg.get("call", "kw") == "positional"
    if kind == "vec":
        return mg.integrate(f, False) if pos else mg.integrate(f)
    if c is None:
        return mg.integrate(f, non_vectorized=True)
    if pos:
        return mg.integrate(f, True, chunk_arg(cfg, c))
    return mg.integrate(f, non_vectorized=True, integration_chunk_size=chunk_arg(cfg, c))
'''
exec(BUILD_SRC, _ns)
build, run = _ns["build"], _ns["run"]
CFG_KEYS = ("mode", "nd", "dims", "pts", "wts", "par", "layout", "ctype", "call")
EXACT_RET = ("float64", "list", "0d")           # kinds that hand back the float64 value unchanged


def _r(x):
    return round(float(x), 3)


def _config(ctx: Ctx, cap: int, nd=None, mode=None):
    """-> dict(mode, nd, dims, pts, wts, integrand parameters, argument kinds)"""
    rng = ctx.rng
    nd = nd or rng.choice([1, 2, 2, 3, 3, 4])
    if mode is None:
        u = rng.random()
        mode = "repeat" if u < 0.25 else "list-same" if u < 0.4 and nd >= 2 else "list"
    ngr = 1 if mode in ("repeat", "list-same") else nd
    while True:
        sizes = [rng.randint(1, 7) for _ in range(ngr)]
        tot = sizes[0] ** nd if mode in ("repeat", "list-same") else math.prod(sizes)
        if tot <= cap:
            break
    # a point is a scalar (points of shape (N,)), a 1-vector ((N, 1)), a 2-vector or a 3-vector: mixed freely
    dims = [rng.choice([1, 1, 11, 2, 3, 3]) for _ in range(ngr)]
    pts, wts = [], []
    for n, dm in zip(sizes, dims):
        p = [[_r(rng.uniform(-1.5, 1.5)) for _ in range(1 if dm == 11 else dm)] for _ in range(n)]
        pts.append([q[0] for q in p] if dm == 1 else p)
        wts.append([_r(rng.uniform(-0.5, 1.5)) or 0.25 for _ in range(n)])
    ddims = dims * nd if mode in ("repeat", "list-same") else dims
    par = dict(
        kind=rng.choice(["sep", "nonsep"]), dims=ddims,
        a=[_r(rng.uniform(0.3, 1.2)) for _ in range(nd)],
        d=[[_r(rng.uniform(-1, 1)) for _ in range(3)] for _ in range(nd)],
        c0=[_r(rng.uniform(0.5, 1.5)) for _ in range(nd)],
        c1=[_r(rng.uniform(-1, 1)) for _ in range(nd)],
        c2=[_r(rng.uniform(-0.5, 0.5)) for _ in range(nd)],
        ret=rng.choice(["float64"] * 6 + ["float32", "int", "int32", "bool", "list", "0d"]),
    )
    if nd == 1 and par["ret"] == "list":
        par["ret"] = "0d"      # a list-valued vectorised integrand on ONE domain is a listed finding (probed by the oracle under its own key)
    return dict(mode=mode, nd=nd, dims=dims, pts=pts, wts=wts, par=par, total=tot,
                layout=rng.choice(["c"] * 4 + ["strided", "readonly"]),
                ctype=rng.choice(["int"] * 3 + ["np.int64", "np.int32"]),
                call=rng.choice(["kw", "kw", "positional"]))


def _build(cfg):
    bg = importlib.import_module("grid.basegrid")
    ng = importlib.import_module("grid.ngrid")
    return build(cfg, bg.Grid, ng.MultiDomainGrid)


def _spec(cfg):
    if cfg["mode"] == "list-same":              # the same object nd times is, for the model, nd equal domains
        return f"list {cfg['nd']} {cfg['nd']} " + " ".join(fvec(cfg["wts"][0]) for _ in range(cfg["nd"]))
    return f"{cfg['mode']} {cfg['nd']} {len(cfg['wts'])} " + " ".join(fvec(w) for w in cfg["wts"])


def _table(doms, f):
    """values of f over the product set, own mixed-radix loop (last domain fastest)."""
    sizes = [d.size for d in doms]
    out = []
    for idx in np.ndindex(*sizes):
        out.append(float(np.asarray(f(*[d.points[i] for d, i in zip(doms, idx)]))))
    return out


def _chunk_sizes(total):
    return sorted({1, 2, 3, 5, max(1, total - 1), total, total + 1, 6000})


def _pub(cfg):
    return {k: cfg[k] for k in CFG_KEYS if k in cfg}


def _variants(ctx, cfg):
    for k, dflt in (("layout", "c"), ("ctype", "int"), ("call", "kw")):
        if cfg.get(k, dflt) != dflt:
            ctx.distribution[f"variant:{k}={cfg[k]}"] = ctx.distribution.get(f"variant:{k}={cfg[k]}", 0) + 1
    if cfg["par"]["ret"] != "float64":
        ctx.distribution[f"variant:ret={cfg['par']['ret']}"] = ctx.distribution.get(f"variant:ret={cfg['par']['ret']}", 0) + 1
    ctx.distribution[f"variant:points={sorted(set(cfg['dims']))}"] = ctx.distribution.get(f"variant:points={sorted(set(cfg['dims']))}", 0) + 1


def corr(ctx: Ctx):
    ng = importlib.import_module("grid.ngrid")
    bg = importlib.import_module("grid.basegrid")
    ncfg = ctx.n(500, 10000)
    cap = 500 if not ctx.thorough else 2401
    # always present: three and four *distinct* grids of different sizes (list mode), the same object listed 2-3 times,
    # repeated-grid mode with 2-3 domains; then the random configurations
    fixed = [(3, "list"), (4, "list"), (3, "list"), (2, "list-same"), (3, "list-same"), (2, "repeat"), (3, "repeat"), (1, "list"), (1, "repeat")]
    cfgs = [_config(ctx, 300, nd, mode) for nd, mode in fixed]
    cfgs += [_config(ctx, cap if i % 5 else 60) for i in range(ncfg - len(cfgs))]
    lines, meta = [], []
    for ci, cfg in enumerate(cfgs):
        mg, grids, doms = _build(cfg)
        f = Integrand(**cfg["par"])
        tab = _table(doms, f)
        cfg["_tab"] = tab
        spec = _spec(cfg)
        ops = [("struct", None, "struct " + spec), ("vec", None, f"vec {spec} {fvec(tab)}")]
        cs = _chunk_sizes(cfg["total"])
        if cfg["total"] > 80:
            keep = ctx.rng.sample(cs, 3)
            nd_ = [c for c in cs if cfg["total"] % c and c < cfg["total"]]
            if nd_:
                keep.append(ctx.rng.choice(nd_))
            cs = sorted(set(keep))
        if ci % 7 == 0:
            cs = [0] + cs
        for c in cs:
            ops.append(("nonvec", c, f"nonvec {c} {spec} {fvec(tab)}"))
        if ci % 6 == 0:
            ops.append(("nonvec", None, f"nonvec 6000 {spec} {fvec(tab)}"))          # the default chunk size of the code
        if ci % 9 == 0:
            ops.append(("vecbad", None, f"vecbad {spec} {fvec(tab)}"))
        for kind, c, text in ops:
            for who in ("model", "generated"):
                lines.append(("C18." if who == "model" else "C18.gen-") + text)
                meta.append((ci, kind, c, who))
    ans = driver_batch(lines)
    built = {}
    memo = {}
    for (ci, kind, c, who), a in zip(meta, ans):
        cfg = cfgs[ci]
        if ci not in built:
            built.clear()
            memo.clear()
            built[ci] = _build(cfg) + (Integrand(**cfg["par"]),)
            _variants(ctx, cfg)
        mg, grids, doms, f = built[ci]
        case = _pub(cfg)
        total = cfg["total"]
        wit = dict(case, op=kind, chunk=c, answered_by=who)
        sfx = "" if who == "model" else ":generated"
        if kind == "struct":
            ctx.count(["struct", who, case], nontrivial=cfg["nd"] >= 2, tag=f"struct:{cfg['mode']}:nd{cfg['nd']}" + sfx)
            t = Tokens(a)
            if t.tok() != "ok":
                ctx.fail("corr", "ngrid.struct" + sfx, f"{who} rejected a valid configuration: {a}", witness=wit)
                continue
            msize = t.nat()
            r, cc = t.nat(), t.nat()
            combos = [[t.nat() for _ in range(cc)] for _ in range(r)]
            mw = t.fvec()
            if "struct" not in memo:
                memo["struct"] = (int(mg.size), list(mg.points), [float(x) for x in mg.weights])
                # asked again after other calls, and on a second object built from the same data
                mg.integrate(f) if total <= 200 else None
                again = (int(mg.size), list(mg.points), [float(x) for x in mg.weights])
                mg2 = _build(cfg)[0]
                second = (int(mg2.size), list(mg2.points), [float(x) for x in mg2.weights])
                for label, other in (("asked twice", again), ("object rebuilt", second)):
                    same = (other[0] == memo["struct"][0] and other[2] == memo["struct"][2] and len(other[1]) == len(memo["struct"][1])
                            and all(all(np.array_equal(np.asarray(x), np.asarray(y)) for x, y in zip(p, q)) for p, q in zip(other[1], memo["struct"][1])))
                    if not same:
                        ctx.fail("corr", "ngrid.struct:state", f"size / points / weights differ when {label}", witness=wit)
            isize, ipts, iw = memo["struct"]
            if isize != msize or len(ipts) != r or len(iw) != len(mw):
                ctx.fail("corr", "ngrid.size" + sfx, f"size: implementation {isize} (points {len(ipts)}, weights {len(iw)}), {who} {msize} ({r}, {len(mw)})", witness=wit)
                continue
            okp = all(
                len(tp) == len(cb) and all(np.array_equal(np.asarray(x), np.asarray(d.points[i])) for x, d, i in zip(tp, doms, cb))
                for tp, cb in zip(ipts, combos)
            )
            if not okp:
                ctx.fail("corr", "ngrid.points" + sfx, f"enumerated points differ from the product order of the {who}", witness=wit)
            if not all(close(x, y, rtol=1e-13, atol=1e-300) for x, y in zip(iw, mw)):
                ctx.fail("corr", "ngrid.weights" + sfx, f"enumerated weights differ from those of the {who}", witness=wit)
            continue
        if "scale" not in memo:
            wprod = np.ones(())
            for d in doms:
                wprod = np.multiply.outer(wprod, d.weights)
            memo["scale"] = float(np.abs(wprod.ravel() * np.array(cfg["_tab"])).sum()) + 1e-300
        scale = memo["scale"]
        key = (kind, c)
        if key not in memo:
            def call():
                try:
                    if kind == "vecbad":
                        return "ok", float(mg.integrate(lambda *xs: np.asarray(f(*xs))[1:]))
                    return "ok", float(run(mg, f, cfg, kind, c))
                except ValueError:
                    return "value-error", None
                except Exception as e:                      # nothing else is an accepted outcome
                    return f"raised {type(e).__name__}: {e}", None
            iv = call()
            # the same call again on the same object, after a call of the other route (identical answer required)
            if (ci + len(memo)) % 3 == 0 and total <= 300:
                try:
                    run(mg, f, cfg, "vec" if kind != "vec" else "nonvec", None if kind == "vec" else None)
                except ValueError:
                    pass
                iv2 = call()
                ctx.distribution["variant:called-twice"] = ctx.distribution.get("variant:called-twice", 0) + 1
                if iv2 != iv and not (iv[1] != iv[1] and iv2[1] != iv2[1]):
                    ctx.fail("corr", "ngrid.integrate:state", f"{kind} c={c}: first answer {iv}, the same call again gives {iv2}", witness=wit)
            memo[key] = iv
        iv = memo[key]
        if kind == "vec":
            ctx.count(["vec", who, case], nontrivial=cfg["nd"] >= 2, tag="vec:" + ("shortcut" if cfg["nd"] == 1 else cfg["mode"]) + sfx)
        elif kind == "vecbad":
            ctx.count(["vecbad", who, case], nontrivial=False, tag="vec:wrong-shape" + sfx)
        else:
            cc = 6000 if c is None else c
            nontriv = cfg["nd"] >= 2 and cc >= 1 and total % cc != 0
            ctx.count(["nonvec", who, c, case], nontrivial=nontriv,
                      tag="nonvec:" + ("default" if c is None else "c=0" if c == 0 else "c=1" if c == 1 else "c>total" if c > total else "c=total" if c == total
                                       else "divides" if total % c == 0 else "not-dividing") + sfx)
        t = Tokens(a)
        tag = t.tok()
        if tag != iv[0]:
            ctx.fail("corr", f"ngrid.integrate:{kind}" + sfx, f"{kind} c={c}: implementation {iv}, {who} {a}", witness=wit)
            continue
        if tag == "ok":
            mv = t.flt()
            if not close(iv[1], mv, rtol=1e-11, scale=scale):
                ctx.fail("corr", f"ngrid.integrate:{kind}" + sfx, f"{kind} c={c}: implementation {iv[1]!r}, {who} {mv!r} (scale {scale:.3g})", witness=wit)
    # _chunked_iterator lengths (sizes as int and as np.int64)
    pairs = [(c, n) for c in (0, 1, 2, 3, 5, 7, 6000) for n in (0, 1, 2, 5, 6, 7, 14, 15)]
    for op in ("C18.chunks", "C18.gen-chunks"):
        ans = driver_batch([f"{op} {c} {n}" for c, n in pairs])
        for (c, n), a in zip(pairs, ans):
            impl = [len(x) for x in ng._chunked_iterator(iter(range(n)), c if (c + n) % 2 else np.int64(c))]
            ctx.count([op, c, n], nontrivial=False, tag="chunks" + (":generated" if "gen" in op else ""))
            if a != "ok " + " ".join(map(str, [len(impl)] + impl)):
                ctx.fail("corr", "ngrid._chunked_iterator" + (":generated" if "gen" in op else ""),
                         f"_chunked_iterator(range({n}), {c}) has chunk lengths {impl}, {op} answers {a}")
    # constructor rejections
    g1 = bg.Grid(np.array([0.0, 1.0]), np.array([1.0, 1.0]))
    g2 = bg.Grid(np.zeros((3, 3)), np.ones(3))
    cases = [("list", None, []), ("list", None, [g1]), ("list", None, [g1, g2]), ("repeat", 2, [g1, g2]), ("repeat", 0, [g1]),
             ("repeat", 1, [g1]), ("repeat", 3, [g2]), ("repeat", 2, []), ("list", None, [g1, g1, g1]), ("repeat", 2, [g1, g1])]
    for op in ("C18.new", "C18.gen-new"):
        ans = driver_batch([f"{op} {m} {nd or 0} {len(gl)} " + " ".join(str(g.size) for g in gl) for m, nd, gl in cases])
        for (m, nd, gl), a in zip(cases, ans):
            try:
                ng.MultiDomainGrid(gl, num_domains=nd)
                impl = "ok"
            except ValueError:
                impl = "value-error"
            ctx.count([op, m, nd, len(gl)], nontrivial=False, tag="constructor:" + impl + (":generated" if "gen" in op else ""))
            if impl != a.strip():
                ctx.fail("corr", "ngrid.__init__" + (":generated" if "gen" in op else ""),
                         f"MultiDomainGrid({len(gl)} grids, num_domains={nd}): implementation {impl}, {op} answers {a}")


SNIPPET = """import warnings; warnings.filterwarnings('ignore')
import math, numpy as np
from grid.basegrid import Grid
from grid.ngrid import MultiDomainGrid
{integrand_src}
{build_src}
cfg = {cfg!r}
mg, grids, doms = build(cfg, Grid, MultiDomainGrid)
f = Integrand(**cfg['par'])
terms = []
def rec(k, args, w):
    if k == len(doms):
        terms.append(w * float(np.asarray(f(*args)))); return
    for i in range(doms[k].size):
        rec(k + 1, args + [doms[k].points[i]], w * float(doms[k].weights[i]))
rec(0, [], 1.0)
want, scale = math.fsum(terms), math.fsum(abs(t) for t in terms) + 1e-300
what = {what!r}
try:
    if what == 'vec':
        got = float(run(mg, f, cfg, 'vec'))
    elif what == 'nonvec':
        got = float(run(mg, f, cfg, 'nonvec', {chunk}))
    elif what == 'separable':
        got = float(run(mg, f, cfg, 'vec'))
        want = math.prod(math.fsum(float(d.weights[i]) * float(f.factor(k, d.points[i])) for i in range(d.size)) for k, d in enumerate(doms))
    elif what == 'size':
        got, want, scale = int(mg.size), len(terms), 0
        assert got == want == len(list(mg.points)) == len(list(mg.weights)), (got, want)
        ws = [float(x) for x in mg.weights]
        ref = []
        def recw(k, w):
            if k == len(doms):
                ref.append(w); return
            for i in range(doms[k].size):
                recw(k + 1, w * float(doms[k].weights[i]))
        recw(0, 1.0)
        assert all(abs(a - b) <= 1e-12 * (abs(b) + 1e-300) for a, b in zip(ws, ref)), 'weights are not the product set in nested-loop order'
except AssertionError:
    raise
except Exception as e:
    raise AssertionError(f'{{what}}: raised {{type(e).__name__}}: {{e}}')
assert abs(got - want) <= 1e-10 * scale, f'{{what}}: integrate gives {{got!r}}, nested product quadrature {{want!r}}'
"""


LIST_SNIPPET = """import warnings; warnings.filterwarnings('ignore')
import numpy as np
from grid.basegrid import Grid
from grid.ngrid import MultiDomainGrid
g = Grid(np.array([0.0, 0.5, 1.0]), np.array([0.25, 0.5, 0.25]))
mg = MultiDomainGrid([g] * {nd})
f = lambda *xs: (sum(np.asarray(x, dtype=float) for x in xs) ** 2).tolist() if np.ndim(xs[-1]) else float(sum(xs) ** 2)
want = float(mg.integrate(f, non_vectorized=True))
try:
    got = float(mg.integrate(f))
except Exception as e:
    raise AssertionError(f'vectorised route with a list-valued integrand raised {{type(e).__name__}}: {{e}}; point-by-point route gives {{want}}')
assert abs(got - want) <= 1e-12 * (1 + abs(want)), (got, want)
"""


def _real_grids(ctx, nd):
    """domains from the library's own grid classes (small)."""
    od = importlib.import_module("grid.onedgrid")
    ang = importlib.import_module("grid.angular")
    out = []
    for _ in range(nd):
        k = ctx.rng.randrange(4)
        if k == 0:
            out.append(od.GaussLegendre(ctx.rng.randint(2, 6)))
        elif k == 1:
            out.append(od.Trapezoidal(ctx.rng.randint(2, 6)))
        elif k == 2:
            out.append(ang.AngularGrid(degree=3, method="lebedev"))
        else:
            out.append(od.MidPoint(ctx.rng.randint(2, 5)))
    return out


def _oracle_cfg(ctx: Ctx, cfg, chunks=None):
    """The property at one configuration: size / enumeration / every route against an explicit nested-loop
    quadrature (recursion over the domains, math.fsum; no itertools, no model)."""
    mg, grids, doms = _build(cfg)
    f = Integrand(**cfg["par"])
    pub = _pub(cfg)
    terms, combos, wlist = [], [], []

    def rec(k, args, idx, w):
        if k == len(doms):
            terms.append(w * float(np.asarray(f(*args))))
            combos.append(tuple(idx))
            wlist.append(w)
            return
        for i in range(doms[k].size):
            rec(k + 1, args + [doms[k].points[i]], idx + [i], w * float(doms[k].weights[i]))

    rec(0, [], [], 1.0)
    want = math.fsum(terms)
    scale = math.fsum(abs(t) for t in terms) + 1e-300

    def snip(what, chunk=0):
        return SNIPPET.format(integrand_src=INTEGRAND_SRC, build_src=BUILD_SRC, cfg=pub, what=what, chunk=chunk)

    # size / enumerations
    ipts, iw = list(mg.points), [float(x) for x in mg.weights]
    if not (int(mg.size) == len(terms) == len(ipts) == len(iw)):
        ctx.fail("oracle", "ngrid.size", f"size {mg.size}, {len(ipts)} points, {len(iw)} weights, product set has {len(terms)}",
                 witness=pub, snippet=snip("size"))
    else:
        for tp, wv, cb, ww in zip(ipts, iw, combos, wlist):
            if not all(np.array_equal(np.asarray(x), np.asarray(d.points[i])) for x, d, i in zip(tp, doms, cb)):
                ctx.fail("oracle", "ngrid.points", f"points are not the product set in nested-loop order at combination {cb}", witness=pub, snippet=snip("size"))
                break
            if not close(wv, ww, rtol=1e-13, atol=1e-300):
                ctx.fail("oracle", "ngrid.weights", f"weight of combination {cb} is {wv!r}, product of the weights {ww!r}", witness=pub, snippet=snip("size"))
                break

    def attempt(key, what, chunk, fn, ref):
        try:
            got = float(fn())
        except Exception as e:
            ctx.fail("oracle", key, f"{what}: raised {type(e).__name__}: {e} (integrand values handed back as {cfg['par']['ret']}, chunk size as {cfg.get('ctype')})",
                     witness=dict(pub, chunk=chunk), snippet=snip(what if what != "chunk" else "nonvec", chunk or 0))
            return None
        if not close(got, ref, rtol=1e-10, scale=scale):
            ctx.fail("oracle", key, f"{what}" + (f" with chunk size {chunk}" if chunk is not None else "") + f": integrate gives {got!r}, nested product quadrature {ref!r} (total {len(terms)})",
                     witness=dict(pub, chunk=chunk, got=got, want=ref), snippet=snip(what if what != "chunk" else "nonvec", chunk or 0))
        return got

    v1 = attempt("ngrid.integrate:vectorized", "vec", None, lambda: run(mg, f, cfg, "vec"), want)
    tot = cfg["total"]
    if chunks is None:
        chunks = _chunk_sizes(tot) if tot <= 60 else ctx.rng.sample(_chunk_sizes(tot), 3)
    for c in chunks:
        if c is not None and c < 1:
            continue
        attempt("ngrid.integrate:chunk", "chunk", c, lambda: run(mg, f, cfg, "nonvec", c), want)
    # state: the vectorised route again after the point-by-point calls
    v2 = attempt("ngrid.integrate:vectorized", "vec", None, lambda: run(mg, f, cfg, "vec"), want)
    if v1 is not None and v2 is not None and v1 != v2 and not (v1 != v1 and v2 != v2):
        ctx.fail("oracle", "ngrid.integrate:state", f"the vectorised integral is {v1!r} at first and {v2!r} after other calls on the same object", witness=pub, snippet=snip("vec"))
    if cfg["par"]["kind"] == "sep" and cfg["par"]["ret"] in EXACT_RET:
        prod = math.prod(math.fsum(float(d.weights[i]) * float(f.factor(k, d.points[i])) for i in range(d.size)) for k, d in enumerate(doms))
        attempt("ngrid.integrate:separable", "separable", None, lambda: run(mg, f, cfg, "vec"), prod)


def oracle(ctx: Ctx, budget: str):
    """The property on the implementation against an explicit nested-loop quadrature."""
    ng = importlib.import_module("grid.ngrid")
    n = 25 if budget == "small" else 400
    fixed = [(3, "list"), (4, "list"), (3, "list-same"), (3, "repeat")]
    for it in range(n):
        cap = 150 if budget == "small" else 700
        cfg = _config(ctx, cap, *fixed[it]) if it < len(fixed) else _config(ctx, cap)
        _oracle_cfg(ctx, cfg)
    # a vectorised integrand that hands back a Python list, on one domain and on two (own key: the single-domain
    # shortcut passes the list on to Grid.integrate, which accepts NumPy arrays only)
    for nd in (1, 2):
        cfg = _config(ctx, 60, nd, "list")
        cfg["par"]["ret"], cfg["call"] = "list", "kw"
        mg, grids, doms = _build(cfg)
        f = Integrand(**cfg["par"])
        want = math.fsum(float(wv) * float(np.asarray(f(*tp))) for tp, wv in zip(itertools.product(*[d.points for d in doms]), (math.prod(c) for c in itertools.product(*[d.weights for d in doms]))))
        try:
            got = float(mg.integrate(f))
            bad = None if close(got, want, rtol=1e-10, scale=abs(want) + 1.0) else f"integrate gives {got!r}, product quadrature {want!r}"
        except Exception as e:
            bad = f"raised {type(e).__name__}: {e}"
        if bad and nd == 1 and bad.startswith("raised TypeError"):
            # scope decision (DESIGN 8.3): a vectorised integrand must hand back an array; a Python list is
            # rejected by the single-domain shortcut (a rejection, not a wrong value) -> information only
            ctx.info(f"out of scope: vectorised integrand returning a Python list on one domain: {bad}")
        elif bad:
            ctx.fail("oracle", "ngrid.integrate:vectorized:list-valued" + (":single-domain" if nd == 1 else ""),
                     f"vectorised integrand returning a Python list, {nd} domain(s): {bad}; the point-by-point route gives "
                     f"{float(mg.integrate(f, non_vectorized=True))!r}", witness=_pub(cfg), snippet=LIST_SNIPPET.format(nd=nd))
    # the library's own grid classes as domains
    for it in range(6 if budget == "small" else 60):
        nd = ctx.rng.randint(1, 3)
        doms = _real_grids(ctx, nd)
        dims = [1 if d.points.ndim == 1 else 3 for d in doms]
        par = dict(kind=ctx.rng.choice(["sep", "nonsep"]), dims=dims, a=[0.7] * nd, d=[[0.3, -0.5, 0.8]] * nd,
                   c0=[1.0] * nd, c1=[0.5, -0.4, 0.9][:nd], c2=[0.25, 0.1, -0.2][:nd])
        f = Integrand(**par)
        mg = ng.MultiDomainGrid(doms)
        terms = []

        def rec2(k, args, w):
            if k == len(doms):
                terms.append(w * float(f(*args)))
                return
            for i in range(doms[k].size):
                rec2(k + 1, args + [doms[k].points[i]], w * float(doms[k].weights[i]))

        rec2(0, [], 1.0)
        want, scale = math.fsum(terms), math.fsum(abs(t) for t in terms) + 1e-300
        tot = len(terms)
        res = [("vectorized", float(mg.integrate(f)))]
        for c in (1, max(1, tot - 1), tot + 1):
            res.append((f"chunk", float(mg.integrate(f, non_vectorized=True, integration_chunk_size=c))))
        for key, got in res:
            if not close(got, want, rtol=1e-10, scale=scale) or int(mg.size) != tot:
                ctx.fail("oracle", f"ngrid.integrate:{key}:library-grids",
                         f"{[type(d).__name__ + str(d.size) for d in doms]}: integrate {got!r}, nested product quadrature {want!r}, size {mg.size} vs {tot}",
                         witness=dict(grids=[type(d).__name__ + str(d.size) for d in doms], par=par))


def oracle_at(ctx: Ctx, failure):
    """Evaluate the property at a configuration on which model / generated program and implementation disagreed."""
    w = failure.witness or {}
    if not (isinstance(w, dict) and {"mode", "nd", "pts", "wts", "par"} <= set(w)):
        return
    cfg = {k: w[k] for k in CFG_KEYS if k in w}
    cfg["total"] = math.prod(len(x) for x in cfg["wts"]) if cfg["mode"] == "list" else len(cfg["wts"][0]) ** cfg["nd"]
    chunks = None
    if isinstance(w.get("chunk"), int) and w["chunk"] >= 1:
        chunks = sorted({w["chunk"], 1, cfg["total"] + 1})
    _oracle_cfg(ctx, cfg, chunks)

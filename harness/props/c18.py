"""C18 — multi-domain integration equals the iterated product quadrature."""
import importlib
import itertools
import math
import os
import traceback

import numpy as np

from ..common import Ctx, Tokens, close, driver_batch, f2b, fvec

LEVEL = "proof"
LEVEL_TEXT = (
    "Lean theorems over any commutative semiring of values, any point type (mixed 1-D/3-D), any number and sizes of "
    "domains, list mode and repeated-grid mode: the point-by-point route with every chunk size c >= 1 (dividing the total "
    "or not) and the vectorised route (incl. the single-domain shortcut) both equal the sum over all combinations of one "
    "node per domain of (product of weights) * f(points); independence of the chunk size; size = number of enumerated "
    "points = number of enumerated weights = product of the sizes; points and weights are images of one enumeration of "
    "the product set, in itertools.product order (position formula, membership); nested-sum form; separable integrands "
    "give the product of the single-grid integrals. c = 0 gives 0 (recorded, outside the property). Tie to the code, way 1 "
    "(translator, regenerated on every run): MultiDomainGrid.__init__, num_domains, size, weights, points, integrate (both "
    "routes) and _chunked_iterator are translated from the AST of ngrid.py into Gen/NGrid.lean over named primitives "
    "(itertools.product, islice, zip, np.prod, np.sum, list indexing/slicing, `while True` with a pass bound); theorems: each "
    "generated program equals the hand model (gen_*_eq_model: constructor, size, weights, points, _chunked_iterator for every "
    "size, point-by-point route, vectorised route), and the route / chunk-independence / enumeration theorems are restated "
    "over the generated programs (gen_integrate_nonvec_eq, gen_integrate_vec_eq, gen_integrate_chunk_independent, "
    "gen_size_points_weights). The two refusing methods get_localgrid and moments are carried with their signatures (parameter "
    "names, annotations, every default value) and their raise: gen_moments_not_implemented, gen_moments_defaults, "
    "gen_get_localgrid_not_implemented. Further attributes that __init__ may store (per-grid lists of weights / points / sizes, possibly "
    "repeated) are carried as fields of the generated record, so that gen_observations_of_current_components / gen_update_component (size, "
    "points, weights and both integrate routes are functions of the current grid_list and num_domains only: after an entry of grid_list is "
    "replaced every observation equals that of a grid built afresh) are statements that a snapshot taken at construction makes false; "
    "gen_integrate_pointwise_only / gen_integrate_one_domain: with non_vectorized=True only the pointwise form of the integrand is used, for "
    "every number of domains, and on one domain ([g] and [g], num_domains=1) the result is sum_i w_i f(x_i). Way 2: model and generated programs compared with the implementation on random "
    "configurations (structure exactly, values with tolerance)."
)
TECHNIQUE = "Lean 4 proof (generic list/semiring theorems; AST translation of ngrid.py with gen = model theorems) + differential correspondence + nested-sum oracle"
GEN = ["ngrid"]
LEAN_MODULES = ["GridVerif.Props.C18", "GridVerif.Props.C18.Gen", "GridVerif.Props.C18.CallTime"]
THEOREMS = [
    "GridVerif.C18.mem_product",
    "GridVerif.C18.product_order",
    "GridVerif.C18.constructor_spec",
    "GridVerif.C18.domains_spec",
    "GridVerif.C18.points_weights_enumerate",
    "GridVerif.C18.size_eq",
    "GridVerif.C18.integrate_nonvec_eq",
    "GridVerif.C18.integrate_chunk_independent",
    "GridVerif.C18.integrate_chunk_zero",
    "GridVerif.C18.integrate_vec_eq",
    "GridVerif.C18.vectorised_eq_pointwise",
    "GridVerif.C18.productSum_nested",
    "GridVerif.C18.separable",
    "GridVerif.C18.integrate_separable",
    "GridVerif.NGrid.chunk_fold",
    "GridVerif.NGrid.flatten_chunked",
    # over the text generated from ngrid.py (Gen/NGrid.lean)
    "GridVerif.C18.gen_chunked_eq_model",
    "GridVerif.C18.gen_init_eq_model",
    "GridVerif.C18.gen_size_eq_model",
    "GridVerif.C18.gen_weights_eq_model",
    "GridVerif.C18.gen_points_eq_model",
    "GridVerif.C18.gen_integrate_nonvec_eq_model",
    "GridVerif.C18.gen_integrate_vec_eq_model",
    "GridVerif.C18.gen_constructor_wf",
    "GridVerif.C18.gen_size_points_weights",
    "GridVerif.C18.gen_integrate_nonvec_eq",
    "GridVerif.C18.gen_integrate_chunk_independent",
    "GridVerif.C18.gen_integrate_vec_eq",
    # round 3: the refusing methods, carried with their signatures
    "GridVerif.C18.gen_moments_not_implemented",
    "GridVerif.C18.gen_moments_defaults",
    "GridVerif.C18.gen_get_localgrid_not_implemented",
    # round 6: the components are read at call time; the point-by-point route sees single points only (Props/C18/CallTime.lean)
    "GridVerif.C18.gen_init_fields",
    "GridVerif.C18.gen_observations_of_current_components",
    "GridVerif.C18.gen_update_component",
    "GridVerif.C18.gen_integrate_pointwise_only",
    "GridVerif.C18.gen_integrate_one_domain",
]
RULE = (
    "correspondence: random MultiDomainGrid configurations (1-4 domains; list mode, repeated-grid mode, and the same grid object "
    "listed several times; points that are scalars (N,), 1-vectors (N,1), 2- and 3-vectors, mixed; sizes 1..7, signed weights, "
    "separable and non-separable integrands passed to the model as their table of values over the product set); per "
    "configuration: size / enumerated points (as index tuples) / enumerated weights, the vectorised route and the "
    "point-by-point route for chunk sizes from {1,2,3,5,total-1,total,total+1,6000,default} (and 0, recorded), each answered "
    "by the hand model and by the generated programs; _chunked_iterator lengths; constructor rejections; wrong-shape "
    "vectorised integrand. Argument kinds covered in every run (variant:* in the distribution): integrand values handed back as "
    "float64 / float32 / int64 / int32 / bool arrays, Python lists, Python float / int / bool and 0-d arrays; chunk sizes as int / "
    "np.int64 / np.int32; positional and keyword call forms; strided and read-only grid arrays; every call repeated on the same "
    "object after other calls (identical answer required) and the object rebuilt. Round 3, present in every run: every domain a single "
    "point, a one-point domain first / in the middle / last, one grid object in non-adjacent positions (A, B, A[, B]), num_domains = 1 and "
    "a one-point grid repeated five times; integrands exactly zero everywhere / on the leading block of the product order / on half of the "
    "first domain, weights exactly zero (a leading block, a whole first grid, scattered), integrand values scaled by 1e-300 ... 1e200 and "
    "weights by 1e-150 ... 1e150 (compared relative to that scale), grids translated by 2^10 / 2^20 with dyadic coordinates; totals next to "
    "the default chunk size (6001 = 17 x 353, 78^2; thorough also 6000, 5999, 6156) called with the default and with 5999 / 6000 / 6001; "
    "vectorised integrands handing back non-contiguous and write-protected arrays, an (N, 1) column (rejected on both sides); histories on "
    "one freshly built object (shuffled calls of both routes with changing chunk sizes, the first call possibly the point-by-point route "
    "with a non-default size, size / points / weights and the refusing methods in between; every answer against the model and bit-identical "
    "to the earlier answer of the same call); get_localgrid / moments called in every argument form (refusal on both sides). Kinds of the integrand's RETURN value in both "
    "routes: complex128 / complex64 / Python complex (a plane wave on top of the real value; sent to the real model as two tables, real and "
    "imaginary parts), np.longdouble, float32, int, bool, 0-d arrays, and kinds changing from point to point within one run; the kind of the "
    "result must follow (complex values -> complex result, longdouble -> longdouble, otherwise real) for every chunk size >= 1; the oracle's "
    "nested product quadrature is in complex arithmetic. Round 4, present in every run: integrands that hand back their last argument itself "
    "(the last grid's own point array) / a view of it / a persistent buffer / a write-protected array, with the caller's list, every grid's "
    "points and weights (values, dtype, object) and the caller's arrays around views checked after EVERY call of integrate and after every "
    "exception; grids built on negative-stride / column-major / int64 / int32 / float32 / bool-weight arrays and on windows of larger arrays "
    "(float64 computation as reference; single-precision or bool weights with single-precision values to 1e-5); every spelling of the "
    "constructor and integrate arguments (positional / keyword / reversed keywords / num_domains=None and the defaults spelled out) and the "
    "documented rejections; distinct grids on one points array and one weights array, two multi-domain grids from one list object used "
    "alternately with one integrand object; calls that end in an exception inside the histories (the integrand failing half-way in either "
    "route, negative / fractional chunk sizes, a wrong-length vectorised integrand, the refusing methods) followed by accepted calls; sizes "
    "all different with a 1 or 2 among them and point arrays with N = dimension and N < dimension; library grids with negative weights "
    "(Lebedev 13), Becke-transformed radial grids (points to 1e4, weights over five orders of magnitude) and Gauss-Laguerre in the oracle. "
    "corr and oracle run as independent guarded parts. Round 5, present in every run: the COMPONENTS are modified between construction and use "
    "(40 histories in the correspondence and 40 in the oracle, every mode): points / weights of a component rebound through the public "
    "setters, edited in place through the handed-out array (assignment, scaling by 2 / -0.5 / 0), entries of grid_list replaced (same and "
    "other sizes); after every step size / enumerated points / enumerated weights / both routes with several chunk sizes in shuffled order, "
    "on the instance whose components were modified, on a second instance built on a copy of the list, and on one built afterwards; "
    "reference = model / generated programs / brute-force nested sum over the components as they are NOW (the harness's own record). "
    "Totals past block boundaries: 1025 = 25 x 41 with chunk sizes 1 (1025 chunks) / 512 / 1024 / 1025 / 1026, 4097 = 17 x 241 with 4 / 1000 / "
    "2048 / 4096, 20001 = 3 x 59 x 113 in the oracle (thorough: 65537 and 2^19 + 1); descending library grids (MultiExpRTransform, reversed "
    "rules); grids built on float16 and longdouble arrays. Integrands that work on SINGLE POINTS only in the point-by-point route (math.exp / "
    "math.cos of the coordinates, an `if` on a coordinate, the product of one point's coordinates written p[0] * p[1] * p[2]) on 21 shapes "
    "with one to four domains -- one domain both as [g] and as [g], num_domains=1, grids with as many points as dimensions, fewer points than "
    "dimensions, one point -- for chunk sizes 1, 2, 3, total-1, total, total+1 and the default: value against model / generated programs / "
    "brute-force nested sum, exactly one call per combination of points, every argument a single point of the right shape. non-trivial = at least 2 domains and a chunk "
    "size >= 1 not dividing the total (point-by-point), or at least 2 domains (vectorised / structure)"
)
TRUSTED_BASE = [
    "Lean 4.33 kernel; axioms propext, Classical.choice, Quot.sound only (audited per theorem)",
    "translator harness/translate/ngrid.py (Python AST -> Gen/NGrid.lean) and the primitives it targets in Model/NGrid.lean "
    "(itertoolsProduct = product with the last factor fastest, pyIslice = take/drop, pyZip, pyIndex, pySlice, npProd, npSum, npMul "
    "with a length check, pyWhileTrue with a pass bound); generators are lists; mitigation: the generated programs are run by the "
    "driver on every configuration and compared with the implementation",
    "basegrid.Grid.integrate = shape check + sum of weights*values (Grid.integrate of the model), tied by correspondence",
    "a vectorised integrand is the pointwise integrand evaluated on every point of the last domain (hypothesis hF)",
]
ASSUMPTIONS = [
    "exact arithmetic in the theorems; floating-point results agree up to summation order (tolerance 1e-11 of the sum of |terms|)",
    "Grid.__init__ guarantees len(points) == len(weights) (Grid.WF)",
    "negative chunk sizes (islice raises) and non-integer chunk sizes are outside the model",
]

# The integrand family, as source text so that replay snippets are self-contained.
INTEGRAND_SRC = '''
import numpy as np
COMPLEX_RET = ("complex128", "complex64", "pycomplex", "mixed")
class Integrand:
    # kind 'lastarg': the first coordinate of the last argument, handed back as the argument object itself / a view of it;
    # kind 'sep': prod_k (c0[k] + c1[k] t_k + c2[k] t_k^2);  kind 'nonsep': exp(-0.3 s^2) + sum_k t_k t_{k+1} + 0.1 s,
    # s = sum_k c1[k] t_k;  t_k = a[k] * x_k for a scalar point (dims[k] = 1: grid points of shape (N,)), a[k] * x_k[0] for a
    # one-component point (dims[k] = 11: points of shape (N, 1)), d[k][:m] . x_k for an m-component point (dims[k] = m = 2, 3).
    # Works pointwise and with an array of points as the last argument.
    # ret: the type in which the value is handed back: float64 (NumPy scalar / array), float32, int (Python int / int64 array
    # holding rint(3 v)), int32, bool (v > 0.9; Python bool / bool array), list (Python float / list of floats), 0d (0-d array / array),
    # strided / readonly (NumPy scalar / a non-contiguous resp. write-protected array), a1 (one-element array of shape (1,) / array),
    # memo (NumPy scalar / a persistent buffer, the same object on every call with the same first arguments),
    # longdouble (np.longdouble scalar / array), complex128 / complex64 / pycomplex (the value times a plane wave, as NumPy complex
    # scalar / array resp. Python complex / list), mixed (the kind of the value changes from point to point).
    # scale: factor on the value (1e-300 ... 1e200); zero: None, "all" (the integrand is exactly 0 everywhere) or a number z (exactly 0
    # wherever the coordinate t_0 of the FIRST domain is below z: whole blocks of the product order); shift: every coordinate of every
    # point is read as x - shift (grids translated by an exactly representable amount).
    def __init__(self, kind, dims, a, d, c0, c1, c2, ret="float64", scale=1.0, zero=None, shift=0.0):
        self.kind, self.dims, self.a, self.d = kind, dims, a, [np.array(v, dtype=float) for v in d]
        self.c0, self.c1, self.c2, self.ret = c0, c1, c2, ret
        self.scale, self.zero, self.shift = scale, zero, shift
        self._memo = {}
    def t(self, k, x):
        x = np.asarray(x, dtype=float) - self.shift
        if self.dims[k] == 1:
            return x * self.a[k]
        if self.dims[k] == 11:
            return x[..., 0] * self.a[k]
        return x @ self.d[k][: self.dims[k]]
    def raw(self, *args):
        ts = [self.t(k, x) for k, x in enumerate(args)]
        r = self.unscaled(ts)
        if self.zero == "all":
            r = np.zeros_like(r)
        elif self.zero is not None:
            r = np.where(ts[0] < self.zero, 0.0, r)
        r = r * self.scale
        return np.float64(r) if np.ndim(r) == 0 else r
    def unscaled(self, ts):
        if self.kind == "sep":
            r = 1.0
            for k, t in enumerate(ts):
                r = r * (self.c0[k] + self.c1[k] * t + self.c2[k] * t * t)
            return r + 0.0 * ts[-1]
        s = 0.0
        for k, t in enumerate(ts):
            s = s + self.c1[k] * t
        r = np.exp(-0.3 * s * s) + 0.1 * s
        for k in range(len(ts) - 1):
            r = r + ts[k] * ts[k + 1]
        return r
    def __call__(self, *args):
        if self.kind == "lastarg":
            # the integrand is the (first) coordinate of the last argument and hands back THE ARGUMENT ITSELF (points that are scalars:
            # the vectorised call gets the last grid's own point array and returns that very object) or a view of it
            x = args[-1]
            return x if self.dims[-1] == 1 else x[..., 0]
        r, ret = self.raw(*args), self.ret
        if ret == "float64":
            return r
        if ret == "memo":
            # a vectorised call hands back a persistent buffer: the same array object every time it is asked for the same first
            # N-1 arguments (computed once, never recomputed)
            if np.ndim(args[-1]) == (0 if self.dims[-1] == 1 else 1):
                return r
            return self._memo.setdefault(tuple(np.asarray(a).tobytes() for a in args[:-1]), np.array(r, dtype=float))
        a = np.asarray(r, dtype=float)
        scalar = a.ndim == 0
        if ret == "float32":
            return np.float32(a) if scalar else a.astype(np.float32)
        if ret in ("int", "int32"):
            q = np.rint(3 * a)
            if scalar:
                return int(q) if ret == "int" else np.int32(q)
            return q.astype(np.int64 if ret == "int" else np.int32)
        if ret == "bool":
            return bool(a > 0.9) if scalar else (a > 0.9)
        if ret == "list":
            return float(a) if scalar else a.tolist()
        if ret == "0d":
            return np.array(float(a)) if scalar else a
        if ret == "strided":
            return np.float64(a) if scalar else np.repeat(a, 2)[::2]
        if ret == "readonly":
            if scalar:
                return np.float64(a)
            a = a.copy(); a.setflags(write=False)
            return a
        if ret == "a1":
            return a.reshape(1) if scalar else a
        if ret == "longdouble":
            return np.longdouble(a) if scalar else a.astype(np.longdouble)
        if ret in COMPLEX_RET:
            # a plane wave on top of the real value: v = r exp(i theta), theta = sum_k (0.9 + 0.4 k) t_k
            z = a * np.exp(1j * self.theta(*args))
            if ret == "complex64":
                return np.complex64(z) if scalar else z.astype(np.complex64)
            if ret == "pycomplex":            # Python complex point by point; a list of Python complex (two or more domains: see the
                return complex(z) if scalar else (z.tolist() if len(args) > 1 else z)     # list-valued finding) from the vectorised call
            if ret == "complex128":
                return np.complex128(z) if scalar else z
            # mixed: the KIND of the value changes from point to point (Python float / 0-d float64 array / Python complex / Python int /
            # Python bool / np.float32 holding a float32-representable number); the vectorised call hands back the same numbers as one
            # complex128 array
            sel = np.floor(np.abs(a) * 997.0) % 6
            v = np.where(sel == 2, z, np.where(sel == 3, np.rint(3 * a), np.where(sel == 4, (a > 0.9) * 1.0, np.where(sel == 5, np.rint(8 * a) / 8, a)))) + 0j
            if not scalar:
                return v
            k = int(sel)
            return [float(v.real), np.array(float(v.real)), complex(v), int(v.real), bool(v.real), np.float32(v.real)][k]
        raise ValueError(ret)
    def theta(self, *args):
        return sum((0.9 + 0.4 * k) * self.t(k, x) for k, x in enumerate(args))
    def factor(self, k, x):
        # the k-th factor of a separable integrand (the scale is put on the first factor; not meaningful with `zero`)
        t = self.t(k, x)
        wave = np.exp(1j * (0.9 + 0.4 * k) * t) if self.ret in ("complex128", "pycomplex") else 1.0
        return (self.c0[k] + self.c1[k] * t + self.c2[k] * t * t) * (self.scale if k == 0 else 1.0) * wave
'''
_ns = {}
exec(INTEGRAND_SRC, _ns)
Integrand = _ns["Integrand"]

# How a configuration is turned into objects and calls of the library (source text: used by the replay snippets too).
BUILD_SRC = '''
import numpy as np
def _arr(values, how, role="points"):
    # the array object a grid is built on.  how: c / strided / readonly / negstride (negative strides) / fortran (column-major 2-D) /
    # view (a window of a larger caller array whose other entries are 7.25) / int, int32, float32, float16, longdouble (that dtype; the
    # values are representable) / boolw (weights of dtype bool, points float64)
    a = np.array(values, dtype=float)
    if how == "strided":
        big = np.zeros(tuple(2 * s for s in a.shape)); sl = tuple(slice(None, None, 2) for _ in a.shape)
        big[sl] = a
        return big[sl]
    if how == "view":
        big = np.full(tuple(s + 3 for s in a.shape), 7.25); sl = tuple(slice(2, -1) for _ in a.shape)
        big[sl] = a
        return big[sl]
    if how == "negstride":
        return np.ascontiguousarray(a[::-1])[::-1]
    if how == "fortran":
        return np.asfortranarray(a)
    if how in ("int", "int32", "float32", "float16", "longdouble"):
        return a.astype({"int": np.int64, "int32": np.int32, "float32": np.float32, "float16": np.float16, "longdouble": np.longdouble}[how])
    if how == "boolw" and role == "weights":
        return a.astype(bool)
    if how == "readonly":
        a.setflags(write=False)
    return a
def dom_index(cfg):
    # which of the generated (points, weights) pairs sits in domain k
    nd, mode = cfg["nd"], cfg["mode"]
    return [0] * nd if mode in ("repeat", "list-same", "list-shared") else [k % 2 for k in range(nd)] if mode == "list-aba" else list(range(nd))
def build(cfg, Grid, MultiDomainGrid):
    # -> (multi-domain grid, the list object handed to the constructor, domains).  mode 'list': one grid per domain; 'repeat': one
    # grid and num_domains; 'list-same': the *same grid object* listed nd times; 'list-aba': two grid objects listed alternately
    # (A, B, A, ...); 'list-shared': nd distinct grid objects built on the SAME points array and the SAME weights array.
    # cfg['ctor']: how the constructor arguments are spelled (positional / keyword / num_domains=None spelled out / keywords reversed)
    lay, nd, ctor = cfg.get("layout", "c"), cfg["nd"], cfg.get("ctor", "default")
    arrays = [(_arr(p, lay), _arr(w, lay, "weights")) for p, w in zip(cfg["pts"], cfg["wts"])]
    if cfg["mode"] == "list-shared":
        listed = [Grid(*arrays[0]) for _ in range(nd)]
    else:
        grids = [Grid(p, w) for p, w in arrays]
        listed = grids if cfg["mode"] in ("list", "repeat") else [grids[g] for g in dom_index(cfg)]
    n = nd if cfg["mode"] == "repeat" else None
    if ctor == "positional":
        mg = MultiDomainGrid(listed, n)
    elif ctor == "kw":
        mg = MultiDomainGrid(grid_list=listed, num_domains=n)
    elif ctor == "kw-reversed":
        mg = MultiDomainGrid(num_domains=n, grid_list=listed)
    else:
        mg = MultiDomainGrid(listed) if n is None else MultiDomainGrid(listed, num_domains=n)
    return mg, listed, (listed * nd if cfg["mode"] == "repeat" else listed)
def intact(cfg, listed, doms):
    # None, or what is no longer as the caller built it: the list handed to the constructor (length, the objects in it), every
    # grid's points and weights (values, dtype, array object) and -- for views -- the caller's larger arrays around them
    lay, idx = cfg.get("layout", "c"), dom_index(cfg)
    if len(listed) != (1 if cfg["mode"] == "repeat" else cfg["nd"]):
        return f"the list handed to the constructor has {len(listed)} entries now"
    if any(a is not b for a, b in zip(doms, listed * cfg["nd"] if cfg["mode"] == "repeat" else listed)):
        return "the list handed to the constructor holds other objects now"
    for k, d in enumerate(doms):
        for role, have, values in (("points", d.points, cfg["pts"][idx[k]]), ("weights", d.weights, cfg["wts"][idx[k]])):
            want = _arr(values, lay, role)
            if not isinstance(have, np.ndarray) or have.dtype != want.dtype or have.shape != want.shape or not np.array_equal(have, want):
                return f"{role} of the grid in domain {k} are {have!r}, built as {want!r}"
            if isinstance(want.base, np.ndarray) and not (isinstance(have.base, np.ndarray) and have.base.shape == want.base.shape and np.array_equal(have.base, want.base)):
                return f"the caller's array around the {role} of the grid in domain {k} changed"
    return None
def chunk_arg(cfg, c):
    return {"int": int, "np.int64": np.int64, "np.int32": np.int32}[cfg.get("ctype", "int")](c)
def run(mg, f, cfg, kind, c=None):
    # one call of integrate in the call form named by the configuration (c = None: the default chunk size): keyword / positional /
    # explicit (every option spelled out, the defaults too) / allkw (the integrand by keyword as well)
    form = cfg.get("call", "kw")
    if kind == "vec":
        if form == "positional":
            return mg.integrate(f, False)
        if form == "explicit":
            return mg.integrate(f, non_vectorized=False, integration_chunk_size=6000)
        if form == "allkw":
            return mg.integrate(integration_chunk_size=6000, integrand_function=f)
        return mg.integrate(f)
    if form == "explicit" or form == "allkw":
        size = 6000 if c is None else chunk_arg(cfg, c)
        return mg.integrate(f, non_vectorized=True, integration_chunk_size=size) if form == "explicit" else mg.integrate(integration_chunk_size=size, non_vectorized=True, integrand_function=f)
    if c is None:
        return mg.integrate(f, non_vectorized=True)
    if form == "positional":
        return mg.integrate(f, True, chunk_arg(cfg, c))
    return mg.integrate(f, non_vectorized=True, integration_chunk_size=chunk_arg(cfg, c))
class Raising:
    # the integrand, failing with RuntimeError at its `at`-th call
    def __init__(self, f, at):
        self.f, self.at, self.n = f, at, 0
    def __call__(self, *args):
        self.n += 1
        if self.n == self.at:
            raise RuntimeError("the integrand failed")
        return self.f(*args)
def event(mg, f, cfg, kind, c=None):
    # a call that ends in an exception (whatever the exception): -> its name, or None when the call returned
    try:
        if kind == "raise-vec":
            mg.integrate(Raising(f, c))
        elif kind == "raise-nonvec":
            mg.integrate(Raising(f, c[1]), non_vectorized=True, integration_chunk_size=c[0])
        elif kind == "badchunk":
            mg.integrate(f, non_vectorized=True, integration_chunk_size=c)
        elif kind == "vecbad":
            mg.integrate(lambda *xs: np.asarray(f(*xs))[1:])
        elif kind == "moments":
            mg.moments(1, np.zeros((1, 3)), np.ones(3))
        elif kind == "get_localgrid":
            mg.get_localgrid(np.zeros(3), 1.0)
        else:
            raise AssertionError(kind)
    except AssertionError:
        raise
    except Exception as e:
        return type(e).__name__
    return None
EVENTS = ("raise-vec", "raise-nonvec", "badchunk", "vecbad", "moments", "get_localgrid")
'''
exec(BUILD_SRC, _ns)
build, run, intact, event, EVENTS, Raising = (_ns[k] for k in ("build", "run", "intact", "event", "EVENTS", "Raising"))
CFG_KEYS = ("mode", "nd", "dims", "pts", "wts", "par", "layout", "ctype", "call", "ctor")
EXACT_RET = ("float64", "list", "0d", "strided", "readonly", "memo", "longdouble", "complex128", "pycomplex")   # kinds that hand back the value unrounded
COMPLEX_RET = _ns["COMPLEX_RET"]
SINGLE = ("repeat", "list-same", "list-shared")               # modes with one (points, weights) pair in every domain


def _r(x):
    return round(float(x), 3)


def _domain_index(mode, nd):
    """which of the generated (points, weights) pairs sits in domain k"""
    return [0] * nd if mode in SINGLE else [k % 2 for k in range(nd)] if mode == "list-aba" else list(range(nd))


def _total(cfg):
    return math.prod(len(cfg["wts"][g]) for g in _domain_index(cfg["mode"], cfg["nd"]))


def _config(ctx: Ctx, cap: int, nd=None, mode=None, sizes=None, plain=False, **force):
    """-> dict(mode, nd, dims, pts, wts, integrand parameters, argument kinds).
    `sizes`: sizes of the generated grids; `plain`: none of the random extras (zero weights, scales, zero blocks, shift);
    `force`: extras switched on (ret=<kind of the integrand's values>, zero_w='lead'|'some'|'all-first', wexp=[exponent per grid], fscale=x, zero='all'|'lead'|'mid', shift=k)."""
    rng = ctx.rng
    nd = nd or rng.choice([1, 2, 2, 3, 3, 4])
    if mode is None:
        u = rng.random()
        mode = ("repeat" if u < 0.25 else "list-same" if u < 0.35 and nd >= 2 else "list-aba" if u < 0.43 and nd >= 3
                else "list-shared" if u < 0.5 and nd >= 2 else "list")
    ngr = 1 if mode in SINGLE else 2 if mode == "list-aba" else nd
    dom = _domain_index(mode, nd)
    while sizes is None or len(sizes) != ngr:
        sizes = [rng.randint(1, 7) for _ in range(ngr)]
        if math.prod(sizes[g] for g in dom) > cap:
            sizes = None
    tot = math.prod(sizes[g] for g in dom)
    # a point is a scalar (points of shape (N,)), a 1-vector ((N, 1)), a 2-vector or a 3-vector: mixed freely
    dims = [rng.choice([1, 1, 11, 2, 3, 3]) for _ in range(ngr)]
    if force.get("dims"):
        dims = list(force["dims"])
    # what the grids' arrays are (class 14): plain float64, non-contiguous, write-protected, negative strides, column-major, windows of
    # larger caller arrays, or another dtype (then the numbers are representable in it: small integers / multiples of 1/8 / 0 and 1)
    layout = force.get("layout") or rng.choice(["c"] * 6 + ["strided", "readonly", "negstride", "fortran", "view", "view", "int", "int32", "float32", "boolw", "float16", "longdouble"])
    typed = layout in ("int", "int32", "float32", "boolw", "float16")
    lastarg = force.get("kind") == "lastarg"
    if typed or lastarg:
        plain = True
        force = {k: v for k, v in force.items() if k not in ("wexp", "shift", "fscale") and not (lastarg and k == "zero")}
    ex = {} if plain else dict(
        zero_w=rng.choice([None] * 7 + ["lead", "some", "some"]),
        wexp=rng.random() < 0.2, fscale=rng.random() < 0.2,
        zero=rng.choice([None] * 11 + ["all", "lead", "mid"]),
        shift=rng.choice([None] * 9 + [10, 20]))
    ex.update(force)
    shift = float(2 ** ex["shift"]) if ex.get("shift") else 0.0
    pts, wts = [], []
    for n, dm in zip(sizes, dims):
        if shift:        # dyadic coordinates: the translated point is exactly representable, and so is the way back
            p = [[rng.randint(-1536, 1536) / 1024 + shift for _ in range(1 if dm == 11 else dm)] for _ in range(n)]
        else:
            p = [[_r(rng.uniform(-1.5, 1.5)) for _ in range(1 if dm == 11 else dm)] for _ in range(n)]
        w = [_r(rng.uniform(-0.5, 1.5)) or 0.25 for _ in range(n)]
        if layout in ("int", "int32"):
            p, w = [[float(rng.randint(-3, 3)) for _ in q] for q in p], [float(rng.randint(-1, 3)) for _ in w]
        elif layout == "float32":
            p, w = [[rng.randint(-12, 12) / 8 for _ in q] for q in p], [rng.randint(-4, 12) / 8 for _ in w]
        elif layout == "float16":            # products of up to five weights stay exact in half precision
            p, w = [[rng.randint(-12, 12) / 8 for _ in q] for q in p], [rng.randint(-4, 4) / 8 for _ in w]
        elif layout == "boolw":
            w = [float(rng.random() < 0.7) for _ in w]
        pts.append([q[0] for q in p] if dm == 1 else p)
        wts.append(w)
    # weights that are exactly zero: the first weight of the first grid (a whole leading block of the product order has
    # weight 0), or some weights anywhere
    if ex.get("zero_w") == "lead":
        wts[0][0] = 0.0
    elif ex.get("zero_w") == "some":
        for w in wts:
            for i in range(len(w)):
                if rng.random() < 0.3:
                    w[i] = 0.0
    elif ex.get("zero_w") == "all-first":
        wts[0] = [0.0] * len(wts[0])
    # weights of extreme magnitude: one grid scaled by a power of ten, or two grids by opposite powers; every product
    # of one weight per domain stays inside the double range
    mult = [dom.count(g) for g in range(ngr)]
    wexp = ex.get("wexp")
    if wexp is True:
        g = rng.randrange(ngr)
        lim = 240 // mult[g]
        e = rng.choice([v for v in (-150, -100, -60, -12, 12, 60, 100, 150) if abs(v) <= lim])
        wexp = [0] * ngr
        wexp[g] = e
        if ngr >= 2 and abs(e) >= 100 and rng.random() < 0.6:
            h = rng.choice([x for x in range(ngr) if x != g])
            if mult[h] == mult[g]:
                wexp[h] = -e
    if wexp:
        wts = [[w * 10.0 ** e for w in ws] for ws, e in zip(wts, wexp)]
    wpos = sum(max(e, 0) * m for e, m in zip(wexp, mult)) if wexp else 0
    wneg = sum(min(e, 0) * m for e, m in zip(wexp, mult)) if wexp else 0
    # integrand values of extreme magnitude (the result is compared relative to that scale)
    fscale = ex.get("fscale")
    if fscale is True:
        fscale = rng.choice([1e-300 if nd <= 2 else 1e-280, 1e-50, 1e-12, 1e12, 1e100, 1e200])
    fscale = float(fscale or 1.0)
    if wpos + max(math.log10(fscale), 0) > 290 or wneg + min(math.log10(fscale), 0) < -290:
        fscale = 1.0           # every partial product (in whatever order a route multiplies) stays a normal double
    ddims = [dims[g] for g in dom]
    par = dict(
        kind=rng.choice(["sep", "nonsep"]), dims=ddims,
        a=[_r(rng.uniform(0.3, 1.2)) for _ in range(nd)],
        d=[[_r(rng.uniform(-1, 1)) for _ in range(3)] for _ in range(nd)],
        c0=[_r(rng.uniform(0.5, 1.5)) for _ in range(nd)],
        c1=[_r(rng.uniform(-1, 1)) for _ in range(nd)],
        c2=[_r(rng.uniform(-0.5, 0.5)) for _ in range(nd)],
        ret=rng.choice(["float64"] * 8 + ["float32", "int", "int32", "bool", "list", "0d", "strided", "readonly", "longdouble",
                        "complex128", "complex128", "complex64", "pycomplex", "mixed", "memo", "memo"]),
    )
    if lastarg:
        par["kind"], ex["ret"] = "lastarg", "float64"
    if ex.get("ret"):
        par["ret"] = ex["ret"]
    if layout == "float16" and par["ret"] in ("bool", "float32", "complex64"):
        par["ret"] = "float64"  # half-precision weights times bool / single-precision values are summed in half / single precision: not combined
    if layout == "boolw" and par["ret"] == "bool":
        par["ret"] = "int"     # bool weights times bool values is Boolean algebra in einsum (weights are documented as float arrays): not combined
    if nd == 1 and par["ret"] == "list":
        par["ret"] = "0d"      # a list-valued vectorised integrand on ONE domain is a listed finding (probed by the oracle under its own key)
    if fscale != 1.0:
        par["scale"] = fscale
        if par["ret"] not in EXACT_RET:
            par["ret"] = "float64"
    if shift:
        par["shift"] = shift
    if ex.get("zero"):
        # exactly zero on the first point of the first domain ("lead": the first chunks hold nothing but zeros), below the
        # median coordinate of the first domain ("mid"), or everywhere
        t0 = sorted(float(Integrand(**par).t(0, x)) for x in pts[0])
        par["zero"] = "all" if ex["zero"] == "all" else (float(Integrand(**par).t(0, pts[0][0])) if ex["zero"] == "lead" else t0[len(t0) // 2]) + 1e-9
    return dict(mode=mode, nd=nd, dims=dims, pts=pts, wts=wts, par=par, total=tot,
                layout=layout,
                ctype=rng.choice(["int"] * 3 + ["np.int64", "np.int32"]),
                call=force.get("call") or rng.choice(["kw", "kw", "positional", "explicit", "allkw"]),
                ctor=force.get("ctor") or rng.choice(["default", "default", "positional", "kw", "kw-reversed"]))


def _build(cfg):
    bg = importlib.import_module("grid.basegrid")
    ng = importlib.import_module("grid.ngrid")
    return build(cfg, bg.Grid, ng.MultiDomainGrid)


def _spec(cfg):
    if cfg["mode"] in ("list-same", "list-aba", "list-shared"):              # the same object / the same arrays several times are, for the model, equal domains
        return f"list {cfg['nd']} {cfg['nd']} " + " ".join(fvec(cfg["wts"][g]) for g in _domain_index(cfg["mode"], cfg["nd"]))
    return f"{cfg['mode']} {cfg['nd']} {len(cfg['wts'])} " + " ".join(fvec(w) for w in cfg["wts"])


def _table(doms, f):
    """values of f (as complex numbers) over the product set, own mixed-radix loop (last domain fastest)."""
    sizes = [d.size for d in doms]
    out = []
    for idx in np.ndindex(*sizes):
        out.append(complex(np.asarray(f(*[d.points[i] for d, i in zip(doms, idx)]))))
    return out


def _cclose(a, b, rtol, scale):
    """complex results: real and imaginary parts each within rtol * scale (nan / inf as in `close`)"""
    a, b = complex(a), complex(b)
    return close(a.real, b.real, rtol=rtol, scale=scale) and close(a.imag, b.imag, rtol=rtol, scale=scale)


def _rtol(cfg, base):
    """single-precision (or bool) weights times single-precision values are multiplied and summed in single precision (the precision the
    caller chose for both): agreement to 1e-5 of the scale is demanded there"""
    return 1e-5 if cfg.get("layout") in ("float32", "boolw") and cfg["par"]["ret"] in ("float32", "complex64") else base      # (bool weights do not widen float32 values either)


def _result_kind(x):
    """the kind of what integrate handed back: complex / longdouble / real"""
    x = np.asarray(x)
    return "complex" if np.iscomplexobj(x) else "longdouble" if x.dtype == np.longdouble and np.dtype(np.longdouble).itemsize > 8 else "real"


def _expected_kind(ret, layout=None):
    """complex values give a complex integral, extended-precision values (or extended-precision weights inside the grids) an
    extended-precision one, every other kind a real one (mixed kinds: complex unless no complex value occurred)"""
    kinds = {"complex128": ("complex",), "complex64": ("complex",), "pycomplex": ("complex",), "longdouble": ("longdouble",),
             "mixed": ("complex", "real")}.get(ret, ("real",))
    return tuple("longdouble" if k == "real" else k for k in kinds) if layout == "longdouble" else kinds


def _chunk_sizes(total):
    return sorted({1, 2, 3, 5, max(1, total - 1), total, total + 1, 6000})


def _pub(cfg):
    return {k: cfg[k] for k in CFG_KEYS if k in cfg}


def _variants(ctx, cfg):
    if cfg["par"]["kind"] == "lastarg":
        ctx.tagc("variant:integrand-returns-its-argument" + (":view" if cfg["par"]["dims"][-1] != 1 else ""))
    for k, dflt in (("layout", "c"), ("ctype", "int"), ("call", "kw"), ("ctor", "default")):
        if cfg.get(k, dflt) != dflt:
            ctx.distribution[f"variant:{k}={cfg[k]}"] = ctx.distribution.get(f"variant:{k}={cfg[k]}", 0) + 1
    if cfg["par"]["ret"] != "float64":
        ctx.distribution[f"variant:ret={cfg['par']['ret']}"] = ctx.distribution.get(f"variant:ret={cfg['par']['ret']}", 0) + 1
    ctx.distribution[f"variant:points={sorted(set(cfg['dims']))}"] = ctx.distribution.get(f"variant:points={sorted(set(cfg['dims']))}", 0) + 1
    par, flat = cfg["par"], [w for ws in cfg["wts"] for w in ws]
    extras = []
    if any(w == 0.0 for w in flat):
        extras.append("zero-weights" + (":leading-block" if cfg["wts"][0][0] == 0.0 else ""))
    if any(w != 0.0 and not 1e-6 < abs(w) < 1e6 for w in flat):
        extras.append("weights-scaled")
    if par.get("zero") is not None:
        extras.append("integrand-zero:" + ("everywhere" if par["zero"] == "all" else "block"))
    if par.get("scale", 1.0) != 1.0:
        extras.append(f"integrand-scale={par['scale']:g}")
    if par.get("shift"):
        extras.append(f"points-shifted-by={par['shift']:g}")
    if 1 in [len(w) for w in cfg["wts"]]:
        extras.append("one-point-domain")
    for e in extras:
        ctx.tagc("variant:" + e)


# ---- round 5: the components are modified between construction and use ------------------------------------------------------
# The harness keeps its own record of what the components are NOW (an abstract heap: list position -> grid object -> points array /
# weights array -> values) and applies every step to the live objects and to that record alike.  Source text: the replay snippets
# contain it.
MUT_SRC = '''
import numpy as np
def mut_layout(cfg):
    # -> (grid object label per list position, {object label: [points array label, weights array label]}, {array label: values})
    idx = dom_index(cfg)
    n = 1 if cfg["mode"] == "repeat" else cfg["nd"]
    pos = [("o", k) for k in range(n)] if cfg["mode"] == "list-shared" else [("o", idx[k]) for k in range(n)]
    oarr = {o: [("p", 0 if cfg["mode"] == "list-shared" else o[1]), ("w", 0 if cfg["mode"] == "list-shared" else o[1])] for o in pos}
    val = {}
    for o in pos:
        g = 0 if cfg["mode"] == "list-shared" else o[1]
        val[oarr[o][0]], val[oarr[o][1]] = np.array(cfg["pts"][g], dtype=float), np.array(cfg["wts"][g], dtype=float)
    return pos, oarr, val
def mut_states(cfg, steps):
    # the components after 0, 1, ... steps, for the instance whose list is edited (A) and for a second instance built on a COPY of
    # the list before any step (B: follows the grids, not the replaced entries): -> [(domains of A, domains of B)], a domain = (points, weights)
    pos, oarr, val = mut_layout(cfg)
    pos_b = list(pos)
    rep = cfg["nd"] if cfg["mode"] == "repeat" else 1
    def snap(pp):
        return [(val[oarr[o][0]].copy(), val[oarr[o][1]].copy()) for o in pp] * rep
    out = [(snap(pos), snap(pos_b))]
    for n, st in enumerate(steps):
        kind, k = st[0], st[1]
        if kind == "set":                       # grid.points = new / grid.weights = new (the public setters)
            lab = ("s", n)
            val[lab] = np.array(st[3], dtype=float)
            oarr[pos[k]][0 if st[2] == "points" else 1] = lab
        elif kind == "inplace":                 # grid.weights[...] = new values / grid.points *= c: the array object stays
            val[oarr[pos[k]][0 if st[2] == "points" else 1]] = np.array(st[3], dtype=float)
        elif kind == "replace":                 # mg.grid_list[k] = another grid
            o = ("r", n)
            oarr[o] = [("rp", n), ("rw", n)]
            val[oarr[o][0]], val[oarr[o][1]] = np.array(st[2], dtype=float), np.array(st[3], dtype=float)
            pos[k] = o
        else:
            raise AssertionError(kind)
        out.append((snap(pos), snap(pos_b)))
    return out
def mut_apply(mg, st, Grid):
    # one step on the live objects, through public attributes only
    kind, k = st[0], st[1]
    g = mg.grid_list[k]
    if kind == "set":
        setattr(g, st[2], np.array(st[3], dtype=float))
    elif kind == "inplace":
        a = getattr(g, st[2])
        if st[4] == "assign":
            a[...] = np.array(st[3], dtype=float)
        else:
            a *= st[4]
    else:
        mg.grid_list[k] = Grid(np.array(st[2], dtype=float), np.array(st[3], dtype=float))
def mut_observe(mg, f, cfg, what):
    # what: "size" / "points" / "weights" / ("vec", None) / ("nonvec", c)
    if what == "size":
        return int(mg.size)
    if what == "points":
        return [tuple(np.array(x, dtype=float) for x in tp) for tp in mg.points]
    if what == "weights":
        return [float(x) for x in mg.weights]
    return complex(run(mg, f, cfg, what[0], what[1]))
def mut_reference(doms, f):
    # brute-force nested sum over the components as they are now -> (size, point tuples, weights, integral, sum of |terms|)
    import math
    pts, ws, terms = [], [], []
    def rec(k, args, w):
        if k == len(doms):
            pts.append(tuple(args)); ws.append(w); terms.append(w * complex(np.asarray(f(*args)))); return
        for i in range(len(doms[k][1])):
            rec(k + 1, args + [doms[k][0][i]], w * float(doms[k][1][i]))
    rec(0, [], 1.0)
    return len(ws), pts, ws, complex(math.fsum(t.real for t in terms), math.fsum(t.imag for t in terms)), math.fsum(abs(t) for t in terms)
def mut_check(got, what, ref, rtol):
    # None, or how the observation differs from the reference
    size, pts, ws, integral, scale = ref
    if what == "size":
        return None if got == size else f"size {got}, the product set has {size}"
    if what == "points":
        ok = len(got) == len(pts) and all(len(a) == len(b) and all(np.array_equal(x, np.asarray(y, dtype=float)) for x, y in zip(a, b)) for a, b in zip(got, pts))
        return None if ok else f"the enumerated points ({len(got)}) are not the product set of the grids' current points ({len(pts)}) in nested-loop order"
    if what == "weights":
        ok = len(got) == len(ws) and all(abs(a - b) <= 1e-13 * abs(b) for a, b in zip(got, ws))
        return None if ok else f"the enumerated weights {got[:4]}... are not the products of the grids' current weights {ws[:4]}..."
    return None if abs(got - integral) <= rtol * scale else f"integrate gives {got!r}, nested product quadrature over the grids as they are now {integral!r}"
def mut_history(cfg, steps, orders, Grid, MultiDomainGrid, Integrand, rtol=1e-10):
    # -> list of (state number, instance, observation, what is wrong).  orders[s]: the observations made in state s, in that order;
    # instance A is the one whose list is edited, B was built from a copy of the list before, C is built from A's list after the last step
    mg, listed, _ = build(cfg, Grid, MultiDomainGrid)
    mg_b = MultiDomainGrid(list(listed), num_domains=cfg["nd"] if cfg["mode"] == "repeat" else None)
    f = Integrand(**cfg["par"])
    states, bad = mut_states(cfg, steps), []
    for s in range(len(states)):
        if s:
            mut_apply(mg, steps[s - 1], Grid)
        refs = {"A": mut_reference(states[s][0], f), "B": mut_reference(states[s][1], f)}
        insts = {"A": mg, "B": mg_b}
        if s == len(states) - 1:
            insts["C"], refs["C"] = MultiDomainGrid(mg.grid_list, num_domains=cfg["nd"] if cfg["mode"] == "repeat" else None), refs["A"]
        for who, what in orders[s]:
            what = tuple(what) if isinstance(what, (list, tuple)) else what
            try:
                msg = mut_check(mut_observe(insts[who], f, cfg, what), what, refs[who], rtol)
            except Exception as e:
                msg = f"raised {type(e).__name__}: {e}"
            if msg:
                bad.append((s, who, what, msg))
    return bad
'''
exec(MUT_SRC, _ns)
mut_states, mut_history, mut_reference = _ns["mut_states"], _ns["mut_history"], _ns["mut_reference"]

MUT_SNIPPET = """import warnings; warnings.filterwarnings('ignore')
import numpy as np
from grid.basegrid import Grid
from grid.ngrid import MultiDomainGrid
{integrand_src}
{build_src}
{mut_src}
cfg, steps, orders = {cfg!r}, {steps!r}, {orders!r}
# steps: ('set', k, 'points'|'weights', values) = grid_list[k].<attr> = array; ('inplace', k, attr, new values, 'assign'|factor) = edit of the
# array handed out by grid_list[k].<attr>; ('replace', k, points, weights) = mg.grid_list[k] = Grid(points, weights).  After every step:
# size / points / weights / integrate (both routes, several chunk sizes) against the nested sum over the grids as they are NOW.
bad = mut_history(cfg, steps, orders, Grid, MultiDomainGrid, Integrand, {rtol})
assert not bad, 'after steps ' + repr(steps[:bad[0][0]]) + f': instance {{bad[0][1]}}, {{bad[0][2]}}: {{bad[0][3]}}'
"""


def _mut_plan(ctx, cfg):
    """-> (steps, orders): two to four modifications of the components (every public attribute: points / weights rebound through
    the setters, edited in place through the handed-out array, list entries replaced) and, per state, the observations in a
    shuffled order (so every kind of observation comes directly before and directly after every kind of modification)."""
    rng = ctx.rng
    pos_n = 1 if cfg["mode"] == "repeat" else cfg["nd"]
    doms = [(p.copy(), w.copy()) for p, w in mut_states(cfg, [])[0][0]][:pos_n]
    steps = []
    for n in range(rng.randint(2, 4)):
        k = rng.randrange(pos_n)
        p, w = doms[k]
        kind = rng.choice(["set", "set", "inplace", "inplace", "replace"])
        role = rng.choice(["weights", "weights", "points"])
        old = w if role == "weights" else p
        if kind == "replace":
            m = rng.choice([len(w), len(w), rng.randint(1, 4)])
            newp = np.round(np.array([[rng.uniform(-1.5, 1.5) for _ in range(p.shape[1])] for _ in range(m)]) if p.ndim == 2 else np.array([rng.uniform(-1.5, 1.5) for _ in range(m)]), 3)
            neww = np.round(np.array([rng.uniform(-0.5, 1.5) for _ in range(m)]), 3)
            steps.append(("replace", k, newp.tolist(), neww.tolist()))
        elif kind == "set":
            new = np.round(old + rng.uniform(0.2, 1.0) * (1 + np.arange(old.size).reshape(old.shape) % 3), 3) if rng.random() < 0.7 else np.round(old[::-1] * 0.5, 3)
            steps.append(("set", k, role, new.tolist()))
        else:
            how = rng.choice(["assign", 2.0, -0.5, 0.0])
            new = np.round(old * 0.75 + 0.125, 3) if how == "assign" else old * how
            steps.append(("inplace", k, role, new.tolist(), how))
        doms = [(pp.copy(), ww.copy()) for pp, ww in mut_states(cfg, steps)[-1][0]][:pos_n]
    orders = []
    for s in range(len(steps) + 1):
        tot = math.prod(len(d[1]) for d in mut_states(cfg, steps)[s][0])
        obs = [("A", "size"), ("A", "points"), ("A", "weights"), ("A", ("vec", None)), ("A", ("nonvec", 1)), ("A", ("nonvec", max(2, tot - 1))), ("A", ("nonvec", None)),
               ("B", "weights"), ("B", ("vec", None)), ("B", ("nonvec", rng.choice([1, 2, 3, tot + 1])))]
        if s == len(steps):
            obs += [("C", "weights"), ("C", ("vec", None)), ("C", ("nonvec", 2)), ("C", "size")]
        rng.shuffle(obs)
        orders.append(obs)
    return steps, orders


def _mut_configs(ctx, n):
    fixed = [(2, "list"), (3, "list"), (2, "repeat"), (3, "repeat"), (1, "list"), (1, "repeat"), (2, "list-same"), (3, "list-aba"), (2, "list-shared"), (3, "list-shared")]
    out = []
    for i in range(n):
        nd, mode = fixed[i] if i < len(fixed) else (None, None)
        out.append(_config(ctx, 60, nd, mode, plain=True, layout=ctx.rng.choice(["c", "c", "view", "strided", "negstride", "fortran"]),
                           ret=ctx.rng.choice(["float64", "float64", "complex128", "0d", "readonly"])))       # (not memo: its buffer is keyed by the first arguments only)
    return out


def _mut_snippet(cfg, steps, orders):
    return MUT_SNIPPET.format(integrand_src=INTEGRAND_SRC, build_src=BUILD_SRC, mut_src=MUT_SRC, cfg=_pub(cfg), steps=steps, orders=orders, rtol=1e-10)


def _mut_key(what):
    return "ngrid." + (what if isinstance(what, str) else "integrate:" + ("vectorized" if what[0] == "vec" else "chunk")) + ":modified-components"


def _oracle_mutation(ctx, cfg, steps=None, orders=None):
    """The property after the components were modified: every observation against the brute-force nested sum over the components as
    they are now (the harness's own record)."""
    bg, ng = importlib.import_module("grid.basegrid"), importlib.import_module("grid.ngrid")
    if steps is None:
        steps, orders = _mut_plan(ctx, cfg)
    bad = mut_history(cfg, steps, orders, bg.Grid, ng.MultiDomainGrid, Integrand)
    ctx.tagc("oracle:modified-components", len(steps))
    who_txt = {"A": "the instance whose grids were modified", "B": "a second instance on a copy of the list", "C": "an instance built afterwards from the same list"}
    for s, who, what, msg in bad[:2]:
        ctx.fail("oracle", _mut_key(what), f"after the steps {steps[:s]} on the components ({who_txt[who]}), {what}: {msg}",
                 witness=dict(_pub(cfg), steps=steps, orders=orders), snippet=_mut_snippet(cfg, steps, orders))


# ---- scalar-only integrands in the point-by-point route ----------------------------------------------------------------------
SCALAR_SRC = '''
import math
import numpy as np
class ScalarOnly:
    # An integrand that works on ONE point per argument only (what non_vectorized=True is for).  style 'math': math.exp / math.cos of
    # the coordinates; 'branch': an `if` on a coordinate; 'index': the product of one point's coordinates written with indices
    # p[0] * p[1] * p[2] (on a grid with as many points as dimensions, indexing a point and indexing the point array are confusable).
    # Every call is counted and the shape of every argument recorded when it is not the shape of a single point of that domain
    # (dims[k] = 1: a scalar, 11: (1,), m: (m,)).
    def __init__(self, style, dims, a):
        self.style, self.dims, self.a, self.calls, self.bad = style, dims, a, 0, []
    def coords(self, k, p):
        return [p] if self.dims[k] == 1 else [p[i] for i in range(1 if self.dims[k] == 11 else self.dims[k])]
    def __call__(self, *args):
        self.calls += 1
        for k, p in enumerate(args):
            want = () if self.dims[k] == 1 else (1,) if self.dims[k] == 11 else (self.dims[k],)
            if np.shape(p) != want:
                self.bad.append((k, np.shape(p)))
        r = 1.0
        for k, p in enumerate(args):
            c = self.coords(k, p)
            if self.style == "math":
                v = sum(math.exp(-0.3 * x * x) + math.cos(self.a[k] * x) for x in c)
            elif self.style == "branch":
                t = c[0]
                if t > 0.1:
                    v = 0.5 + t * t
                else:
                    v = 1.5 - self.a[k] * t
            else:
                v = c[0]
                for x in c[1:]:
                    v = v * x
                v = v + 0.25 * (k + 1)
            r = r * v
        return r
'''
exec(SCALAR_SRC, _ns)
ScalarOnly = _ns["ScalarOnly"]

SCALAR_SNIPPET = """import warnings; warnings.filterwarnings('ignore')
import math, numpy as np
from grid.basegrid import Grid
from grid.ngrid import MultiDomainGrid
{build_src}
{scalar_src}
cfg, style, chunk = {cfg!r}, {style!r}, {chunk!r}
mg, listed, doms = build(cfg, Grid, MultiDomainGrid)
ref = ScalarOnly(style, cfg['par']['dims'], cfg['par']['a'])
terms = []
def rec(k, args, w):
    if k == len(doms):
        terms.append(w * float(ref(*args))); return
    for i in range(doms[k].size):
        rec(k + 1, args + [doms[k].points[i]], w * float(doms[k].weights[i]))
rec(0, [], 1.0)
want, scale = math.fsum(terms), math.fsum(abs(t) for t in terms)
f = ScalarOnly(style, cfg['par']['dims'], cfg['par']['a'])
try:
    got = mg.integrate(f, non_vectorized=True) if chunk is None else mg.integrate(f, non_vectorized=True, integration_chunk_size=chunk)
except Exception as e:
    raise AssertionError(f'integrate(f, non_vectorized=True, chunk size {{chunk}}) with a scalar-only integrand ({{style}}) raised {{type(e).__name__}}: {{e}}; calls {{f.calls}}, arguments that were not single points {{f.bad[:3]}}')
assert not f.bad and f.calls == len(terms), f'the integrand was called {{f.calls}} times for {{len(terms)}} combinations of points; arguments that were not single points (domain, shape): {{f.bad[:3]}}'
assert np.shape(got) == () and abs(complex(got) - want) <= 1e-10 * scale, f'integrate gives {{got!r}}, nested product quadrature {{want!r}}'
"""

SCALAR_SHAPES = [  # (number of domains, mode, sizes, dims): ONE domain both as [g] and as [g], num_domains=1; N = dimension grids; N < dimension; one point
    (1, "list", [3], [3]), (1, "repeat", [3], [3]), (1, "list", [2], [2]), (1, "repeat", [2], [2]), (1, "list", [1], [11]), (1, "repeat", [1], [3]),
    (1, "list", [5], [1]), (1, "repeat", [4], [1]), (1, "list", [4], [3]), (1, "repeat", [6], [2]), (1, "list", [1], [1]), (1, "list", [2], [3]),
    (2, "list", [3, 2], [3, 2]), (2, "repeat", [3], [3]), (2, "list", [2, 3], [1, 3]), (2, "list-same", [2], [2]), (2, "list", [1, 3], [3, 3]),
    (3, "list", [2, 3, 2], [2, 1, 3]), (3, "repeat", [2], [2]), (3, "list-aba", [3, 2], [3, 11]), (4, "list", [2, 1, 3, 2], [1, 3, 3, 2])]


def _scalar_cases(ctx):
    out = []
    for i, (nd, mode, sizes, dims) in enumerate(SCALAR_SHAPES):
        cfg = _config(ctx, 10 ** 4, nd, mode, sizes=sizes, dims=dims, plain=True, ret="float64",
                      layout=ctx.rng.choice(["c", "c", "view", "fortran", "negstride"]))
        for style in ("math", "branch", "index"):
            out.append((cfg, style))
    return out


def _scalar_reference(cfg, style):
    """brute-force nested sum with a ScalarOnly of its own, over the values of the configuration (not over grid objects)"""
    g = ScalarOnly(style, cfg["par"]["dims"], cfg["par"]["a"])
    doms = [(np.array(cfg["pts"][j], dtype=float), np.array(cfg["wts"][j], dtype=float)) for j in _domain_index(cfg["mode"], cfg["nd"])]
    size, pts, ws, integral, scale = mut_reference(doms, g)
    return doms, [complex(np.asarray(g(*p))) for p in pts], integral, scale, size


def _scalar_snippet(cfg, style, chunk):
    return SCALAR_SNIPPET.format(build_src=BUILD_SRC, scalar_src=SCALAR_SRC, cfg=_pub(cfg), style=style, chunk=chunk)


def _scalar_run(ctx, kind, cfg, style, chunk, want, scale, size):
    """one point-by-point call with a scalar-only integrand -> value or None; failures recorded under `kind` (corr / oracle)"""
    bg, ng = importlib.import_module("grid.basegrid"), importlib.import_module("grid.ngrid")
    mg = build(cfg, bg.Grid, ng.MultiDomainGrid)[0]
    f = ScalarOnly(style, cfg["par"]["dims"], cfg["par"]["a"])
    wit, sn = dict(_pub(cfg), style=style, chunk=chunk), _scalar_snippet(cfg, style, chunk)
    try:
        got = mg.integrate(f, non_vectorized=True) if chunk is None else mg.integrate(f, non_vectorized=True, integration_chunk_size=chunk)
    except Exception as e:
        ctx.fail(kind, "ngrid.integrate:pointwise:scalar-only", f"integrate(f, non_vectorized=True, chunk size {chunk}) with an integrand that works on single points only ({style}) "
                 f"raised {type(e).__name__}: {e}; the integrand was called {f.calls} times, arguments that were not single points (domain, shape): {f.bad[:3]}", witness=wit, snippet=sn)
        return None
    if f.bad or f.calls != size:
        ctx.fail(kind, "ngrid.integrate:pointwise:calls", f"point-by-point route, chunk size {chunk}: the integrand was called {f.calls} times for {size} combinations of points; "
                 f"arguments that were not single points (domain, shape): {f.bad[:3]}", witness=wit, snippet=sn)
    if np.shape(got) != () or not _cclose(complex(np.asarray(got).ravel()[0]) if np.size(got) else 0j, want, 1e-10, scale):
        ctx.fail(kind, "ngrid.integrate:pointwise:scalar-only", f"point-by-point route with a scalar-only integrand ({style}), chunk size {chunk}: integrate gives {got!r}, nested product quadrature {want!r}",
                 witness=wit, snippet=sn)
        return None
    return complex(got)


def _scalar_corr(ctx):
    """Point-by-point route with integrands that work on single points only, 1-4 domains: against the model / generated programs
    (table of the integrand's values) for every chunk size; one call per combination, every argument a single point."""
    cases, lines, meta, refs = _scalar_cases(ctx), [], [], []
    for ci, (cfg, style) in enumerate(cases):
        doms, tab, integral, scale, size = _scalar_reference(cfg, style)
        refs.append((integral, scale, size))
        for c in sorted({1, 2, 3, max(1, size - 1), size, size + 1}) + [None]:
            for prog in ("C18.", "C18.gen-"):
                lines.append(f"{prog}nonvec {6000 if c is None else c} {_spec(cfg)} {fvec([z.real for z in tab])}")
                meta.append((ci, c, prog))
    got = {}
    for (ci, c, prog), a in zip(meta, driver_batch(lines)):
        cfg, style = cases[ci]
        integral, scale, size = refs[ci]
        if (ci, c) not in got:
            got[(ci, c)] = _scalar_run(ctx, "corr", cfg, style, c, integral, scale, size)
        ctx.count(["scalar-only", style, c, _pub(cfg), prog], nontrivial=cfg["nd"] >= 2 and c is not None and size % c != 0,
                  tag=f"scalar-only:{style}:nd{cfg['nd']}" + (":generated" if "gen" in prog else ""))
        t = Tokens(a)
        if got[(ci, c)] is None:
            continue
        if t.tok() != "ok" or not close(got[(ci, c)].real, t.flt(), rtol=1e-11, scale=scale):
            ctx.fail("corr", "ngrid.integrate:nonvec" + (":generated" if "gen" in prog else ""), f"scalar-only integrand ({style}), chunk size {c}: implementation {got[(ci, c)]!r}, {prog} answers {a[:60]}",
                     witness=dict(_pub(cfg), style=style, chunk=c))


def _oracle_scalar(ctx, cfg, style, chunks=None):
    """The property for an integrand that works on single points only: every chunk size against the brute-force nested sum."""
    doms, tab, integral, scale, size = _scalar_reference(cfg, style)
    for c in (chunks or sorted({1, 2, max(1, size - 1), size + 1}) + [None]):
        _scalar_run(ctx, "oracle", cfg, style, c, integral, scale, size)
    ctx.tagc("oracle:scalar-only:" + style)


def _same_struct(a, b):
    return (a[0] == b[0] and a[2] == b[2] and len(a[1]) == len(b[1])
            and all(len(p) == len(q) and all(np.array_equal(np.asarray(x), np.asarray(y)) for x, y in zip(p, q)) for p, q in zip(a[1], b[1])))


def _struct_of(mg):
    return (int(mg.size), list(mg.points), [float(x) for x in mg.weights])


def _refusal_calls(cfg, doms, k):
    """k-th way of calling the two refusing methods -> (driver line tail, callable on a multi-domain grid)"""
    nfun = cfg["total"]
    centers = [[0.0, 0.0, 0.0]] if k % 2 == 0 else [[0.5, -1.0, 2.0], [0.0, 0.0, 0.0]]
    vals = [float(i % 5) - 1.5 for i in range(min(nfun, 12))]
    orders = [2, 0, 3, 1, -1][k % 5]
    tm = ["default", "cartesian", "radial", "pure", "pure-radial", "nonsense"][k % 6]
    ro = ["default", "0", "1"][k % 3]
    line = f"{orders} {tm} {ro} {_spec(cfg)} {len(centers)} 3 {' '.join(f2b(x) for c in centers for x in c)} {fvec(vals)}"

    def call(mg):
        kw = {}
        if tm != "default":
            kw["type_mom"] = tm
        if ro != "default":
            kw["return_orders"] = bool(int(ro))
        if k % 4 == 0 and tm != "default" and ro != "default":
            return mg.moments(orders, np.array(centers), np.array(vals), tm, bool(int(ro)))          # all positional
        return mg.moments(orders, np.array(centers), np.array(vals), **kw)
    return line, call


def corr(ctx: Ctx):
    ng = importlib.import_module("grid.ngrid")
    bg = importlib.import_module("grid.basegrid")
    ncfg = ctx.n(500, 10000)
    cap = 500 if not ctx.thorough else 2401
    # always present: three and four *distinct* grids of different sizes (list mode), the same object listed 2-3 times,
    # repeated-grid mode with 2-3 domains; then the random configurations
    fixed = [(3, "list"), (4, "list"), (3, "list"), (2, "list-same"), (3, "list-same"), (2, "repeat"), (3, "repeat"), (1, "list"), (1, "repeat")]
    cfgs = [_config(ctx, 300, nd, mode) for nd, mode in fixed]
    # round 3, always present --------------------------------------------------------------------------------------
    # class 12: every domain a single point; a one-point domain first / in the middle / last; one grid object in
    # non-adjacent positions (A, B, A) and (A, B, A, B); num_domains = 1 with one point; one point repeated five times
    cfgs += [_config(ctx, 300, 1, "list", sizes=[1]), _config(ctx, 300, 3, "list", sizes=[1, 1, 1]), _config(ctx, 300, 4, "repeat", sizes=[1]),
             _config(ctx, 300, 3, "list", sizes=[1, 4, 3]), _config(ctx, 300, 3, "list", sizes=[4, 1, 3]), _config(ctx, 300, 3, "list", sizes=[4, 3, 1]),
             _config(ctx, 300, 3, "list-aba"), _config(ctx, 300, 4, "list-aba"), _config(ctx, 300, 1, "repeat", sizes=[1]),
             _config(ctx, 300, 5, "repeat", sizes=[1]), _config(ctx, 300, 2, "list-same", sizes=[1])]
    # class 8: an integrand that is exactly zero everywhere / on the leading block / on half of the first domain; a leading
    # block of zero weights; a first grid of zero weights only; values and weights of extreme magnitude
    cfgs += [_config(ctx, 300, 2, "list", plain=True, zero="all"), _config(ctx, 300, 3, "list", plain=True, zero="lead"),
             _config(ctx, 300, 2, "repeat", plain=True, zero="lead"), _config(ctx, 300, 3, "list", plain=True, zero="mid"),
             _config(ctx, 300, 1, "list", plain=True, zero="lead", sizes=[6]),
             _config(ctx, 300, 3, "list", plain=True, zero_w="lead"), _config(ctx, 300, 2, "list", plain=True, zero_w="all-first"),
             _config(ctx, 300, 2, "repeat", plain=True, zero_w="lead"), _config(ctx, 300, 3, "list", plain=True, zero_w="some", zero="mid"),
             _config(ctx, 300, 2, "list", plain=True, fscale=1e-300), _config(ctx, 300, 3, "list", plain=True, fscale=1e-50),
             _config(ctx, 300, 2, "list", plain=True, fscale=1e-12), _config(ctx, 300, 3, "list", plain=True, fscale=1e12),
             _config(ctx, 300, 2, "repeat", plain=True, fscale=1e200), _config(ctx, 300, 3, "list", plain=True, wexp=[150, 0, -150]),
             _config(ctx, 300, 3, "list", plain=True, wexp=[-150, 12, 150], fscale=1e100), _config(ctx, 300, 3, "repeat", plain=True, wexp=[60]),
             _config(ctx, 300, 2, "list", plain=True, wexp=[-100, 0], fscale=1e-100),
             _config(ctx, 300, 2, "list", plain=True, shift=20), _config(ctx, 300, 3, "list-aba", plain=True, shift=10)]
    # the kind of the integrand's VALUES, both routes: complex128 / complex64 / Python complex (a plane wave on top of the real
    # value), np.longdouble, and kinds changing from point to point
    cfgs += [_config(ctx, 300, 2, "list", plain=True, ret="complex128"), _config(ctx, 300, 3, "list", plain=True, ret="complex128"),
             _config(ctx, 300, 1, "list", plain=True, ret="complex128"), _config(ctx, 300, 2, "repeat", plain=True, ret="complex64"),
             _config(ctx, 300, 3, "list-aba", plain=True, ret="pycomplex"), _config(ctx, 300, 1, "repeat", plain=True, ret="pycomplex"),
             _config(ctx, 300, 2, "list", plain=True, ret="mixed"), _config(ctx, 300, 3, "repeat", plain=True, ret="mixed"),
             _config(ctx, 300, 2, "list", plain=True, ret="longdouble"), _config(ctx, 300, 1, "list", plain=True, ret="longdouble"),
             _config(ctx, 300, 2, "list", plain=True, ret="complex128", zero="lead"), _config(ctx, 300, 2, "list", plain=True, ret="complex128", fscale=1e-300)]
    cfgs += _round4_configs(ctx)
    nfixed = len(cfgs)
    # class 7: the only literal threshold of integrate is the default chunk size 6000: totals next to it (the default
    # then splits into 6000 + 1 / 6000 + 84 / does not split), called with the default and with explicit sizes around it
    big = [(2, "list", [17, 353]), (2, "repeat", [78])] + ([(2, "list", [75, 80]), (2, "list", [7, 857]), (3, "list", [19, 18, 18])] if ctx.thorough else [])
    cfgs += [_config(ctx, 10 ** 6, nd, mode, sizes=sz, plain=True) for nd, mode, sz in big]
    for c in cfgs[nfixed:]:
        c["_big"] = True
    # class 21: totals just past a power of two, not a multiple of any 2^k or {1,2,5} 10^k, with chunk sizes that give more than 1024
    # chunks / leave a remainder of one / are powers of two
    for sz, chunks in (([25, 41], [1, 512, 1024, 1025, 1026]), ([17, 241], [4, 1000, 2048, 4096])):
        cfgs.append(_config(ctx, 10 ** 6, 2, "list", sizes=sz, plain=True, layout="c", ret="float64"))
        cfgs[-1]["_big"] = chunks
    nfixed = len(cfgs)
    cfgs += [_config(ctx, cap if i % 5 else 60) for i in range(max(0, ncfg - len(cfgs)))]
    lines, meta = [], []
    for ci, cfg in enumerate(cfgs):
        try:
            mg, grids, doms = _build(cfg)
            f = Integrand(**cfg["par"])
            if intact(cfg, grids, doms):
                raise RuntimeError("after construction: " + intact(cfg, grids, doms))
            tab = _table(doms, f)
        except Exception as e:
            # the configuration cannot even be set up on this tree: recorded with the configuration (oracle_at evaluates the property there), the others go on
            ctx.fail("corr", "ngrid.__init__:setup", f"building the grids / tabulating the integrand raised {type(e).__name__}: {e}", witness=_pub(cfg))
            cfg["_ops"] = []
            continue
        cfg["_tab"] = tab
        spec = _spec(cfg)
        # a complex-valued integrand goes to the (real) model as two tables, real and imaginary parts (the nested product sum
        # is linear over the reals; the theorems hold over every commutative semiring, the complex numbers included)
        parts = [("re", fvec([z.real for z in tab]))] + ([("im", fvec([z.imag for z in tab]))] if cfg["par"]["ret"] in COMPLEX_RET else [])
        ops = [("struct", None, "struct " + spec), ("vec", None, f"vec {spec}")]
        cs = _chunk_sizes(cfg["total"])
        if cfg.get("_big"):
            ops = ops[1:]
            cs = [5999, 6000, 6001, cfg["total"] - 6000] if cfg["_big"] is True else list(cfg["_big"])
        elif cfg["total"] > 80:
            keep = ctx.rng.sample(cs, 3)
            nd_ = [c for c in cs if cfg["total"] % c and c < cfg["total"]]
            if nd_:
                keep.append(ctx.rng.choice(nd_))
            cs = sorted(set(keep))
        if ci % 7 == 0:
            cs = [0] + cs
        for c in cs:
            if c >= 0:
                ops.append(("nonvec", c, f"nonvec {c} {spec}"))
        if ci % 6 == 0 or cfg.get("_big"):
            ops.append(("nonvec", None, f"nonvec 6000 {spec}"))          # the default chunk size of the code
        if ci % 9 == 0:
            ops.append(("vecbad", None, f"vecbad {spec}"))
        cfg["_ops"] = [(k, c) for k, c, _ in ops if k in ("vec", "nonvec")]
        for kind, c, text in ops:
            for part, tabtext in (parts if kind != "struct" else [("re", "")]):
                for who in ("model", "generated"):
                    lines.append((("C18." if who == "model" else "C18.gen-") + text + " " + tabtext).rstrip())
                    meta.append((ci, kind, c, who, part))
    ans = driver_batch(lines)
    built = {}
    memo = {}
    model_ans = {}
    parts = _Parts(ctx, "corr")

    def one(ci, kind, c, who, part, a):
        cfg = cfgs[ci]
        if ci not in built:
            built.clear()
            memo.clear()
            built[ci] = _build(cfg) + (Integrand(**cfg["par"]),)
            _variants(ctx, cfg)
        mg, grids, doms, f = built[ci]
        pub = _pub(cfg)
        # what is hashed / sampled for the evidence: the whole configuration, for the 6000-point ones its description
        case = pub if not cfg.get("_big") else dict(mode=cfg["mode"], nd=cfg["nd"], sizes=[len(w) for w in cfg["wts"]], par=cfg["par"], big=True)
        total = cfg["total"]
        wit = dict(pub, op=kind, chunk=c, answered_by=who)
        sfx = "" if who == "model" else ":generated"
        ret = cfg["par"]["ret"]
        if kind == "struct":
            ctx.count(["struct", who, case], nontrivial=cfg["nd"] >= 2, tag=f"struct:{cfg['mode']}:nd{cfg['nd']}" + sfx)
            t = Tokens(a)
            if t.tok() != "ok":
                ctx.fail("corr", "ngrid.struct" + sfx, f"{who} rejected a valid configuration: {a}", witness=wit)
                return
            msize = t.nat()
            r, cc = t.nat(), t.nat()
            combos = [[t.nat() for _ in range(cc)] for _ in range(r)]
            mw = t.fvec()
            if "struct" not in memo:
                memo["struct"] = _struct_of(mg)
                # asked again after other calls, and on a second object built from the same data
                try:
                    mg.integrate(f) if total <= 200 else None
                except Exception:                 # reported by the `vec` operation of this configuration
                    pass
                again = _struct_of(mg)
                # the lists made from what was handed out are the caller's: reversed / overwritten, then asked again (class 9)
                again[1].reverse()
                wl = np.array(again[2])
                wl *= 0.0
                again[2][:] = [0.0] * len(again[2])
                third = _struct_of(mg)
                mg2 = _build(cfg)[0]
                second = _struct_of(mg2)
                for label, other in (("asked twice", third), ("object rebuilt", second)):
                    if not _same_struct(other, memo["struct"]):
                        ctx.fail("corr", "ngrid.struct:state", f"size / points / weights differ when {label}", witness=wit)
            isize, ipts, iw = memo["struct"]
            if isize != msize or len(ipts) != r or len(iw) != len(mw):
                ctx.fail("corr", "ngrid.size" + sfx, f"size: implementation {isize} (points {len(ipts)}, weights {len(iw)}), {who} {msize} ({r}, {len(mw)})", witness=wit)
                return
            okp = all(
                len(tp) == len(cb) and all(np.array_equal(np.asarray(x), np.asarray(d.points[i])) for x, d, i in zip(tp, doms, cb))
                for tp, cb in zip(ipts, combos)
            )
            if not okp:
                ctx.fail("corr", "ngrid.points" + sfx, f"enumerated points differ from the product order of the {who}", witness=wit)
            if not all(close(x, y, rtol=1e-13, atol=0.0) for x, y in zip(iw, mw)):
                ctx.fail("corr", "ngrid.weights" + sfx, f"enumerated weights differ from those of the {who}", witness=wit)
            return
        if "scale" not in memo:
            wprod = np.ones(())
            for d in doms:
                wprod = np.multiply.outer(wprod, d.weights)
            memo["scale"] = float(np.abs(wprod.ravel() * np.array(cfg["_tab"])).sum())          # sum of |w f|, f complex
            cfg["_scale"] = memo["scale"]
        scale = memo["scale"]
        key = (kind, c)
        if key not in memo:
            def call():
                try:
                    if kind == "vecbad":
                        if ci % 18 == 0:                          # one value too few / an (N, 1) column instead of (N,)
                            return "ok", complex(mg.integrate(lambda *xs: np.asarray(f(*xs))[1:]))
                        return "ok", complex(mg.integrate(lambda *xs: np.asarray(f(*xs)).reshape(-1, 1)))
                    res = run(mg, f, cfg, kind, c)
                    # the kind of the result follows the kind of the values (c = 0 sums nothing: outside the property)
                    if c != 0 and _result_kind(res) not in _expected_kind(ret, cfg.get("layout")):
                        ctx.fail("corr", f"ngrid.integrate:{kind}:result-kind", f"{kind} c={c}: integrand values of kind {ret} give a result of kind "
                                 f"{_result_kind(res)} ({type(res).__name__} {res!r}), expected {' or '.join(_expected_kind(ret, cfg.get("layout")))}", witness=wit)
                    return "ok", complex(res)
                except ValueError:
                    return "value-error", None
                except Exception as e:                      # nothing else is an accepted outcome
                    return f"raised {type(e).__name__}: {e}", None
                finally:
                    # the grids, their arrays and the caller's list after EVERY call (also one that raised)
                    bad = intact(cfg, grids, doms)
                    if bad and not memo.get("modified"):
                        memo["modified"] = True
                        ctx.fail("corr", "ngrid.integrate:grid-modified", f"after integrate ({kind}, chunk {c}; integrand {cfg['par']['kind']} / values handed back as {ret}): {bad}", witness=wit)
            iv = call()
            # the same call again on the same object, after a call of the other route (identical answer required)
            if (ci + len(memo)) % 3 == 0 and total <= 300:
                try:
                    run(mg, f, cfg, "vec" if kind != "vec" else "nonvec", None)
                except Exception:                 # reported by the operation itself
                    pass
                iv2 = call()
                ctx.distribution["variant:called-twice"] = ctx.distribution.get("variant:called-twice", 0) + 1
                if iv2 != iv and not (iv[1] is not None and iv2[1] is not None and iv[1] != iv[1] and iv2[1] != iv2[1]):
                    ctx.fail("corr", "ngrid.integrate:state", f"{kind} c={c}: first answer {iv}, the same call again gives {iv2}", witness=wit)
            memo[key] = iv
        iv = memo[key]
        if kind == "vec":
            ctx.count(["vec", who, part, case], nontrivial=cfg["nd"] >= 2, tag="vec:" + ("shortcut" if cfg["nd"] == 1 else cfg["mode"]) + sfx)
        elif kind == "vecbad":
            ctx.count(["vecbad", who, part, case], nontrivial=False, tag="vec:wrong-shape" + (":drop-one" if ci % 18 == 0 else ":column") + sfx)
        else:
            cc = 6000 if c is None else c
            nontriv = cfg["nd"] >= 2 and cc >= 1 and total % cc != 0
            ctx.count(["nonvec", who, c, part, case], nontrivial=nontriv,
                      tag="nonvec:" + ("default" if c is None else "c=0" if c == 0 else "c=1" if c == 1 else "c>total" if c > total else "c=total" if c == total
                                       else "divides" if total % c == 0 else "not-dividing") + (":total>6000" if total > 6000 else "") + sfx)
        t = Tokens(a)
        tag = t.tok()
        if tag != iv[0]:
            ctx.fail("corr", f"ngrid.integrate:{kind}" + sfx, f"{kind} c={c}: implementation {iv}, {who} {a}", witness=wit)
            return
        if tag == "ok":
            mv = t.flt()
            if who == "model" and kind in ("vec", "nonvec"):
                model_ans[(ci, kind, c, part)] = mv
            got = iv[1].real if part == "re" else iv[1].imag
            if not close(got, mv, rtol=_rtol(cfg, 1e-11), scale=scale):
                ctx.fail("corr", f"ngrid.integrate:{kind}" + sfx, f"{kind} c={c}: implementation {iv[1]!r}, its {'real' if part == 're' else 'imaginary'} part by the {who} {mv!r} "
                         f"(scale {scale:.3g}; integrand values of kind {ret})", witness=wit)
            if part == "re" and ret not in COMPLEX_RET and iv[1].imag != 0.0:
                ctx.fail("corr", f"ngrid.integrate:{kind}" + sfx, f"{kind} c={c}: a real-valued integrand ({ret}) gives the complex result {iv[1]!r}", witness=wit)

    for (ci, kind, c, who, part), a in zip(meta, ans):
        parts.run("ngrid.corr", lambda: one(ci, kind, c, who, part, a), witness=lambda: dict(_pub(cfgs[ci]), op=kind, chunk=c))

    parts.run("ngrid.histories", lambda: _histories(ctx, cfgs, model_ans, nfixed))
    parts.run("ngrid.refusals", lambda: _refusals(ctx, cfgs, nfixed))
    parts.run("ngrid.modified-components", lambda: _mut_corr(ctx))
    parts.run("ngrid.integrate:pointwise:scalar-only", lambda: _scalar_corr(ctx))
    parts.run("ngrid._chunked_iterator", lambda: _corr_chunks(ctx, ng))
    parts.run("ngrid.__init__", lambda: _corr_constructor(ctx, ng, bg))
    parts.finish()


def _mut_corr(ctx):
    """Correspondence after the components were modified (round 5): the same steps on the live objects; after every step size /
    enumerated points / enumerated weights / both routes with several chunk sizes, in shuffled order, against the hand model and
    the generated programs evaluated on the components as they are now."""
    bg, ng = importlib.import_module("grid.basegrid"), importlib.import_module("grid.ngrid")
    apply_, observe = _ns["mut_apply"], _ns["mut_observe"]
    plans, lines, meta = [], [], []
    for pi, cfg in enumerate(_mut_configs(ctx, ctx.n(40, 400))):
        steps, orders = _mut_plan(ctx, cfg)
        f = Integrand(**cfg["par"])
        states = mut_states(cfg, steps)
        plans.append((cfg, steps, orders, states))
        for s, (doms, _) in enumerate(states):
            spec = (f"repeat {cfg['nd']} 1 {fvec(list(doms[0][1]))}" if cfg["mode"] == "repeat"
                    else f"list {len(doms)} {len(doms)} " + " ".join(fvec(list(d[1])) for d in doms))
            tab = [complex(np.asarray(f(*[d[0][i] for d, i in zip(doms, idx)]))) for idx in np.ndindex(*[len(d[1]) for d in doms])]
            parts = [("re", fvec([z.real for z in tab]))] + ([("im", fvec([z.imag for z in tab]))] if cfg["par"]["ret"] in COMPLEX_RET else [])
            for who, what in orders[s]:
                if who != "A" or what in ("points", "weights"):
                    continue
                for part, tabtext in (parts if what != "size" else [("re", "")]):
                    text = "struct " + spec if what == "size" else (f"vec {spec} {tabtext}" if what[0] == "vec" else f"nonvec {6000 if what[1] is None else what[1]} {spec} {tabtext}")
                    for prog in ("C18.", "C18.gen-"):
                        lines.append(prog + text)
                        meta.append((pi, s, what, part, prog))
    answers = {}
    for m_, a in zip(meta, driver_batch(lines)):
        answers[m_] = a
    for pi, (cfg, steps, orders, states) in enumerate(plans):
        pub = dict(_pub(cfg), steps=steps, orders=orders)
        try:
            mg = build(cfg, bg.Grid, ng.MultiDomainGrid)[0]
        except Exception as e:
            ctx.fail("corr", "ngrid.__init__:setup", f"building the grids raised {type(e).__name__}: {e}", witness=pub)
            continue
        f = Integrand(**cfg["par"])
        for s, (doms, _) in enumerate(states):
            if s:
                try:
                    apply_(mg, steps[s - 1], bg.Grid)
                except Exception as e:
                    ctx.fail("corr", "ngrid.modified-components:step", f"the step {steps[s - 1]} raised {type(e).__name__}: {e}", witness=pub)
                    break
            scale = None
            for who, what in orders[s]:
                if who != "A":
                    continue
                try:
                    got = observe(mg, f, cfg, what)
                except Exception as e:
                    ctx.fail("corr", _mut_key(what), f"after the steps {steps[:s]}: {what} raised {type(e).__name__}: {e}", witness=pub)
                    continue
                ctx.count(["modified", pi, s, what], nontrivial=s >= 1 and cfg["nd"] >= 2, tag="modified-components:" + (what if isinstance(what, str) else what[0]) + (":after-" + steps[s - 1][0] if s else ":before"))
                if what in ("points", "weights", "size"):
                    for prog in ("C18.", "C18.gen-"):
                        t = Tokens(answers.get((pi, s, "size", "re", prog), "missing")) if any(w == "size" for wh, w in orders[s] if wh == "A") else None
                        if t is None or t.tok() != "ok":
                            continue
                        msize = t.nat()
                        r, cc = t.nat(), t.nat()
                        combos = [[t.nat() for _ in range(cc)] for _ in range(r)]
                        mw = t.fvec()
                        bad = None
                        if what == "size" and got != msize:
                            bad = f"size {got}, {prog}struct {msize}"
                        elif what == "weights" and not (len(got) == len(mw) and all(close(x, y, rtol=1e-13) for x, y in zip(got, mw))):
                            bad = f"enumerated weights {got[:4]}..., {prog}struct {mw[:4]}..."
                        elif what == "points" and not (len(got) == len(combos) and all(all(np.array_equal(x, np.asarray(d[0][i], dtype=float)) for x, d, i in zip(tp, doms, cb)) for tp, cb in zip(got, combos))):
                            bad = f"the enumerated points are not the product order of {prog}struct over the grids' current points"
                        if bad:
                            ctx.fail("corr", _mut_key(what) + ("" if prog == "C18." else ":generated"), f"after the steps {steps[:s]}: {bad}", witness=pub)
                    continue
                if scale is None:
                    scale = mut_reference(doms, f)[4]
                for part in ("re", "im"):
                    for prog in ("C18.", "C18.gen-"):
                        a = answers.get((pi, s, what, part, prog))
                        if a is None:
                            continue
                        t = Tokens(a)
                        if t.tok() != "ok":
                            ctx.fail("corr", _mut_key(what) + ("" if prog == "C18." else ":generated"), f"after the steps {steps[:s]}: {what}: implementation {got!r}, {prog} answers {a}", witness=pub)
                            continue
                        mv = t.flt()
                        if not close(got.real if part == "re" else got.imag, mv, rtol=1e-11, scale=scale):
                            ctx.fail("corr", _mut_key(what) + ("" if prog == "C18." else ":generated"),
                                     f"after the steps {steps[:s]}: {what}: implementation {got!r}, its {'real' if part == 're' else 'imaginary'} part by {prog} on the grids as they are now {mv!r}", witness=pub)
        ctx.traces += 1


def _corr_chunks(ctx, ng):
    # _chunked_iterator lengths (sizes as int and as np.int64)
    pairs = [(c, n) for c in (0, 1, 2, 3, 5, 7, 6000) for n in (0, 1, 2, 5, 6, 7, 14, 15)]
    for op in ("C18.chunks", "C18.gen-chunks"):
        ans = driver_batch([f"{op} {c} {n}" for c, n in pairs])
        for (c, n), a in zip(pairs, ans):
            impl = [len(x) for x in ng._chunked_iterator(iter(range(n)), c if (c + n) % 2 else np.int64(c))]
            # the same lengths when every item is falsy (0, 0.0, False) or an array: a chunk is a list, never "empty" by value
            for items in ([0] * n, [0.0] * n, [np.zeros(2)] * n):
                if [len(x) for x in ng._chunked_iterator(iter(items), c)] != impl:
                    ctx.fail("corr", "ngrid._chunked_iterator:falsy-items", f"_chunked_iterator of {n} items equal to {items[:1]} with size {c} has other chunk lengths than for range({n}): {impl}")
            ctx.count([op, c, n], nontrivial=False, tag="chunks" + (":generated" if "gen" in op else ""))
            if a != "ok " + " ".join(map(str, [len(impl)] + impl)):
                ctx.fail("corr", "ngrid._chunked_iterator" + (":generated" if "gen" in op else ""),
                         f"_chunked_iterator(range({n}), {c}) has chunk lengths {impl}, {op} answers {a}")


def _corr_constructor(ctx, ng, bg):
    # constructor rejections
    g1 = bg.Grid(np.array([0.0, 1.0]), np.array([1.0, 1.0]))
    g2 = bg.Grid(np.zeros((3, 3)), np.ones(3))
    cases = [("list", None, []), ("list", None, [g1]), ("list", None, [g1, g2]), ("repeat", 2, [g1, g2]), ("repeat", 0, [g1]),
             ("repeat", 1, [g1]), ("repeat", 3, [g2]), ("repeat", 2, []), ("list", None, [g1, g1, g1]), ("repeat", 2, [g1, g1])]
    for op in ("C18.new", "C18.gen-new"):
        ans = driver_batch([f"{op} {m} {nd or 0} {len(gl)} " + " ".join(str(g.size) for g in gl) for m, nd, gl in cases])
        for (m, nd, gl), a in zip(cases, ans):
            try:
                ng.MultiDomainGrid(gl, num_domains=nd)
                impl = "ok"
            except ValueError:
                impl = "value-error"
            ctx.count([op, m, nd, len(gl)], nontrivial=False, tag="constructor:" + impl + (":generated" if "gen" in op else ""))
            if impl != a.strip():
                ctx.fail("corr", "ngrid.__init__" + (":generated" if "gen" in op else ""),
                         f"MultiDomainGrid({len(gl)} grids, num_domains={nd}): implementation {impl}, {op} answers {a}")


def _round4_configs(ctx):
    """Present in every run (round 4)."""
    out = []
    # integrands that hand back their last argument itself (the last grid's own point array in the vectorised route) / a view of
    # it / a persistent buffer / a write-protected array; the grids are checked after every call
    for nd, mode, dims in ((1, "list", [1]), (2, "list", [3, 1]), (3, "list", [1, 2, 1]), (2, "repeat", [1]), (3, "list-same", [1]), (2, "list", [1, 3]),
                           (2, "list", [1, 11]), (3, "list-aba", [2, 1]), (2, "list-shared", [1])):
        out.append(_config(ctx, 300, nd, mode, dims=dims, kind="lastarg", layout=ctx.rng.choice(["c", "view", "strided"])))
    out += [_config(ctx, 300, 2, "list", plain=True, ret="memo"), _config(ctx, 300, 3, "repeat", plain=True, ret="memo"), _config(ctx, 300, 1, "list", plain=True, ret="memo"),
            _config(ctx, 300, 3, "list", plain=True, ret="readonly"), _config(ctx, 300, 1, "list", plain=True, ret="readonly")]
    # class 14: what the arrays inside the grids are
    for i, lay in enumerate(("negstride", "fortran", "view", "int", "int32", "float32", "boolw", "readonly", "strided", "float16", "longdouble")):
        out.append(_config(ctx, 300, 2 + i % 2, ["list", "repeat", "list-aba"][i % 3] if i % 3 != 2 else "list", layout=lay, dims=None if lay != "fortran" else [3, 2, 3][: 2 + i % 2]))
        out.append(_config(ctx, 300, 1 + i % 3, "list", layout=lay, kind="lastarg" if i % 2 else None))
    # class 15: every way of spelling the constructor and integrate arguments
    for ctor in ("default", "positional", "kw", "kw-reversed"):
        for call in ("kw", "positional", "explicit", "allkw"):
            out.append(_config(ctx, 120, 2 + (len(out) % 2), "repeat" if len(out) % 3 == 0 else "list", ctor=ctor, call=call))
    # class 16: distinct grid objects on the same points array and the same weights array
    out += [_config(ctx, 300, 2, "list-shared"), _config(ctx, 300, 3, "list-shared", layout="view"), _config(ctx, 300, 4, "list-shared", sizes=[2])]
    # class 20: every pair of sizes different with a 1 or a 2 among them, point arrays that are square (N = dimension), N < dimension
    for sizes, dims in (([1, 2, 3], [3, 2, 1]), ([3, 1, 2], [2, 3, 3]), ([2, 3, 1], [3, 3, 2]), ([3, 2], [3, 2]), ([2, 3], [3, 2]), ([2, 2], [2, 2]),
                        ([1, 2], [3, 3]), ([2, 1], [2, 3]), ([1, 1], [11, 3]), ([3], [3]), ([2], [2]), ([1, 3, 2, 2], [1, 3, 2, 11])):
        out.append(_config(ctx, 300, len(sizes), "list", sizes=sizes, dims=dims))
    out += [_config(ctx, 300, 3, "repeat", sizes=[2], dims=[3]), _config(ctx, 300, 2, "repeat", sizes=[3], dims=[3]), _config(ctx, 300, 3, "list-aba", sizes=[2, 3], dims=[3, 2])]
    return out


def _events(rng, cfg, n):
    """n calls that end in an exception (class 18): the integrand failing at its k-th call in either route, a negative / fractional
    chunk size, a vectorised integrand of the wrong length, the refusing methods"""
    pool = [("raise-vec", 1), ("raise-vec", 2), ("raise-nonvec", (rng.choice([1, 2, 6000]), rng.randint(1, cfg["total"]))), ("badchunk", -1),
            ("badchunk", 2.5), ("vecbad", None), ("moments", None), ("get_localgrid", None)]
    return rng.sample(pool, n)


def _histories(ctx, cfgs, model_ans, nfixed):
    """Classes 10 / 11 / 16 / 18: on freshly built objects a shuffled sequence of calls -- the vectorised route, the point-by-point
    route with several chunk sizes (changed from call to call, each used at least twice); the first call is whichever comes
    first in the shuffle (also a non-default chunk size on an object that never integrated before).  The calls alternate
    between TWO multi-domain grids built from the same list object and use the same integrand object; in between: size /
    points / weights, and calls that end in an exception (the integrand failing half-way in either route, bad chunk sizes,
    a vectorised integrand of the wrong length, the refusing methods).  Every answer is compared with the model's answer for
    that call and must be bit-identical to the earlier answer of the same call; after every call and every exception the
    caller's list, the grids, their arrays and the arrays around them must be as they were built."""
    parts = _Parts(ctx, "corr")
    for ci, cfg in enumerate(cfgs):
        if not (ci < nfixed or ci % 3 == 0) or cfg["total"] > 320 or cfg.get("_big"):
            continue
        parts.run("ngrid.integrate:history", lambda: _history_one(ctx, ci, cfg, model_ans), witness=lambda: _pub(cfg))
    parts.finish()


def _history_one(ctx, ci, cfg, model_ans):
    if not cfg.get("_ops"):
        return
    ops = sorted({o for o in cfg["_ops"] if (o[1] is None or o[1] >= 1) and (ci,) + o + ("re",) in model_ans}, key=lambda o: (o[0], o[1] or 0))
    if len(ops) < 2:
        return
    seq = ops * 2
    ctx.rng.shuffle(seq)
    seq = seq[:10] + [seq[0]]
    where = ctx.rng.sample(range(len(seq)), 4)
    events = [("struct", None)] + _events(ctx.rng, cfg, 3)
    pub = _pub(cfg)
    try:
        mg, listed, doms = _build(cfg)
        mgs = [mg, type(mg)(listed, num_domains=cfg["nd"] if cfg["mode"] == "repeat" else None)]       # the same list object twice
    except Exception as e:
        ctx.fail("corr", "ngrid.__init__:raises", f"building two multi-domain grids from one list raised {type(e).__name__}: {e}", witness=pub)
        return
    f = Integrand(**cfg["par"])
    seen, trace = {}, []
    first = None
    ok = True

    def check(what):
        bad = intact(cfg, listed, doms)
        if bad:
            ctx.fail("corr", "ngrid.integrate:grid-modified", f"after {what} of the history {trace}: {bad}", witness=dict(pub, history=trace))
        return not bad

    for i, (kind, c) in enumerate(seq):
        if i in where:
            ek, ea = events[where.index(i)]
            if ek == "struct":
                first = first or _struct_of(mgs[i % 2])
                if not _same_struct(_struct_of(mgs[i % 2]), first):
                    ctx.fail("corr", "ngrid.struct:history", f"size / points / weights changed after the calls {trace}", witness=dict(pub, history=trace))
            else:
                name = event(mgs[i % 2], f, cfg, ek, ea)
                if ek in ("moments", "get_localgrid") and name != "NotImplementedError":
                    ctx.fail("corr", "ngrid.refusal:history", f"{ek} {'returned' if name is None else 'raised ' + name} instead of raising NotImplementedError after {trace}", witness=dict(pub, history=trace))
                ctx.tagc(f"history:event:{ek}:{'raised' if name else 'returned'}")
            trace.append([ek, ea])
            ok = check(f"the call {ek} {ea}") and ok
        try:
            got = complex(run(mgs[i % 2], f, cfg, kind, c))
        except Exception as e:
            ctx.fail("corr", "ngrid.integrate:history", f"call {i} ({kind}, chunk {c}) of the history {trace} raised {type(e).__name__}: {e}", witness=dict(pub, history=trace + [[kind, c]], chunk=c))
            ok = False
            break
        trace.append([kind, c])
        ok = check(f"call {i} ({kind}, chunk {c})") and ok
        want = complex(model_ans[(ci, kind, c, "re")], model_ans.get((ci, kind, c, "im"), 0.0))
        if not _cclose(got, want, _rtol(cfg, 1e-11), cfg["_scale"]):
            ctx.fail("corr", "ngrid.integrate:history", f"call {i} ({kind}, chunk {c}) after {trace[:-1]}: implementation {got!r}, model {want!r}", witness=dict(pub, history=trace, chunk=c))
            ok = False
        if (kind, c) in seen and seen[(kind, c)] != got and not (got != got and seen[(kind, c)] != seen[(kind, c)]):
            ctx.fail("corr", "ngrid.integrate:history", f"call {i} ({kind}, chunk {c}) gives {got!r}, the same call earlier in the history {trace} gave {seen[(kind, c)]!r}", witness=dict(pub, history=trace, chunk=c))
            ok = False
        seen[(kind, c)] = got
    ctx.traces += 1
    ctx.count(["history", pub, trace], nontrivial=cfg["nd"] >= 2 and ok, tag="history:first=" + (seq[0][0] + ("" if seq[0][1] is None else ":chunk")), n=len(trace))


def _refusals(ctx, cfgs, nfixed):
    """get_localgrid / moments of a multi-domain grid refuse (NotImplementedError) for every way of calling them;
    the generated methods (Gen/NGrid.lean) answer the same."""
    sel = [ci for ci, cfg in enumerate(cfgs) if (ci < 12 or ci % 40 == 0) and not cfg.get("_big") and cfg.get("_ops")]
    lines, calls = [], []
    for n, ci in enumerate(sel):
        cfg = cfgs[ci]
        doms = None
        tail, call = _refusal_calls(cfg, doms, n)
        lines.append("C18.gen-moments " + tail)
        calls.append((ci, "moments", call))
        lines.append(f"C18.gen-localgrid {_spec(cfg)} {fvec([0.0, 0.5, 1.0][: 1 + n % 3])} {fvec([1.0 + n])}")
        calls.append((ci, "get_localgrid", (lambda mg, n=n: mg.get_localgrid(np.array([0.0, 0.5, 1.0][: 1 + n % 3]), 1.0 + n))))
    for (ci, name, call), a in zip(calls, driver_batch(lines)):
        mg = _build(cfgs[ci])[0]
        try:
            call(mg)
            impl = "ok"
        except NotImplementedError:
            impl = "not-implemented"
        except Exception as e:
            impl = f"raised {type(e).__name__}: {e}"
        ctx.count(["refusal", name, ci], nontrivial=False, tag=f"refusal:{name}:generated")
        if impl != a.strip():
            ctx.fail("corr", f"ngrid.{name}:generated", f"MultiDomainGrid.{name}: implementation {impl}, generated method {a}", witness=dict(_pub(cfgs[ci]), op=name))


SNIPPET = """import warnings; warnings.filterwarnings('ignore')
import math, numpy as np
from grid.basegrid import Grid
from grid.ngrid import MultiDomainGrid
{integrand_src}
{build_src}
cfg = {cfg!r}
mg, grids, doms = build(cfg, Grid, MultiDomainGrid)
f = Integrand(**cfg['par'])
terms = []
def rec(k, args, w):
    if k == len(doms):
        terms.append(w * complex(np.asarray(f(*args)))); return
    for i in range(doms[k].size):
        rec(k + 1, args + [doms[k].points[i]], w * float(doms[k].weights[i]))
rec(0, [], 1.0)
csum = lambda zs: complex(math.fsum(z.real for z in zs), math.fsum(z.imag for z in zs))       # complex arithmetic throughout
want, scale = csum(terms), math.fsum(abs(t) for t in terms) + 1e-300
kinds = {kinds!r}          # admissible kinds of the result for this kind of integrand values
def kind_of(x):
    x = np.asarray(x)
    return 'complex' if np.iscomplexobj(x) else 'longdouble' if x.dtype == np.longdouble and np.dtype(np.longdouble).itemsize > 8 else 'real'
what = {what!r}
try:
    if what == 'separable':
        for kind, c in {seq!r}:               # the calls made on this object before
            run(mg, f, cfg, kind, c)
        got = complex(run(mg, f, cfg, 'vec'))
        want = 1.0 + 0j
        for k, d in enumerate(doms):
            want = want * csum([float(d.weights[i]) * complex(f.factor(k, d.points[i])) for i in range(d.size)])
    elif what == 'history':
        # one freshly built object, the calls in this order; every answer is the product quadrature
        # (entries named in EVENTS are calls that end in an exception); after every call the caller's list, the grids and their
        # arrays are as they were built
        got, seq, seen = want, {seq!r}, {{}}
        for kind, c in seq:
            if kind in EVENTS:
                name = event(mg, f, cfg, kind, c)
                assert kind not in ('moments', 'get_localgrid') or name == 'NotImplementedError', f'{{kind}} of a multi-domain grid: {{name}} instead of NotImplementedError'
                assert intact(cfg, grids, doms) is None, f'history {{seq}}: after the call ({{kind}}, {{c}}): ' + str(intact(cfg, grids, doms))
                continue
            res = run(mg, f, cfg, kind, c)
            assert intact(cfg, grids, doms) is None, f'history {{seq}}: after the call ({{kind}}, chunk {{c}}): ' + str(intact(cfg, grids, doms))
            assert kind_of(res) in kinds, f'history {{seq}}: the call ({{kind}}, chunk {{c}}) hands back a result of kind {{kind_of(res)}} ({{res!r}}) for integrand values of kind {{cfg["par"]["ret"]}}'
            v = complex(res)
            assert seen.setdefault((kind, c), v) == v or v != v, f'history {{seq}}: the call ({{kind}}, chunk {{c}}) gives {{v!r}}, the same call earlier on this object gave {{seen[(kind, c)]!r}}'
            assert abs(v - want) <= {rtol} * scale, f'history {{seq}}: the call ({{kind}}, chunk {{c}}) gives {{v!r}}, nested product quadrature {{want!r}}'
    elif what == 'translated':
        # the same grids and integrand translated back by the (exactly representable) shift: identical integrals
        sh = cfg['par']['shift']
        cfg0 = dict(cfg, pts=[(np.array(p) - sh).tolist() for p in cfg['pts']], par=dict(cfg['par'], shift=0.0))
        mg0 = build(cfg0, Grid, MultiDomainGrid)[0]
        f0 = Integrand(**cfg0['par'])
        got, want = complex(run(mg, f, cfg, 'vec')), complex(run(mg0, f0, cfg0, 'vec'))
        assert complex(run(mg, f, cfg, 'nonvec', {chunk} or None)) == complex(run(mg0, f0, cfg0, 'nonvec', {chunk} or None)), 'point-by-point route differs on the translated grids'
        scale = 1e-5 * scale
    elif what == 'refusal':
        got = want
        for name, call in (('moments', lambda: mg.moments(1, np.zeros((1, 3)), np.ones(mg.size))), ('get_localgrid', lambda: mg.get_localgrid(np.zeros(3), 1.0))):
            try:
                call()
                raise AssertionError(f'MultiDomainGrid.{{name}} returned instead of raising NotImplementedError')
            except NotImplementedError:
                pass
        got = complex(run(mg, f, cfg, 'vec'))
    elif what == 'size':
        got, want, scale = int(mg.size), len(terms), 0
        assert got == want == len(list(mg.points)) == len(list(mg.weights)), (got, want)
        ws = [float(x) for x in mg.weights]
        ref = []
        def recw(k, w):
            if k == len(doms):
                ref.append(w); return
            for i in range(doms[k].size):
                recw(k + 1, w * float(doms[k].weights[i]))
        recw(0, 1.0)
        assert all(abs(a - b) <= 1e-12 * (abs(b) + 1e-300) for a, b in zip(ws, ref)), 'weights are not the product set in nested-loop order'
except AssertionError:
    raise
except Exception as e:
    raise AssertionError(f'{{what}}: raised {{type(e).__name__}}: {{e}}')
assert abs(got - want) <= {rtol} * scale, f'{{what}}: integrate gives {{got!r}}, nested product quadrature {{want!r}}'
"""


LIST_SNIPPET = """import warnings; warnings.filterwarnings('ignore')
import numpy as np
from grid.basegrid import Grid
from grid.ngrid import MultiDomainGrid
g = Grid(np.array([0.0, 0.5, 1.0]), np.array([0.25, 0.5, 0.25]))
mg = MultiDomainGrid([g] * {nd})
f = lambda *xs: (sum(np.asarray(x, dtype=float) for x in xs) ** 2).tolist() if np.ndim(xs[-1]) else float(sum(xs) ** 2)
want = float(mg.integrate(f, non_vectorized=True))
try:
    got = float(mg.integrate(f))
except Exception as e:
    raise AssertionError(f'vectorised route with a list-valued integrand raised {{type(e).__name__}}: {{e}}; point-by-point route gives {{want}}')
assert abs(got - want) <= 1e-12 * (1 + abs(want)), (got, want)
"""


class _Parts:
    """Independent parts of the oracle / the correspondence: an exception inside one part never hides what the others find.
    An exception whose innermost non-NumPy frame is library code is a failure of that part on the implementation
    (`<key>:raises`, with the part's witness and replay snippet); one that comes from this harness (or from the driver) is
    kept -- the first one -- and re-raised after all parts have run."""

    def __init__(self, ctx, stage):
        self.ctx, self.stage, self.first = ctx, stage, None
        self.lib = os.path.dirname(os.path.abspath(importlib.import_module("grid").__file__))

    def run(self, key, fn, witness=None, snippet=None):
        try:
            fn()
        except Exception as e:
            frames = [fr.filename for fr in traceback.extract_tb(e.__traceback__)]
            ours = [fn_ for fn_ in frames if fn_.startswith(self.lib) or fn_ == "<string>" or "/harness/" in fn_]
            if ours and ours[-1].startswith(self.lib):
                self.ctx.fail(self.stage, key + ":raises", f"{type(e).__name__}: {e} (raised inside {os.path.basename(ours[-1])})",
                              witness=witness() if callable(witness) else witness, snippet=snippet() if callable(snippet) else snippet)
            elif self.first is None:
                self.first = e

    def finish(self):
        if self.first is not None:
            raise self.first


LIB_SRC = '''
def lib_grid(spec):
    # a grid of the library from its description
    import warnings
    from grid import onedgrid as od
    from grid.angular import AngularGrid
    from grid.rtransform import BeckeRTransform
    with warnings.catch_warnings():
        warnings.simplefilter("ignore")
        if spec[0] == "Lebedev":
            return AngularGrid(degree=spec[1], method="lebedev")
        if spec[0] == "MultiExp":           # a DESCENDING radial grid with negative weights, as the library's decreasing maps produce it
            from grid.rtransform import MultiExpRTransform
            return MultiExpRTransform(1e-3, 1.5).transform_1d_grid(od.GaussLegendre(spec[1]))
        if spec[0] == "Reversed":           # a rule with its nodes in descending order
            from grid.basegrid import Grid
            g = od.GaussLegendre(spec[1])
            return Grid(g.points[::-1].copy(), g.weights[::-1].copy())
        if spec[0] == "Becke":              # radial grid on (0, inf): points out to 1e2 ... 1e4, weights over five orders of magnitude
            return BeckeRTransform(1e-4, spec[2]).transform_1d_grid(od.GaussChebyshev(spec[1]))
        return getattr(od, spec[0])(spec[1])
'''
exec(LIB_SRC, _ns)
lib_grid = _ns["lib_grid"]

LIB_SNIPPET = """import warnings; warnings.filterwarnings('ignore')
import math, numpy as np
from grid.ngrid import MultiDomainGrid
{integrand_src}
{lib_src}
specs, par = {specs!r}, {par!r}
doms = [lib_grid(s) for s in specs]
pristine = [(d.points.copy(), d.weights.copy()) for d in doms]
f = Integrand(**par)
mg = MultiDomainGrid(doms)
terms = []
def rec(k, args, w):
    if k == len(doms):
        terms.append(w * complex(f(*args))); return
    for i in range(doms[k].size):
        rec(k + 1, args + [doms[k].points[i]], w * float(doms[k].weights[i]))
rec(0, [], 1.0)
want = complex(math.fsum(t.real for t in terms), math.fsum(t.imag for t in terms)); scale = math.fsum(abs(t) for t in terms)
assert int(mg.size) == len(terms), (mg.size, len(terms))
for c in {chunks!r}:
    try:
        got = complex(mg.integrate(f) if c == 'vec' else mg.integrate(f, non_vectorized=True, integration_chunk_size=c))
    except Exception as e:
        raise AssertionError(f'{{specs}}: integrate ({{c}}) raised {{type(e).__name__}}: {{e}}')
    assert abs(got - want) <= 1e-10 * scale, f'{{specs}}: integrate ({{c}}) gives {{got!r}}, nested product quadrature {{want!r}}'
    assert all(np.array_equal(d.points, p) and np.array_equal(d.weights, w) for d, (p, w) in zip(doms, pristine)), f'{{specs}}: a grid was modified by integrate ({{c}})'
"""


def _real_grids(ctx, nd):
    """domains from the library's own grid classes, as descriptions (small ones; class 19: also Lebedev grids with negative
    weights, radial grids on (0, inf) whose points reach 1e2 ... 1e4 and whose weights span five orders of magnitude,
    Gauss-Laguerre)."""
    out = []
    for _ in range(nd):
        k = ctx.rng.randrange(9)
        if k == 7:
            out.append(("MultiExp", ctx.rng.randint(3, 8)))
        elif k == 8:
            out.append(("Reversed", ctx.rng.randint(2, 6)))
        elif k == 0:
            out.append(("GaussLegendre", ctx.rng.randint(2, 6)))
        elif k == 1:
            out.append(("Trapezoidal", ctx.rng.randint(2, 6)))
        elif k == 2:
            out.append(("Lebedev", 3))
        elif k == 3:
            out.append(("MidPoint", ctx.rng.randint(2, 5)))
        elif k == 4:
            out.append(("Becke", ctx.rng.choice([4, 8, 12]), ctx.rng.choice([1.5, 50.0])))
        elif k == 5:
            out.append(("GaussLaguerre", ctx.rng.randint(2, 8)))
        else:
            out.append(("Lebedev", 13) if not any(o[0] == "Lebedev" and o[1] == 13 for o in out) else ("GaussChebyshev", 5))
    return out


CTOR_SNIPPET = """import numpy as np
from grid.basegrid import Grid
from grid.ngrid import MultiDomainGrid
g1, g2 = Grid(np.array([0.0, 1.0]), np.array([1.0, 1.0])), Grid(np.zeros((3, 3)), np.ones(3))
rejected = [((), {{}}), (([],), {{}}), (((g1, g2),), {{}}), (([g1, 'x'],), {{}}), (([g1, g2], 2), {{}}), (([g1, g2],), dict(num_domains=2)), (([g1], 0), {{}}),
            (([g1], -1), {{}}), (([g1], 2.0), {{}}), (([g1], '2'), {{}}), ((None, 2), {{}})]
for args, kw in rejected:
    try:
        MultiDomainGrid(*args, **kw)
    except ValueError:
        continue
    except Exception as e:
        raise AssertionError(f'MultiDomainGrid{{args}}{{kw}} raised {{type(e).__name__}} instead of ValueError')
    raise AssertionError(f'MultiDomainGrid{{args}}{{kw}} was accepted')
accepted = [(([g1],), {{}}, 1, 2), (([g1, g2],), {{}}, 2, 6), (([g1, g2], None), {{}}, 2, 6), (([g2], 3), {{}}, 3, 27), ((), dict(grid_list=[g1], num_domains=1), 1, 2),
            ((), dict(num_domains=2, grid_list=[g2]), 2, 9), (([g1, g1, g1],), dict(num_domains=None), 3, 8)]
for args, kw, nd, size in accepted:
    mg = MultiDomainGrid(*args, **kw)
    assert mg.num_domains == nd and int(mg.size) == size == len(list(mg.points)) == len(list(mg.weights)), (args, kw, mg.num_domains, mg.size)
"""


def _oracle_constructor(ctx):
    """Class 15: every documented argument combination of the constructor -- which ones are rejected (both alternatives at once:
    several grids AND num_domains; no list; an empty list; something that is not a Grid; num_domains that is not a positive
    int) and what the accepted ones give (num_domains, size), positional / keyword / None spelled out."""
    try:
        exec(CTOR_SNIPPET.format(), {})
    except AssertionError as e:
        ctx.fail("oracle", "ngrid.__init__", str(e), witness=str(e), snippet=CTOR_SNIPPET.format())


def _oracle_cfg(ctx: Ctx, cfg, chunks=None, light=False):
    """The property at one configuration: size / enumeration / every route against an explicit nested-loop
    quadrature (recursion over the domains, math.fsum; no itertools, no model)."""
    mg, grids, doms = _build(cfg)
    f = Integrand(**cfg["par"])
    pub = _pub(cfg)
    terms, combos, wlist = [], [], []

    def rec(k, args, idx, w):
        if k == len(doms):
            terms.append(w * complex(np.asarray(f(*args))))
            combos.append(tuple(idx))
            wlist.append(w)
            return
        for i in range(doms[k].size):
            rec(k + 1, args + [doms[k].points[i]], idx + [i], w * float(doms[k].weights[i]))

    rec(0, [], [], 1.0)
    def csum(zs):               # complex arithmetic throughout: the reference for complex-valued integrands
        return complex(math.fsum(z.real for z in zs), math.fsum(z.imag for z in zs))

    want = csum(terms)
    scale = math.fsum(abs(t) for t in terms)
    ret = cfg["par"]["ret"]

    def snip(what, chunk=0, seq=()):
        return SNIPPET.format(integrand_src=INTEGRAND_SRC, build_src=BUILD_SRC, cfg=pub, what=what, chunk=chunk, seq=seq, kinds=_expected_kind(cfg["par"]["ret"], cfg.get("layout")), rtol=_rtol(cfg, 1e-10))

    # size / enumerations
    ipts, iw = list(mg.points), [float(x) for x in mg.weights]
    if not (int(mg.size) == len(terms) == len(ipts) == len(iw)):
        ctx.fail("oracle", "ngrid.size", f"size {mg.size}, {len(ipts)} points, {len(iw)} weights, product set has {len(terms)}",
                 witness=pub, snippet=snip("size"))
    else:
        for tp, wv, cb, ww in zip(ipts, iw, combos, wlist):
            if not all(np.array_equal(np.asarray(x), np.asarray(d.points[i])) for x, d, i in zip(tp, doms, cb)):
                ctx.fail("oracle", "ngrid.points", f"points are not the product set in nested-loop order at combination {cb}", witness=pub, snippet=snip("size"))
                break
            if not close(wv, ww, rtol=1e-13, atol=1e-300):
                ctx.fail("oracle", "ngrid.weights", f"weight of combination {cb} is {wv!r}, product of the weights {ww!r}", witness=pub, snippet=snip("size"))
                break

    calls = []                  # the calls of integrate made on `mg` so far: a failure is replayed as this history on a fresh object

    def attempt(key, what, chunk, fn, ref):
        if what != "separable":
            calls.append(("vec", None) if what == "vec" else ("nonvec", chunk))
        sn = snip("separable", seq=list(calls)) if what == "separable" else snip("history", seq=list(calls))
        try:
            try:
                res = fn()
            finally:
                bad = intact(cfg, grids, doms)
                if bad:
                    ctx.fail("oracle", "ngrid.integrate:grid-modified", f"after the calls {calls} of integrate (integrand {cfg['par']['kind']}, values handed back as {ret}): {bad}",
                             witness=dict(pub, history=list(calls)), snippet=snip("history", seq=list(calls)))
            if _result_kind(res) not in _expected_kind(ret, cfg.get("layout")):
                ctx.fail("oracle", "ngrid.integrate:result-kind", f"{what}" + (f" with chunk size {chunk}" if chunk is not None else "") + f": integrand values of kind {ret} give a result of kind "
                         f"{_result_kind(res)} ({type(res).__name__} {res!r}), expected {' or '.join(_expected_kind(ret, cfg.get("layout")))}; nested product quadrature in complex arithmetic {ref!r}",
                         witness=dict(pub, chunk=chunk, history=list(calls)), snippet=sn)
            got = complex(res)
        except Exception as e:
            ctx.fail("oracle", key, f"{what}: raised {type(e).__name__}: {e} (integrand values handed back as {cfg['par']['ret']}, chunk size as {cfg.get('ctype')}; calls on this object so far {calls})",
                     witness=dict(pub, chunk=chunk, history=list(calls)), snippet=sn)
            return None
        if not _cclose(got, ref, _rtol(cfg, 1e-10), scale):
            ctx.fail("oracle", key, f"{what}" + (f" with chunk size {chunk}" if chunk is not None else "") + f": integrate gives {got!r}, nested product quadrature {ref!r} (total {len(terms)}; calls on this object so far {calls})",
                     witness=dict(pub, chunk=chunk, got=got, want=ref, history=list(calls)), snippet=sn)
        return got

    v1 = attempt("ngrid.integrate:vectorized", "vec", None, lambda: run(mg, f, cfg, "vec"), want)
    tot = cfg["total"]
    if chunks is None:
        chunks = _chunk_sizes(tot) if tot <= 60 else ctx.rng.sample(_chunk_sizes(tot), 3)
    chunks = list(chunks)
    for c in chunks:
        if c is not None and c < 1:
            continue
        attempt("ngrid.integrate:chunk", "chunk", c, lambda: run(mg, f, cfg, "nonvec", c), want)
    # state: the vectorised route again after the point-by-point calls
    v2 = attempt("ngrid.integrate:vectorized", "vec", None, lambda: run(mg, f, cfg, "vec"), want)
    if v1 is not None and v2 is not None and v1 != v2 and not (v1 != v1 and v2 != v2):
        ctx.fail("oracle", "ngrid.integrate:state", f"the vectorised integral is {v1!r} at first and {v2!r} after other calls on the same object",
                 witness=dict(pub, history=list(calls)), snippet=snip("history", seq=list(calls)))
    # classes 10 / 11 / 18: a freshly built object whose FIRST call is the point-by-point route with a non-default chunk size, then
    # the vectorised route, then other chunk sizes, the first one again; in between size / points / weights and calls that end
    # in an exception (the integrand failing half-way in either route, a negative chunk size, a vectorised integrand of the
    # wrong length, the two refusing methods).  Every accepted call gives the product quadrature; after every call and every
    # exception the caller's list, the grids and their arrays are as built.
    if light:                 # the large totals: the routes and chunk sizes above only
        return
    cs = [c for c in chunks if c is not None and c >= 1] or [1]
    c1 = ([c for c in cs if 1 < c < tot and tot % c] or [c for c in cs if c < tot] or cs)[-1]       # preferably one that does not divide the total
    seq = [("nonvec", c1), ("moments", None), ("raise-nonvec", (c1, max(1, tot // 2))), ("vec", None), ("raise-vec", 1), ("nonvec", cs[0]), ("badchunk", -1),
           ("nonvec", None), ("get_localgrid", None), ("vecbad", None), ("nonvec", c1), ("nonvec", cs[-1]), ("vec", None)]
    mgh, listed_h, doms_h = _build(cfg)
    fh = Integrand(**cfg["par"])
    done = []
    for i, (kind, c) in enumerate(seq):
        done.append((kind, c))
        try:
            if i == 5:
                list(mgh.points), list(mgh.weights), mgh.size
            if kind in EVENTS:
                name = event(mgh, fh, cfg, kind, c)
                if kind in ("moments", "get_localgrid") and name != "NotImplementedError":
                    ctx.fail("oracle", "ngrid.refusal", f"{kind} of a multi-domain grid {'returned' if name is None else 'raised ' + name} instead of raising NotImplementedError",
                             witness=pub, snippet=snip("refusal"))
                got = None
            else:
                got = complex(run(mgh, fh, cfg, kind, c))
        except Exception as e:
            ctx.fail("oracle", "ngrid.integrate:history", f"call {i} ({kind}, chunk {c}) after {done[:-1]} on one object raised {type(e).__name__}: {e}",
                     witness=dict(pub, history=done), snippet=snip("history", seq=list(done)))
            break
        bad = intact(cfg, listed_h, doms_h)
        if bad:
            ctx.fail("oracle", "ngrid.integrate:grid-modified", f"on one object, after the calls {done}: {bad}", witness=dict(pub, history=done), snippet=snip("history", seq=list(done)))
            break
        if got is not None and not _cclose(got, want, _rtol(cfg, 1e-10), scale):
            ctx.fail("oracle", "ngrid.integrate:history", f"on one object, after the calls {done[:-1]}, the call ({kind}, chunk {c}) gives {got!r}, nested product quadrature {want!r}",
                     witness=dict(pub, history=done, got=got, want=want), snippet=snip("history", seq=list(done)))
            break
    # class 8: grids translated by an exactly representable amount give bit-identical integrals (the class hands the points through)
    if cfg["par"].get("shift"):
        sh = cfg["par"]["shift"]
        cfg0 = dict(cfg, pts=[(np.array(p) - sh).tolist() for p in cfg["pts"]], par=dict(cfg["par"], shift=0.0))
        mg0 = _build(cfg0)[0]
        f0 = Integrand(**cfg0["par"])
        for kind, c in (("vec", None), ("nonvec", cs[0])):
            try:
                a, b = complex(run(mg, f, cfg, kind, c)), complex(run(mg0, f0, cfg0, kind, c))
            except Exception as e:
                ctx.fail("oracle", "ngrid.integrate:translated", f"{kind}: raised {type(e).__name__}: {e}", witness=dict(pub, chunk=c), snippet=snip("translated", c or 0))
                continue
            if a != b and not (a != a and b != b):
                ctx.fail("oracle", "ngrid.integrate:translated", f"{kind} (chunk {c}): {a!r} on the grids translated by {sh:g}, {b!r} on the untranslated ones (same integrand values)",
                         witness=dict(pub, chunk=c, got=a, want=b), snippet=snip("translated", c or 0))
    if cfg["par"]["kind"] == "sep" and cfg["par"]["ret"] in EXACT_RET and cfg["par"].get("zero") is None:
        prod = 1.0 + 0j
        for k, d in enumerate(doms):
            prod = prod * csum([float(d.weights[i]) * complex(f.factor(k, d.points[i])) for i in range(d.size)])
        attempt("ngrid.integrate:separable", "separable", None, lambda: run(mg, f, cfg, "vec"), prod)


def oracle(ctx: Ctx, budget: str):
    """The property on the implementation against an explicit nested-loop quadrature.  Independent parts (one per
    configuration / probe), each guarded: see `_Parts`."""
    ng = importlib.import_module("grid.ngrid")
    parts = _Parts(ctx, "oracle")

    def at(cfg, chunks=None, light=False):
        parts.run("ngrid.integrate", lambda: _oracle_cfg(ctx, cfg, chunks, light), witness=lambda: _pub(cfg),
                  snippet=lambda: SNIPPET.format(integrand_src=INTEGRAND_SRC, build_src=BUILD_SRC, cfg=_pub(cfg), what="history", chunk=0,
                                                 seq=[("vec", None), ("nonvec", 1), ("nonvec", cfg["total"] + 1)], kinds=_expected_kind(cfg["par"]["ret"], cfg.get("layout")), rtol=_rtol(cfg, 1e-10)))

    n = 25 if budget == "small" else 400
    fixed = [(3, "list"), (4, "list"), (3, "list-same"), (3, "repeat")]
    for it in range(n):
        cap = 150 if budget == "small" else 700
        at(_config(ctx, cap, *fixed[it]) if it < len(fixed) else _config(ctx, cap))
    # round 4, present in every run: integrands handing back their argument / a view / a persistent buffer / a read-only array,
    # arrays of every kind inside the grids, every spelling of the arguments, shared arrays, unequal shapes with sizes 1 and 2
    for cfg in _round4_configs(ctx):
        at(cfg)
    parts.run("ngrid.__init__", lambda: _oracle_constructor(ctx))
    # integrands that work on single points only, point-by-point route, one to four domains (one domain as [g] and as [g], num_domains=1)
    for cfg, style in _scalar_cases(ctx):
        parts.run("ngrid.integrate:pointwise:scalar-only", lambda: _oracle_scalar(ctx, cfg, style), witness=lambda: dict(_pub(cfg), style=style),
                  snippet=lambda: _scalar_snippet(cfg, style, 2))
    # round 5: the components are modified between construction and use (setters, in-place edits, replaced list entries); reference:
    # the nested sum over the components as they are now
    for cfg in _mut_configs(ctx, 40 if budget == "small" else 400):
        plan = _mut_plan(ctx, cfg)
        parts.run("ngrid.modified-components", lambda: _oracle_mutation(ctx, cfg, *plan), witness=lambda: dict(_pub(cfg), steps=plan[0], orders=plan[1]),
                  snippet=lambda: _mut_snippet(cfg, *plan))
    # round 3, present in every run: one-point domains / one object in non-adjacent positions / num_domains = 1 (class 12);
    # integrands and weights that are exactly zero on whole blocks, values and weights of extreme magnitude, translated
    # grids (class 8)
    special = [dict(nd=3, mode="list", sizes=[1, 1, 1]), dict(nd=3, mode="list", sizes=[1, 4, 3]), dict(nd=3, mode="list", sizes=[4, 3, 1]),
               dict(nd=3, mode="list-aba"), dict(nd=4, mode="list-aba"), dict(nd=1, mode="repeat"), dict(nd=5, mode="repeat", sizes=[1]),
               dict(nd=2, mode="list", plain=True, zero="all"), dict(nd=3, mode="list", plain=True, zero="lead"), dict(nd=2, mode="repeat", plain=True, zero="lead"),
               dict(nd=1, mode="list", plain=True, zero="lead", sizes=[6]), dict(nd=3, mode="list", plain=True, zero="mid", zero_w="some"),
               dict(nd=3, mode="list", plain=True, zero_w="lead"), dict(nd=2, mode="repeat", plain=True, zero_w="lead"),
               dict(nd=2, mode="list", plain=True, zero_w="all-first"),
               dict(nd=2, mode="list", plain=True, fscale=1e-300), dict(nd=3, mode="list", plain=True, fscale=1e-50), dict(nd=3, mode="list", plain=True, fscale=1e12),
               dict(nd=2, mode="repeat", plain=True, fscale=1e200), dict(nd=3, mode="list", plain=True, wexp=[150, 0, -150]),
               dict(nd=3, mode="list", plain=True, wexp=[-150, 12, 150], fscale=1e100), dict(nd=3, mode="repeat", plain=True, wexp=[60]),
               dict(nd=2, mode="list", plain=True, shift=20), dict(nd=3, mode="list-aba", plain=True, shift=10), dict(nd=1, mode="list", plain=True, shift=15),
               # kinds of the integrand's values
               dict(nd=2, mode="list", plain=True, ret="complex128"), dict(nd=3, mode="list", plain=True, ret="complex128"), dict(nd=1, mode="list", plain=True, ret="complex128"),
               dict(nd=2, mode="repeat", plain=True, ret="complex64"), dict(nd=3, mode="list-aba", plain=True, ret="pycomplex"), dict(nd=2, mode="list", plain=True, ret="mixed"),
               dict(nd=3, mode="repeat", plain=True, ret="mixed"), dict(nd=2, mode="list", plain=True, ret="longdouble"), dict(nd=2, mode="list", plain=True, ret="float32"),
               dict(nd=2, mode="list", plain=True, ret="int"), dict(nd=2, mode="list", plain=True, ret="bool"), dict(nd=2, mode="list", plain=True, ret="0d")]
    for kw in special * (1 if budget == "small" else 6):
        at(_config(ctx, 150, **kw))
    # class 7: a total just above the default chunk size 6000 (the default splits into 6000 + 1), called with the default
    # and with the sizes next to it
    for sizes in ([[17, 353]] if budget == "small" else [[17, 353], [75, 80], [7, 857], [78, 78]]):
        at(_config(ctx, 10 ** 6, 2, "list", sizes=sizes, plain=True), chunks=[None, 5999, 6001])
    # class 21: totals past block boundaries that are no multiple of a power of two or of {1,2,5} 10^k (20001 = 3 x 59 x 113: the default
    # chunk size leaves 2001, chunk size 16 gives 1251 chunks; thorough / large budget: 65537 and 2^19 + 1 = 3 x 174763)
    at(_config(ctx, 10 ** 7, 3, "list", sizes=[3, 59, 113], plain=True, layout="c", ret="float64", dims=[1, 3, 1]), chunks=[16, 4096, None], light=True)
    if budget != "small" or ctx.thorough:
        at(_config(ctx, 10 ** 7, 2, "list", sizes=[65537, 1], plain=True, layout="c", ret="float64", dims=[1, 1]), chunks=[None, 65536], light=True)
        at(_config(ctx, 10 ** 7, 2, "list", sizes=[3, 174763], plain=True, layout="c", ret="float64", dims=[1, 1]), chunks=[None], light=True)
    # a point-by-point integrand that hands back a one-element array / list instead of a number: outside the documented
    # contract ("return a float"), observed and reported as information
    def probe_a1():
        cfg = _config(ctx, 60, 2, "list", sizes=[3, 2], plain=True)
        cfg["par"]["ret"] = "a1"
        mg, grids, doms = _build(cfg)
        f = Integrand(**cfg["par"])
        want = float(mg.integrate(Integrand(**dict(cfg["par"], ret="float64")), non_vectorized=True))
        obs = {}
        for c in (1, 2, 6000):
            try:
                obs[c] = float(mg.integrate(f, non_vectorized=True, integration_chunk_size=c))
            except Exception as e:
                obs[c] = f"{type(e).__name__}"
        if any(not isinstance(v, float) or not close(v, want, rtol=1e-10) for v in obs.values()):
            ctx.info("outside the documented contract (integrand 'returns a float'): a point-by-point integrand returning a one-element array of "
                     f"shape (1,) gives chunk-size dependent values {obs} (chunk size -> integral; scalar-valued integrand: {want!r}): "
                     "np.array(list(chunk_values)) has shape (c, 1) and broadcasts against the (c,) weights")

    parts.run("ngrid.integrate:one-element-array", probe_a1)
    # a vectorised integrand that hands back a Python list, on one domain and on two (own key: the single-domain
    # shortcut passes the list on to Grid.integrate, which accepts NumPy arrays only)
    def probe_list(nd):
        cfg = _config(ctx, 60, nd, "list")
        cfg["par"]["ret"], cfg["call"] = "list", "kw"
        mg, grids, doms = _build(cfg)
        f = Integrand(**cfg["par"])
        want = math.fsum(float(wv) * float(np.asarray(f(*tp))) for tp, wv in zip(itertools.product(*[d.points for d in doms]), (math.prod(c) for c in itertools.product(*[d.weights for d in doms]))))
        try:
            got = float(mg.integrate(f))
            bad = None if close(got, want, rtol=1e-10, scale=abs(want) + 1.0) else f"integrate gives {got!r}, product quadrature {want!r}"
        except Exception as e:
            bad = f"raised {type(e).__name__}: {e}"
        if bad and nd == 1 and bad.startswith("raised TypeError"):
            # scope decision (DESIGN 8.3): a vectorised integrand must hand back an array; a Python list is
            # rejected by the single-domain shortcut (a rejection, not a wrong value) -> information only
            ctx.info(f"out of scope: vectorised integrand returning a Python list on one domain: {bad}")
        elif bad:
            ctx.fail("oracle", "ngrid.integrate:vectorized:list-valued" + (":single-domain" if nd == 1 else ""),
                     f"vectorised integrand returning a Python list, {nd} domain(s): {bad}; the point-by-point route gives "
                     f"{float(mg.integrate(f, non_vectorized=True))!r}", witness=_pub(cfg),
                     snippet=SNIPPET.format(integrand_src=INTEGRAND_SRC, build_src=BUILD_SRC, cfg=_pub(cfg), what="history", chunk=0, seq=[("vec", None)], kinds=("real",), rtol=1e-10))

    for nd in (1, 2):
        parts.run("ngrid.integrate:vectorized:list-valued", lambda: probe_list(nd))
    # the library's own grid classes as domains (class 19: also where their weights are huge / tiny / negative and their points far out)
    def library(it):
        nd = ctx.rng.randint(1, 3)
        specs = _real_grids(ctx, nd)
        if it < 2:          # always: a far-reaching radial grid (weights up to 1e4) times a Lebedev grid with negative weights, either order
            specs = [[("Becke", 12, 50.0), ("Lebedev", 13)], [("Lebedev", 13), ("Becke", 8, 1.5)]][it]
            nd = 2
        doms = [lib_grid(sp) for sp in specs]
        dims = [1 if d.points.ndim == 1 else 3 for d in doms]
        par = dict(kind=ctx.rng.choice(["sep", "nonsep"]), dims=dims, a=[0.7] * nd, d=[[0.3, -0.5, 0.8]] * nd,
                   c0=[1.0] * nd, c1=[0.5, -0.4, 0.9][:nd], c2=[0.25, 0.1, -0.2][:nd], ret=ctx.rng.choice(["float64", "complex128", "memo"]))
        if dims[-1] == 1 and ctx.rng.random() < 0.3:
            par["kind"], par["ret"] = "lastarg", "float64"            # hands back the last grid's own point array
        pristine = [(d.points.copy(), d.weights.copy()) for d in doms]
        f = Integrand(**par)
        mg = ng.MultiDomainGrid(doms)
        terms = []

        def rec2(k, args, w):
            if k == len(doms):
                terms.append(w * complex(f(*args)))
                return
            for i in range(doms[k].size):
                rec2(k + 1, args + [doms[k].points[i]], w * float(doms[k].weights[i]))

        rec2(0, [], 1.0)
        want, scale = complex(math.fsum(t.real for t in terms), math.fsum(t.imag for t in terms)), math.fsum(abs(t) for t in terms)
        tot = len(terms)
        chunks = ["vec", 1, max(1, tot - 1), tot + 1, "vec"]
        snippet = LIB_SNIPPET.format(integrand_src=INTEGRAND_SRC, lib_src=LIB_SRC, specs=specs, par=par, chunks=chunks)
        ctx.tagc("oracle:library-grids:" + "+".join(sorted({sp[0] for sp in specs})))
        for c in chunks:
            key = "vectorized" if c == "vec" else "chunk"
            try:
                got = complex(mg.integrate(f) if c == "vec" else mg.integrate(f, non_vectorized=True, integration_chunk_size=c))
            except Exception as e:
                ctx.fail("oracle", f"ngrid.integrate:{key}:library-grids", f"{specs}: integrate ({c}) raised {type(e).__name__}: {e}", witness=dict(grids=specs, par=par), snippet=snippet)
                continue
            if not _cclose(got, want, 1e-10, scale) or int(mg.size) != tot:
                ctx.fail("oracle", f"ngrid.integrate:{key}:library-grids", f"{specs}: integrate ({c}) {got!r}, nested product quadrature {want!r}, size {mg.size} vs {tot}",
                         witness=dict(grids=specs, par=par), snippet=snippet)
            if not all(np.array_equal(d.points, p_) and np.array_equal(d.weights, w_) for d, (p_, w_) in zip(doms, pristine)):
                ctx.fail("oracle", "ngrid.integrate:grid-modified:library-grids", f"{specs}: points / weights of a grid changed during integrate ({c}; integrand {par['kind']}, values as {par['ret']})",
                         witness=dict(grids=specs, par=par), snippet=snippet)
                break

    for it in range(8 if budget == "small" else 60):
        parts.run("ngrid.integrate:library-grids", lambda: library(it))
    parts.finish()


def oracle_at(ctx: Ctx, failure):
    """Evaluate the property at a configuration on which model / generated program and implementation disagreed."""
    w = failure.witness or {}
    if not (isinstance(w, dict) and {"mode", "nd", "pts", "wts", "par"} <= set(w)):
        return
    cfg = {k: w[k] for k in CFG_KEYS if k in w}
    cfg["total"] = _total(cfg)
    if w.get("style"):
        _oracle_scalar(ctx, cfg, w["style"], [w["chunk"]] if "chunk" in w else None)
        return
    if w.get("steps") is not None and w.get("orders") is not None:
        _oracle_mutation(ctx, cfg, [tuple(st) for st in w["steps"]], [[(who, tuple(what) if isinstance(what, list) else what) for who, what in o] for o in w["orders"]])
        return
    chunks = None
    if isinstance(w.get("chunk"), int) and w["chunk"] >= 1:
        chunks = sorted({w["chunk"], 1, cfg["total"] + 1})
    _oracle_cfg(ctx, cfg, chunks)

"""C10, round 5 — generator classes 21–26 of AGENT_ROUND5.md.

  big        (21, 22)  plain `Grid` / `OneDGrid` with 1025, 4097, 20001, 31234, 65537 points (thorough: 2^19 + 1),
             ascending / descending / shuffled in one dimension; queries (centre on a point, at the origin, far; radius
             zero, small, median, huge, inf) against a brute-force per-point evaluation, and additivity over a split of
             the points (local(all) = local(first part) ++ shifted local(second part)); selections by mask, long index
             array, reversed slice and a slice starting past a block boundary; a reversal by the setter.  Oracle only
             (a driver line of 65537 points serves nothing the per-point reference does not).
  precision  (23)  points / weights / centre / radius / assigned values **given directly** as np.longdouble, float16,
             float32 and integer arrays and scalars: the answer is the float64 answer on the stored values, the
             argument is unchanged afterwards and a second call with the same argument object equals the first
  buffers    (25)  the same array object edited in place between two calls: the centre (`buf[...] = new`), the radius
             as a 0-d array, the index array of a selection, the value array of the setters
  instances  (24, 26)  two objects that differ in one hidden dependency — other points with the same shape, the same
             values ascending / descending, one radial `OneDGrid` object shared by two atomic grids with different
             centres, a radial grid with and without a node at r = 0, one `OneDGrid` shared by two tensor grids, two
             uniform grids of one shape — used alternately in either order; every answer against the exact reference
             of that object alone
"""
import math

import numpy as np

from ..common import f2b, fvec, vec
from . import c10 as B
from . import c10_ext as E


# ----------------------------------------------------------------------------------------------------
# class `big` (oracle)
# ----------------------------------------------------------------------------------------------------
BIG_SNIP = """seed, n, d, order = {seed}, {n}, {d}, {order!r}
rs = np.random.default_rng(seed)
pts = rs.uniform(-2, 2, (n, d)); w = rs.uniform(0.5, 1.5, n)
if d == 1:
    pts = np.sort(pts, axis=0)
    pts = pts[::-1].copy() if order == 'descending' else (pts[rs.permutation(n)] if order == 'shuffled' else pts)
g = {ctor}
"""


def _big_points(seed, n, d, order):
    rs = np.random.default_rng(seed)
    pts = rs.uniform(-2, 2, (n, d))
    w = rs.uniform(0.5, 1.5, n)
    if d == 1:
        pts = np.sort(pts, axis=0)
        pts = pts[::-1].copy() if order == "descending" else (pts[rs.permutation(n)] if order == "shuffled" else pts)
    return pts, w


def _safe_radius(d, r):
    """Move r away (relative 1e-7) from every distance in d."""
    for _ in range(200):
        if r == 0.0:
            return r if not np.any((d > 0) & (d < 1e-300)) else 1e-299
        if not np.any(np.abs(d - r) <= 2e-7 * np.maximum(d, r)):
            return r
        r = r * (1 + 3e-6) + 1e-9
    return r


def oracle_big(ctx, M, sizes):
    rng = ctx.rng
    bg = M["basegrid"]
    for n in sizes:
        for variant in (("grid", 3, "any"), ("grid", 2, "any"), ("grid1", 1, rng.choice(["descending", "shuffled"])),
                        ("oned", 1, "descending"), ("oned", 1, "shuffled"), ("oned", 1, "ascending")):
            kind, d, order = variant
            if n > 70000 and variant not in (("grid", 3, "any"), ("oned", 1, "descending")):
                continue
            seed = rng.randrange(2 ** 31)
            pts, w = _big_points(seed, n, d, order)
            arr = pts if kind == "grid" else pts[:, 0].copy()
            ctor = {"grid": "Grid(pts, w)", "grid1": "Grid(pts[:, 0].copy(), w)", "oned": "OneDGrid(pts[:, 0].copy(), w)"}[kind]
            g = bg.OneDGrid(arr, w) if kind == "oned" else bg.Grid(arr, w)
            head = B.SNIP_HEAD + BIG_SNIP.format(seed=seed, n=n, d=d, order=order, ctor=ctor)
            path = B.PATH[kind]
            rows = pts
            k0 = rng.randrange(n)
            queries = [(rows[k0].copy(), "on"), (np.zeros(d), "origin"), (np.full(d, 50.0), "far")]
            fails = []
            pre = []

            def query(c, r, label):
                dist = np.sqrt(((rows - c) ** 2).sum(axis=1))
                r = _safe_radius(dist, r)
                want = np.nonzero(dist <= r)[0] if math.isfinite(r) else np.arange(len(rows))
                cobj = float(c[0]) if kind != "grid" else c
                ctx.count((kind, n, order, label, seed), nontrivial=True, tag=f"oracle:big:{kind}:n={n}")
                text = f"lg = g.get_localgrid({B._descr(cobj)}, {r!r})"
                try:
                    lg = g.get_localgrid(cobj, r)
                    idx = np.asarray(lg.indices)
                    srt = np.sort(idx)
                    ok = (np.array_equal(srt, want) and np.array_equal(np.asarray(lg.points), np.asarray(g.points)[idx])
                          and np.array_equal(np.asarray(lg.weights), np.asarray(g.weights)[idx]))
                    seen = f"{len(idx)} indices" + ("" if np.array_equal(srt, want) else
                                                    f", first difference from the per-point evaluation near {np.setxor1d(srt, want)[:5].tolist()}")
                except Exception as e:  # noqa: BLE001
                    ok, seen = False, f"raised {type(e).__name__}: {str(e)[:80]}"
                if not ok and not fails:
                    fails.append((f"{path} with {n} points ({order}): `{text}` ({label}): {seen}; {len(want)} points lie inside the sphere",
                                  head + "\n".join(pre) + f"\nP = np.asarray(g.points, dtype=float).reshape(len(g.points), -1)\n{text}\n"
                                  f"dist = np.sqrt(((P - np.atleast_1d({B._descr(cobj)})) ** 2).sum(axis=1))\n"
                                  f"want = np.nonzero(dist <= {r!r})[0]\nassert np.array_equal(np.sort(lg.indices), want), (len(lg.indices), len(want))\n"
                                  "assert np.array_equal(lg.points, np.asarray(g.points)[lg.indices]) and np.array_equal(lg.weights, np.asarray(g.weights)[lg.indices])\n"))
                return r
            for c, how in queries:
                dist = np.sqrt(((rows - c) ** 2).sum(axis=1))
                for r, lab in ((0.0, "zero"), (float(np.partition(dist, 7)[7]), "few"), (float(np.median(dist)), "half"),
                               (float(dist.max()) * 0.999, "nearly-all"), (1e6, "huge"), (math.inf, "inf")):
                    query(c, r, f"{how}:{lab}")
            # additivity over a split of the points
            cut = rng.choice([n // 2 + 1, 1024, n - 1])
            c = rows[k0].copy()
            dist = np.sqrt(((rows - c) ** 2).sum(axis=1))
            r = _safe_radius(dist, float(np.median(dist)))
            try:
                cobj = float(c[0]) if kind != "grid" else c
                mk = (lambda a, ww: bg.OneDGrid(a, ww) if kind == "oned" else bg.Grid(a, ww))
                whole = np.sort(np.asarray(g.get_localgrid(cobj, r).indices))
                p1 = np.sort(np.asarray(mk(arr[:cut].copy(), w[:cut].copy()).get_localgrid(cobj, r).indices))
                p2 = np.sort(np.asarray(mk(arr[cut:].copy(), w[cut:].copy()).get_localgrid(cobj, r).indices)) + cut
                ctx.count((kind, n, "split", seed), nontrivial=True, tag=f"oracle:big:{kind}:split")
                if not np.array_equal(whole, np.concatenate([p1, p2])) and not fails:
                    fails.append((f"{path} with {n} points ({order}): the local grid of the whole grid is not the union of the local grids of "
                                  f"the points [:{cut}] and [{cut}:] (centre {B._descr(cobj)}, radius {r!r}): {len(whole)} vs {len(p1)} + {len(p2)} indices",
                                  head + f"c, r, cut = {B._descr(cobj)}, {r!r}, {cut}\nP, W = np.asarray(g.points), np.asarray(g.weights)\n"
                                  "whole = np.sort(g.get_localgrid(c, r).indices)\n"
                                  "a = np.sort(type(g)(P[:cut].copy(), W[:cut].copy()).get_localgrid(c, r).indices)\n"
                                  "b = np.sort(type(g)(P[cut:].copy(), W[cut:].copy()).get_localgrid(c, r).indices) + cut\n"
                                  "assert np.array_equal(whole, np.concatenate([a, b]))\n"))
            except Exception as e:  # noqa: BLE001
                if not fails:
                    fails.append((f"{path} with {n} points: the split evaluation raised {type(e).__name__}: {str(e)[:80]}", head))
            # selections past block boundaries
            P0, W0 = np.array(g.points), np.array(g.weights)
            sels = [("mask", rows[:, 0] > 0.3, "np.asarray(g.points).reshape(len(g.points), -1)[:, 0] > 0.3"),
                    ("array", np.arange(n)[::-3].copy(), "np.arange(len(g.points))[::-3].copy()"),
                    ("reversed", slice(None, None, -1), "slice(None, None, -1)"), ("tail", slice(1024, None), "slice(1024, None)")]
            for name, idx, itext in sels:
                ctx.count((kind, n, "getitem", name, seed), nontrivial=True, tag=f"oracle:big:{kind}:getitem")
                try:
                    sub = g[idx]
                    ok = type(sub) is type(g) and np.array_equal(sub.points, P0[idx]) and np.array_equal(sub.weights, W0[idx])
                    seen = "is not the selected points / weights"
                except Exception as e:  # noqa: BLE001
                    ok, seen = False, f"raised {type(e).__name__}: {str(e)[:80]}"
                if not ok and not fails:
                    fails.append((f"{path} with {n} points: g[{itext}] {seen}",
                                  head + f"idx = {itext}\nP, W = np.array(g.points), np.array(g.weights)\nsub = g[idx]\n"
                                  "assert type(sub) is type(g) and np.array_equal(sub.points, P[idx]) and np.array_equal(sub.weights, W[idx])\n"))
            # a reversal by the setter, then the same query
            try:
                g.points = np.asarray(g.points)[::-1].copy()
                pre.append("g.points = np.asarray(g.points)[::-1].copy()")
                rows = rows[::-1].copy()
                query(rows[k0].copy(), float(np.median(dist)), "after-reversal:half")
            except Exception as e:  # noqa: BLE001
                if not fails:
                    fails.append((f"{path} with {n} points: points setter raised {type(e).__name__}", head))
            if fails:
                ctx.fail("oracle", f"{path}.get_localgrid:big", fails[0][0], witness={"class": path, "n": n, "order": order, "seed": seed},
                         snippet=fails[0][1])


# ----------------------------------------------------------------------------------------------------
# class `precision` (scripted: correspondence and oracle)
# ----------------------------------------------------------------------------------------------------
PREC = [("longdouble", np.longdouble), ("float16", np.float16), ("float32", np.float32), ("int8", np.int8), ("int64", np.int64),
        ("uint16", np.uint16)]


def _cast(a, name, dt):
    a = np.asarray(a, dtype=float)
    if name.startswith(("int", "uint")):
        a = np.round(np.abs(a) * 3) if name.startswith("uint") else np.round(a * 3)
        info = np.iinfo(dt)
        if np.any(a < info.min) or np.any(a > info.max):
            return a            # (does not fit the integer type: stays float64)
    elif name == "longdouble":
        # (values a double cannot hold: the library rounds them to double, and so does the reference)
        return a.astype(np.longdouble) + np.longdouble("1e-19") * np.sign(a).astype(np.longdouble)
    return a.astype(dt)


def gen_precision(ctx, M, n):
    rng = ctx.rng
    bg = M["basegrid"]
    hs = []
    for i in range(n):
        kind = ["grid", "grid1", "oned", "loc"][i % 4]
        m = rng.choice([1, 2, 3, 5, 9])
        d = 1 if kind in ("grid1", "oned") else rng.choice([1, 2, 3])
        pname, pdt = rng.choice(PREC + [("float64", np.float64)])
        wname, wdt = rng.choice(PREC + [("float64", np.float64)])
        pts = _cast(B._coords(rng, (m, d), rng.random() < 0.4), pname, pdt)
        w = _cast(B._weights(rng, m), wname, wdt)
        if kind == "grid":
            g = bg.Grid(pts, w)
        elif kind == "grid1":
            g = bg.Grid(pts[:, 0].copy(), w)
        elif kind == "oned":
            g = bg.OneDGrid(pts[:, 0].copy(), w, None)
        else:
            g = bg.LocalGrid(pts, w, np.zeros(d), np.arange(m))
        g._gv_ctor = B._ctor_text(kind, g)
        h = E.Script(kind, g, rng, M, "precision")
        h.extra_tags += [f"precision:points-{pname}", f"precision:weights-{wname}"]
        oned = kind in ("grid1", "oned")
        watched = []
        for _ in range(rng.choice([1, 2, 3])):
            c0, how = B._centre(rng, g, oned, d)
            cname, cdt = rng.choice(PREC)
            rname, rdt = rng.choice(PREC)
            if oned:
                cobj = _cast(np.array(c0), cname, cdt)[()]
                cobj = rng.choice([cobj, np.array(cobj)])
            else:
                cobj = _cast(c0, cname, cdt)
            if not np.all(np.isfinite(np.asarray(cobj, dtype=float))):      # (a far centre does not fit float16 / int8)
                cobj, cname = (np.float64(c0) if oned else np.asarray(c0, dtype=float)), "float64"
            cf = np.asarray(cobj, dtype=float)
            d2s = E.exact_d2(g, float(cf) if oned else cf)
            ds = sorted(E.fsqrt(x) for x in d2s)
            r0 = rng.choice([0.0, ds[0] * 1.3 + 0.1, ds[len(ds) // 2] * 1.1 + 0.05, ds[-1] * 2 + 1, 1e4])
            robj = _cast(np.array(r0), rname, rdt)[()]
            if rname == "float16" and not np.isfinite(robj):
                robj = np.float16(60000.0)
            if rng.random() < 0.3:
                robj = np.array(robj)          # a 0-d array
            if not E.margin_free(d2s, float(robj)):
                continue
            snap = (np.array(cobj, copy=True), np.array(robj, copy=True))
            # the same argument objects twice: the second answer is the first, the arguments are what they were
            h.q(cobj, robj, f"centre-{cname}|radius-{rname}", ref=True)
            h.q(cobj, robj, f"again-centre-{cname}|centre-{how}", ref=True)
            watched.append((cobj, robj, snap))
        # a radius beyond the range of a narrow points dtype (float16: 65504) that still reaches no point
        far = np.full(d, 1e6)
        h.q(float(far[0]) if oned else far, rng.choice([7e4, 1e5, np.float32(2e5)]), "beyond-narrow-range", ref=True)
        if rng.random() < 0.5 and m > 0 and kind != "loc":
            vname, vdt = rng.choice(PREC)
            new = _cast(B._coords(rng, np.asarray(g.points).shape, False), vname, vdt)
            h.sp(new, "value-" + vname)
            c0, how = B._centre(rng, g, oned, d)
            d2s = E.exact_d2(g, c0)
            r = 0.9
            for _ in range(60):
                if E.margin_free(d2s, r):
                    break
                r = r * (1 + 3e-6) + 1e-9
            h.q(c0, r, "after-value-" + vname, ref=True)
        for cobj, robj, (c1, r1) in watched:
            if not (np.array_equal(np.asarray(cobj), c1) and np.array_equal(np.asarray(robj), r1)
                    and np.asarray(cobj).dtype == c1.dtype and np.asarray(robj).dtype == r1.dtype):
                ctx.fail("oracle", f"{B.PATH[kind]}.get_localgrid:argument-changed",
                         f"{B.PATH[kind]}.get_localgrid changed its argument: centre {B._descr(c1)} -> {B._descr(np.asarray(cobj))}, "
                         f"radius {B._descr(r1)} -> {B._descr(np.asarray(robj))}",
                         witness={"constructor": h.ctor, "history": h.text},
                         snippet=B.SNIP_HEAD + f"g = {h.ctor}\nc, r = {B._descr(c1)}, {B._descr(r1)}\nc0, r0 = np.array(c, copy=True), np.array(r, copy=True)\n"
                         "g.get_localgrid(c, r)\nassert np.array_equal(c, c0) and np.array_equal(r, r0)\n")
        if h.tokens:
            hs.append(h)
    return hs


# ----------------------------------------------------------------------------------------------------
# class `buffers` (scripted)
# ----------------------------------------------------------------------------------------------------
def gen_buffers(ctx, M, n):
    rng = ctx.rng
    hs = []
    for i in range(n):
        kind = (B.KINDS + ["angular"])[i % (len(B.KINDS) + 1)]
        while True:
            g = B.build(kind, rng, M) if kind != "angular" else M["angular"].AngularGrid(degree=rng.choice([3, 5]))
            if len(np.asarray(g.points)) >= 2:
                break
        if not hasattr(g, "_gv_ctor"):
            g._gv_ctor = B._ctor_text(kind, g)
        h = E.Script(kind, g, rng, M, "buffers")
        pts = np.asarray(g.points)
        oned = pts.ndim == 1
        dim = 1 if oned else pts.shape[1]
        n_pts = len(pts)

        def radius_for(c, r0):
            d2s = E.exact_d2(h.g, c)
            r = r0
            for _ in range(60):
                if E.margin_free(d2s, r):
                    break
                r = r * (1 + 3e-6) + 1e-9
            return r
        what = rng.choice(["centre", "centre", "radius", "index", "both"])
        if what in ("centre", "both"):
            c1, _ = B._centre(rng, g, oned, dim)
            c2, _ = B._centre(rng, g, oned, dim)
            buf = np.array(c1, dtype=float)            # (a 0-d array for 1-D points)
            r = radius_for(np.array(buf), rng.choice([0.4, 1.1, 2.5]))
            h.q(buf, r, "buffer-first", ref=True, ctext="buf", pre_text=f"buf = {B._descr(np.array(buf))}")
            buf[...] = c2
            r2 = radius_for(np.array(buf), r)
            h.q(buf, r2, "buffer-centre-edited", ref=True, ctext="buf", pre_text=f"buf[...] = {B._descr(np.array(c2, dtype=float))}")
            buf *= 0.5
            r3 = radius_for(np.array(buf), r)
            h.q(buf, r3, "buffer-centre-scaled", ref=True, ctext="buf", pre_text="buf *= 0.5")
        if what in ("radius", "both"):
            c1, _ = B._centre(rng, g, oned, dim)
            rb = np.array(radius_for(c1, 0.6))
            h.q(c1, rb, "buffer-first", ref=True, rtext="rb", pre_text=f"rb = {B._descr(np.array(rb))}")
            rb[...] = radius_for(c1, 2.2)
            h.q(c1, rb, "buffer-radius-edited", ref=True, rtext="rb", pre_text=f"rb[...] = {float(rb)!r}")
            rb[...] = np.inf
            h.q(c1, rb, "buffer-radius-inf", ref=True, rtext="rb", pre_text="rb[...] = np.inf")
        if what == "index" and kind != "mol":
            ib = np.array([rng.randrange(n_pts) for _ in range(rng.choice([1, 2, 3]))])
            h.gi(ib, "gi a " + vec(ib.tolist()), "buffer-first", itext="ib", pre_text=f"ib = {B._descr(np.array(ib))}")
            new = np.array([rng.randrange(n_pts) for _ in range(len(ib))])
            ib[...] = new
            h.gi(ib, "gi a " + vec(ib.tolist()), "buffer-index-edited", itext="ib", pre_text=f"ib[...] = {B._descr(new)}")
            mb = np.zeros(n_pts, dtype=bool)
            mb[rng.randrange(n_pts)] = True
            h.gi(mb, "gi m " + vec(int(b) for b in mb), "buffer-first", itext="mb", pre_text=f"mb = {B._descr(np.array(mb))}")
            mb[...] = ~mb
            if mb.any():
                h.gi(mb, "gi m " + vec(int(b) for b in mb), "buffer-mask-edited", itext="mb", pre_text="mb[...] = ~mb")
        if kind != "atom" and rng.random() < 0.5 and np.asarray(g.points).dtype == np.float64 and np.asarray(g.points).flags.writeable:
            # the value buffer of the setter: assigned, edited in place, assigned again
            c1, _ = B._centre(rng, g, oned, dim)
            newv = np.asarray(h.g.points, dtype=float) * 1.0 + rng.choice([0.5, -1.25])
            h.sp(newv, "buffer-value", same_obj=True)
            h.q(c1, radius_for(c1, 1.3), "after-buffer-value", ref=True)
        if h.tokens:
            hs.append(h)
    return hs


# ----------------------------------------------------------------------------------------------------
# class `instances` (oracle)
# ----------------------------------------------------------------------------------------------------
def _pair(rng, M):
    """Two objects that differ in one hidden dependency.  -> (what, [(kind, object)])"""
    bg = M["basegrid"]
    what = rng.choice(["grid-same-shape", "oned-order", "atom-shared-rgrid", "atom-r0", "tensor-shared-1d", "uniform-same-shape",
                       "grid-vs-selection"])
    if what == "grid-same-shape":
        m, d = rng.choice([2, 3, 5, 20]), rng.choice([1, 2, 3])
        w = B._weights(rng, m)
        return what, [("grid", bg.Grid(B._coords(rng, (m, d), False), w)), ("grid", bg.Grid(B._coords(rng, (m, d), False), w))]
    if what == "oned-order":
        m = rng.choice([2, 3, 5, 8])
        p = np.sort(B._coords(rng, (m,), False))
        return what, [("oned", bg.OneDGrid(p, np.ones(m))), ("oned", bg.OneDGrid(p[::-1].copy(), np.ones(m)))]
    if what in ("atom-shared-rgrid", "atom-r0"):
        nr = rng.choice([1, 2, 3])
        r = np.sort(np.array([rng.uniform(0.2, 2.0) for _ in range(nr)]))
        rg = bg.OneDGrid(r, np.ones(nr), (0, np.inf))
        degs = [rng.choice([3, 5])]
        AG = M["atomgrid"].AtomGrid
        if what == "atom-shared-rgrid":
            return what, [("atom", AG(rg, degrees=degs, center=B._coords(rng, (3,), True))),
                          ("atom", AG(rg, degrees=degs, center=B._coords(rng, (3,), False)))]
        r0 = r.copy()
        r0[0] = 0.0
        rg0 = bg.OneDGrid(r0, np.ones(nr), (0, np.inf))
        c = B._coords(rng, (3,), True)
        return what, [("atom", AG(rg, degrees=degs, center=c)), ("atom", AG(rg0, degrees=degs, center=c.copy()))]
    if what == "tensor-shared-1d":
        o = bg.OneDGrid(B._coords(rng, (3,), False), np.ones(3))
        a = bg.OneDGrid(B._coords(rng, (2,), False), np.ones(2))
        b = bg.OneDGrid(B._coords(rng, (2,), False), np.ones(2))
        T = M["cubic"].Tensor1DGrids
        t1, t2 = T(o, a), T(o, b)
        t1._gv_oned, t2._gv_oned = [o, a], [o, b]
        return what, [("tensor", t1), ("tensor", t2)]
    if what == "uniform-same-shape":
        U = M["cubic"].UniformGrid
        sh = np.array([2, 3])
        u1 = U(B._coords(rng, (2,), True), np.eye(2) * 0.5, sh, weight="Rectangle")
        u2 = U(B._coords(rng, (2,), True), np.array([[0.5, 0.25], [0.0, 0.75]]), sh, weight="Rectangle")
        u1._gv_weight = u2._gv_weight = "Rectangle"
        return what, [("uniform", u1), ("uniform", u2)]
    m = rng.choice([3, 5, 8])
    g = bg.Grid(B._coords(rng, (m, 2), False), B._weights(rng, m))
    return what, [("grid", g), ("grid", g[::-1]), ("grid", g[1:])]


def oracle_instances(ctx, M, n):
    rng = ctx.rng
    for i in range(n):
        what, objs = _pair(rng, M)
        if rng.random() < 0.5:
            objs = objs[::-1]
        names = [f"g{j}" for j in range(len(objs))]
        text = []
        for nm, (k, g) in zip(names, objs):
            try:
                text.append(f"{nm} = {B._ctor_text(k, g)}")
            except Exception:  # noqa: BLE001
                text.append(f"{nm} = Grid({B._descr(np.asarray(g.points))}, {B._descr(np.asarray(g.weights))})")
        fixed = []
        for k, g in objs:
            pts = np.asarray(g.points)
            c, _ = B._centre(rng, g, pts.ndim == 1, 1 if pts.ndim == 1 else pts.shape[1])
            fixed.append((c, rng.choice([0.5, 1.2, 2.5])))
        order = [rng.randrange(len(objs)) for _ in range(rng.choice([4, 6, 8]))]
        bad = None
        for step, j in enumerate(order):
            k, g = objs[j]
            if step == len(order) // 2 and k not in ("atom",):
                # one of them is changed through its setters half-way: the other one must not notice
                try:
                    g.points = np.asarray(g.points)[::-1].copy()
                    g.weights = np.asarray(g.weights, dtype=float) * 2.0
                    text.append(f"{names[j]}.points = np.asarray({names[j]}.points)[::-1].copy(); {names[j]}.weights = np.asarray({names[j]}.weights, dtype=float) * 2.0")
                except Exception as e:  # noqa: BLE001
                    bad = f"setter of {names[j]} raised {type(e).__name__}"
                    break
            c, r0 = fixed[j]
            d2s = E.exact_d2(g, c)
            r = r0
            for _ in range(60):
                if E.margin_free(d2s, r):
                    break
                r = r * (1 + 3e-6) + 1e-9
            want = E.exact_answer(g, c, r)
            text.append(f"lg = {names[j]}.get_localgrid({B._descr(c)}, {r!r})")
            ctx.count((what, i, step), nontrivial=True, tag="oracle:instances:" + what)
            try:
                got = B._canon_local(g.get_localgrid(c, r))
            except Exception as e:  # noqa: BLE001
                got = "E " + B._errtag(e)
            if got != want:
                bad = (f"`{text[-1][:150]}` (request {step} of an alternating sequence on {len(objs)} objects, {what}): {got[:80]!r}; "
                       f"this object alone gives {want[:80]!r}")
                inside = sorted(int(x) for x in want.split()[2:2 + int(want.split()[1])]) if want.startswith("L ") else []
                text.append(f"assert sorted(map(int, lg.indices)) == {inside!r}")
                break
        if bad:
            ctx.fail("oracle", f"{B.PATH[objs[0][0]]}.get_localgrid:instances", bad, witness={"script": text},
                     snippet=B.SNIP_HEAD + "\n".join(text) + "\n")


# ----------------------------------------------------------------------------------------------------
# entry points
# ----------------------------------------------------------------------------------------------------
def script_classes(ctx, M, oracle=False):
    f = 6 if oracle == "large" else 1
    q = (lambda a, b: f * ctx.n(a, b))
    return [("precision", lambda: gen_precision(ctx, M, q(200, 2000) if not oracle else q(120, 1200))),
            ("buffers", lambda: gen_buffers(ctx, M, q(180, 1800) if not oracle else q(108, 1080)))]


def corr_parts(ctx, M):
    return [("scripted:" + name, (lambda gen=gen: E.corr_scripts(ctx, gen))) for name, gen in script_classes(ctx, M)]


def oracle_parts(ctx, M, budget):
    big = "large" if budget == "large" else True
    f = 6 if budget == "large" else 1
    sizes = [1025, 4097, 20001, 65537] if not ctx.thorough else [1025, 4097, 20001, 31234, 65537, 2 ** 19 + 1]
    if budget == "large":
        sizes = sorted(set(sizes + [1023, 1024, 2049, 31234]))
    return [("scripted:" + name, (lambda gen=gen: E.oracle_scripts(ctx, gen()))) for name, gen in script_classes(ctx, M, oracle=big)] \
        + [("big", lambda: oracle_big(ctx, M, sizes)), ("instances", lambda: oracle_instances(ctx, M, f * ctx.n(150, 1500)))]

"""C20 development measurement (not a check): does the effects IR notice stores / arithmetic that
are turned into in-place operations?

Companion of harness/sensitivity.py (which changes literals, comparisons and operators — tokens the
effects IR is blind to by design) with the mutations that matter for C20:

  aug    `x = x <op> e`            ->  `x <op>= e`          (re-binding becomes an in-place update)
  binop  `y = x <op> e`            ->  `x <op>= e; y = x`   (the operand is updated in place and shared;
         likewise `return x <op> e` -> `x <op>= e; return x`)
  copy   `e.copy()` -> `e` ;  `np.array(e, …)` / `np.copy(e)` -> `np.asarray(e, …)`   (a copy is dropped,
         so later stores into the result reach the original)

one at a time in a scratch copy of src/grid.  For every mutant:

  ir        `same` (regenerated Gen/Effects.lean identical), `changed` (different but every program
            still passes the may-alias check), `flagged` (some program fails it: the kernel's
            `all_functions_safe` would fail), `error` (translator raised)
  dynamic   (with --dynamic) the registry of harness/props/c20_registry.py is run against the mutant
            (quick budget): `violation` (caller data observed to change, with the entries) or `clean`

A mutant with dynamic = violation and ir != flagged would be a soundness defect of the extraction;
ir = flagged with dynamic = clean is (possibly) a false alarm or a hole of the registry.

    /venv/bin/python -m harness.props.c20_sensitivity atomgrid.py ode.py … [--jobs N] [--dynamic]

Scratch copies live under /var/tmp/gv-c20-sens-<pid> and are removed at the end.
"""
from __future__ import annotations

import ast
import json
import os
import shutil
import subprocess
import sys
import warnings
from concurrent.futures import ThreadPoolExecutor
from pathlib import Path

REPO_SRC = Path(os.environ.get("GRID_REPO", "/repo")) / "src" / "grid"
AUG = {ast.Add: "+", ast.Sub: "-", ast.Mult: "*", ast.Div: "/", ast.Pow: "**", ast.FloorDiv: "//", ast.Mod: "%",
       ast.MatMult: "@"}


def _params_of(fn) -> set[str]:
    a = fn.args
    out = {x.arg for x in a.posonlyargs + a.args + a.kwonlyargs}
    if a.vararg:
        out.add(a.vararg.arg)
    if a.kwarg:
        out.add(a.kwarg.arg)
    return out - {"self", "cls"}


def _derived(fn) -> set[str]:
    """Names of `fn` (nested functions included) that syntactically depend on a parameter: the
    parameters, and every name assigned from an expression that mentions a derived name (a crude,
    translator-independent over-approximation used only to label the sites)."""
    der = set()
    for n in ast.walk(fn):
        if isinstance(n, (ast.FunctionDef, ast.Lambda)):
            der |= _params_of(n)
    changed = True
    while changed:
        changed = False
        for n in ast.walk(fn):
            tg, val = [], None
            if isinstance(n, ast.Assign):
                tg, val = n.targets, n.value
            elif isinstance(n, (ast.AugAssign, ast.AnnAssign)):
                tg, val = [n.target], n.value
            elif isinstance(n, ast.For):
                tg, val = [n.target], n.iter
            if val is None:
                continue
            if any(isinstance(m, ast.Name) and m.id in der for m in ast.walk(val)) or \
                    any(isinstance(m, ast.Name) and m.id == "self" for m in ast.walk(val)):
                for t in tg:
                    for m in ast.walk(t):
                        if isinstance(m, ast.Name) and m.id not in der:
                            der.add(m.id)
                            changed = True
    return der


def sites(path: Path):
    """-> list of dict(line, col, end_line, end_col, new, kind, function, derived, text)"""
    src = path.read_text()
    lines = src.splitlines()
    with warnings.catch_warnings():
        warnings.simplefilter("ignore")
        tree = ast.parse(src)
    out = []

    def seg(n):
        return ast.get_source_segment(src, n)

    def visit_fn(fn, qual):
        der = _derived(fn)
        for n in ast.walk(fn):
            if isinstance(n, ast.Assign) and len(n.targets) == 1 and isinstance(n.targets[0], ast.Name) \
                    and isinstance(n.value, ast.BinOp) and type(n.value.op) in AUG \
                    and isinstance(n.value.left, ast.Name) and n.value.left.id == n.targets[0].id:
                x = n.targets[0].id
                new = f"{x} {AUG[type(n.value.op)]}= {seg(n.value.right)}"
                out.append(dict(line=n.lineno, col=n.col_offset, end_line=n.end_lineno, end_col=n.end_col_offset,
                                new=new, kind="aug", function=qual, derived=x in der, text=seg(n)))
            if isinstance(n, ast.Assign) and len(n.targets) == 1 and isinstance(n.targets[0], ast.Name) \
                    and isinstance(n.value, ast.BinOp) and type(n.value.op) in AUG \
                    and isinstance(n.value.left, ast.Name) and n.value.left.id != n.targets[0].id \
                    and n.lineno == n.end_lineno and n.value.left.id not in ("np", "self"):
                x, y = n.value.left.id, n.targets[0].id
                new = f"{x} {AUG[type(n.value.op)]}= {seg(n.value.right)}; {y} = {x}"
                out.append(dict(line=n.lineno, col=n.col_offset, end_line=n.end_lineno, end_col=n.end_col_offset,
                                new=new, kind="binop", function=qual, derived=x in der, text=seg(n)))
            if isinstance(n, ast.Return) and isinstance(n.value, ast.BinOp) and type(n.value.op) in AUG \
                    and isinstance(n.value.left, ast.Name) and n.lineno == n.end_lineno \
                    and n.value.left.id not in ("np", "self"):
                x = n.value.left.id
                new = f"{x} {AUG[type(n.value.op)]}= {seg(n.value.right)}; return {x}"
                out.append(dict(line=n.lineno, col=n.col_offset, end_line=n.end_lineno, end_col=n.end_col_offset,
                                new=new, kind="binop", function=qual, derived=x in der, text=seg(n)))
            if isinstance(n, ast.Call):
                f = n.func
                new = None
                if isinstance(f, ast.Attribute) and f.attr == "copy" and not n.args and not n.keywords:
                    new = seg(f.value)
                    base = f.value
                elif isinstance(f, ast.Attribute) and isinstance(f.value, ast.Name) and f.value.id == "np" \
                        and f.attr in ("array", "copy") and n.args and not isinstance(n.args[0], (ast.List, ast.Tuple, ast.ListComp, ast.Constant)):
                    rest = "".join(", " + seg(a) for a in n.args[1:]) + "".join(
                        f", {k.arg}={seg(k.value)}" for k in n.keywords if k.arg not in ("copy",))
                    new = f"np.asarray({seg(n.args[0])}{rest})"
                    base = n.args[0]
                if new is not None:
                    d = any(isinstance(m, ast.Name) and (m.id in der or m.id == "self") for m in ast.walk(base))
                    out.append(dict(line=n.lineno, col=n.col_offset, end_line=n.end_lineno, end_col=n.end_col_offset,
                                    new=new, kind="copy", function=qual, derived=d, text=seg(n)))

    for n in tree.body:
        if isinstance(n, ast.FunctionDef):
            visit_fn(n, n.name)
        elif isinstance(n, ast.ClassDef):
            for c in n.body:
                if isinstance(c, ast.FunctionDef):
                    visit_fn(c, f"{n.name}.{c.name}")
    # nested calls overlap (np.array(x.copy())): keep all, each is applied alone
    return out


def mutate(orig: str, s) -> str:
    ls = orig.split("\n")
    if s["line"] == s["end_line"]:
        l = ls[s["line"] - 1]
        ls[s["line"] - 1] = l[:s["col"]] + s["new"] + l[s["end_col"]:]
    else:
        first = ls[s["line"] - 1][:s["col"]] + s["new"] + ls[s["end_line"] - 1][s["end_col"]:]
        ls[s["line"] - 1:s["end_line"]] = [first]
    return "\n".join(ls)


IR_CODE = r"""
import json, sys
from harness.translate import effects as fx
from harness.translate.util import GEN
try:
    progs = fx.translate_all()
    text = fx.lean_text(progs)
    flagged = [p["name"] for p in progs if fx.offenders(p)]
    same = (GEN / "Effects.lean").read_text() == text
    print("@@" + json.dumps({"ir": "flagged" if flagged else ("same" if same else "changed"), "flagged": flagged}))
except BaseException as e:
    print("@@" + json.dumps({"ir": "error", "flagged": [], "error": type(e).__name__ + ": " + str(e)[:200]}))
"""

DYN_CODE = r"""
import json, sys
from harness.common import Ctx
from harness.props import c20_registry as reg
ctx = Ctx("C20", "quick", 0)
reg.run(ctx, budget="quick", flagged=set(json.loads(sys.argv[1])))
fs = [f for f in ctx.failures] if hasattr(ctx, "failures") else []
print("@@" + json.dumps({"dynamic": "violation" if fs else "clean",
                         "witnesses": sorted({(f.key if hasattr(f, "key") else str(f)) for f in fs})[:6]}))
"""


def run_one(workdir: Path, mod: str, s, dynamic: bool):
    tgt = workdir / "src" / "grid" / mod
    orig = (REPO_SRC / mod).read_text()
    tgt.write_text(mutate(orig, s))
    env = dict(os.environ, GRID_REPO=str(workdir), PYTHONPATH=str(workdir / "src"), GRID_VERIF_GEN_DRYRUN="1",
               OMP_NUM_THREADS="1", OPENBLAS_NUM_THREADS="1", PYTHONDONTWRITEBYTECODE="1")
    res = {}
    try:
        try:
            ast.parse(tgt.read_text())
        except SyntaxError as e:
            return {"ir": "syntax-error", "error": str(e)}
        p = subprocess.run(["/venv/bin/python", "-c", IR_CODE], cwd="/verif", env=env, capture_output=True, text=True, timeout=900)
        for l in p.stdout.splitlines():
            if l.startswith("@@"):
                res.update(json.loads(l[2:]))
        if "ir" not in res:
            res["ir"] = "driver-error"
            res["error"] = p.stderr[-300:]
        if dynamic:
            p = subprocess.run(["/venv/bin/python", "-c", DYN_CODE, json.dumps(res.get("flagged", []))], cwd="/verif", env=env,
                               capture_output=True, text=True, timeout=1800)
            for l in p.stdout.splitlines():
                if l.startswith("@@"):
                    res.update(json.loads(l[2:]))
            if "dynamic" not in res:
                res["dynamic"] = "driver-error"
                res["dyn_error"] = p.stderr[-300:]
        return res
    finally:
        tgt.write_text(orig)


def main(argv):
    jobs, mods, dynamic = 4, [], False
    it = iter(argv)
    for a in it:
        if a == "--jobs":
            jobs = int(next(it))
        elif a == "--dynamic":
            dynamic = True
        else:
            mods.append(a)
    if not mods:
        mods = sorted(p.name for p in REPO_SRC.glob("*.py") if p.name not in ("__init__.py", "_version.py"))
    todo = [(m, s) for m in mods for s in sites(REPO_SRC / m)]
    print(f"{len(todo)} sites in {len(mods)} modules, {jobs} jobs, dynamic={dynamic}", flush=True)
    base = Path(f"/var/tmp/gv-c20-sens-{os.getpid()}")
    works = []
    for j in range(jobs):
        w = base / f"w{j}"
        (w / "src").mkdir(parents=True)
        shutil.copytree(REPO_SRC, w / "src" / "grid", ignore=shutil.ignore_patterns("tests", "__pycache__"))
        works.append(w)
    results = []
    try:
        import queue
        q = queue.Queue()
        for w in works:
            q.put(w)

        def job(ms):
            w = q.get()
            try:
                return ms, run_one(w, ms[0], ms[1], dynamic)
            finally:
                q.put(w)
        with ThreadPoolExecutor(jobs) as ex:
            for k, (ms, res) in enumerate(ex.map(job, todo)):
                results.append((ms, res))
                if k % 20 == 19:
                    print(f"  … {k + 1}/{len(todo)}", flush=True)
    finally:
        shutil.rmtree(base, ignore_errors=True)
    table = {}
    for (m, s), res in results:
        key = (s["kind"], "parameter-derived" if s["derived"] else "local", res["ir"], res.get("dynamic", "-"))
        table[key] = table.get(key, 0) + 1
        print(f"{m}:{s['line']} [{s['kind']}{'*' if s['derived'] else ''}] {s['function']}: {s['text'][:60]!r} -> {s['new'][:50]!r}"
              f"  ir={res['ir']} {res.get('flagged', [])[:2]} dynamic={res.get('dynamic', '-')} {res.get('witnesses', '')}"
              f"{' ' + res['error'] if res.get('error') else ''}")
    print("\nkind, operand, ir, dynamic: count")
    for k in sorted(table):
        print("  " + ", ".join(k) + f": {table[k]}")
    Path("/var/tmp/c20-sens-last.json").write_text(json.dumps([[m, s, r] for (m, s), r in results], indent=1))


if __name__ == "__main__":
    main(sys.argv[1:])

"""C09 — harmonic decomposition / interpolation on atomic grids is exact when band-limited."""
import importlib
import math

import numpy as np

from ..common import Ctx, Tokens, close, driver_batch, f2b, fmat, fvec, vec

LEVEL = "proof"
LEVEL_TEXT = (
    "Lean theorems over the reals about the hand model of integrate_angular_coordinates, radial_component_splines, "
    "interpolate (values; radial-only, spherical and Cartesian derivatives), spherical_average and MolGrid.interpolate, "
    "for every number of shells, every radial grid (incl. nodes with r < 1e-8 and r = 0), every table of shell degrees "
    "(uniform or mixed), every band limit L <= min_i d_i // 2 and every family of coefficient functions g_lm: the "
    "re-weighted angular integrals sum to the grid integral (pure index algebra, no hypothesis on the function); under H1 "
    "the per-shell angular integral is sqrt(4 pi) g_00(r_i), the radial components after the zeroing rule of coarser "
    "shells are g_lm(r_i) on every row, hence under H2 the interpolant reproduces the function at every grid point; at "
    "arbitrary points the reported value is sum_lm spline_lm(r) Y_lm(theta, phi); the radial-only report of any order and "
    "the three spherical-coordinate reports are the r-, theta- and phi-derivatives of that interpolant; the Cartesian "
    "report is the gradient whenever |r| >= 1e-10, |phi| >= 1e-10 and sin(phi) != 0 (the matrix of "
    "convert_derivative_from_spherical_to_cartesian is the inverse transposed Jacobian of the spherical parametrisation); "
    "the spherical average integrates back to the grid integral; the molecular interpolant is the sum of the atomic "
    "interpolants of w_A f. CONDITIONAL on named hypotheses that are NOT proved here: H1 = every shell integrates the "
    "products Y_a Y_b of the rows concerned exactly (this is property C02, exactness of the shipped angular grids, "
    "together with the closure of degree-<=l harmonics under products and rotations; Mathlib has no spherical-harmonic "
    "theory); H2 = SciPy's CubicSpline interpolates its data and spline(x, nu+1) is the derivative of spline(x, nu) "
    "(everywhere for nu <= 1, off the knots above); H3 = the rows handed over as dY/dtheta, dY/dphi are the derivatives of "
    "the rows Y (property C08). The code as it is violates the derivative clause on the polar axis and at the centre "
    "(theorems cart_deriv_fails_on_pos_z_axis, cart_deriv_fails_at_centre: the y-component reported there is 0 for "
    "every input); these are replayed on the implementation by the oracle and listed as findings. Tie to the code: hand "
    "model compared with the implementation on random (not band-limited) inputs; the property itself is evaluated on the "
    "implementation for random band-limited functions with harmonics from scipy.special.sph_harm_y. Round 3: "
    "convert_cartesian_to_spherical, the whole inner interpolate_low of AtomGrid.interpolate and the inner interpolate_low of MolGrid.interpolate "
    "are regenerated from the source statement by statement and proved equal to the hand model for every scalar type (gen_convert_*, "
    "gen_interpolate_low_eq_model, gen_mol_low_eq_model); the two windows of the decomposition side are stated about the regenerated constants "
    "(gen_integrate_window: regenerated angular weights exactly for r_i < 1e-8; gen_convert_atomic_window: canonical angles only on shells with r_i == 0)."
)
TECHNIQUE = "Lean 4 proof (conditional on H1/H2/H3) of the hand model + differential correspondence + oracle with independent harmonics and finite differences"
GEN = ["harmonics", "atominterp"]
LEAN_MODULES = ["GridVerif.Props.C09", "GridVerif.Props.C09.Example", "GridVerif.Props.C09.Gen", "GridVerif.Props.C09.Gen2", "GridVerif.Props.C09.Mol"]
THEOREMS = [
    "GridVerif.C09.reweighted_sum_is_integral",
    "GridVerif.C09.angular_integral_exact",
    "GridVerif.C09.components_recovered",
    "GridVerif.C09.interpolant_is_sum",
    "GridVerif.C09.splines_through_components",
    "GridVerif.C09.interpolant_reproduces_grid_values",
    "GridVerif.C09.interpolant_at_centre_shell",
    "GridVerif.C09.derivs_consistent_radial",
    "GridVerif.C09.derivs_consistent_spherical",
    "GridVerif.C09.jacobian_inverse_transpose",
    "GridVerif.C09.derivs_consistent_cartesian_partial",
    "GridVerif.C09.cart_deriv_fails_on_pos_z_axis",
    "GridVerif.C09.cart_deriv_fails_at_centre",
    "GridVerif.C09.higher_deriv_rejected",
    "GridVerif.C09.average_integrates_back",
    "GridVerif.C09.mol_interp_is_sum",
    "GridVerif.C09.spline_contract_satisfiable",
    "GridVerif.C09.ex_H1",
    "GridVerif.C09.gen_integrate_eq_model",
    "GridVerif.C09.gen_components_eq_model",
    "GridVerif.C09.gen_splines_eq_model",
    "GridVerif.C09.gen_degrees_agree",
    "GridVerif.C09.gen_reweighted_sum_is_integral",
    "GridVerif.C09.gen_angular_integral_exact",
    "GridVerif.C09.gen_components_recovered",
    # round 3: convert_cartesian_to_spherical, the inner interpolate_low of AtomGrid.interpolate and of MolGrid.interpolate, generated
    "GridVerif.C09.gen_cartToSph_eq_model",
    "GridVerif.C09.gen_convDeriv_eq_model",
    "GridVerif.C09.gen_convert_points",
    "GridVerif.C09.gen_convert_points_flat",
    "GridVerif.C09.gen_convert_rejects",
    "GridVerif.C09.gen_convert_atomic",
    "GridVerif.C09.gen_basis_angles_eq_model",
    "GridVerif.C09.gen_interpolate_low_eq_model",
    "GridVerif.C09.gen_mol_low_eq_model",
    "GridVerif.C09.gen_mol_low_empty",
    "GridVerif.C09.gen_defaults",
    "GridVerif.C09.gen_default_call_is_value",
    "GridVerif.C09.gen_mol_interp_is_sum",
    "GridVerif.C09.gen_integrate_window",
    "GridVerif.C09.gen_convert_atomic_window",
    # round 6: MolGrid.interpolate itself (weights, slices, loop) generated; one atom = the general formula at one atom
    "GridVerif.C09.gen_mol_interpolate_eq_model",
    "GridVerif.C09.gen_mol_one_atom",
    "GridVerif.C09.gen_mol_is_sum_of_atomic",
]
RULE = (
    "correspondence: atomic grids with 1..7 shells, radial nodes incl. r = 0, 0 < r < 1e-8 and ordinary ones, random positive "
    "radial weights, uniform and mixed shell degrees of all four methods, centres, rotation seeds; random (not band-limited) "
    "function values, 1-D and 2-D; ops: integrate_angular_coordinates (+ re-weighted sum, grid integral), spherical_average "
    "node values, radial components after the zeroing rule (given the library's basis array), convert_cartesian_to_spherical "
    "with and without argument (canonical angles of r = 0 shells), the assembly of interpolate_low for deriv 0..3 and every "
    "flag combination at random points, the centre and the polar axis (given spline and harmonic tables), MolGrid's summation; "
    "non-trivial = >=2 distinct shell degrees, or a shell with r < 1e-8, or a rotation seed, or a derivative request. "
    "Round 2: func_vals and evaluation points as float32 / int64 / int32 / bool / read-only / strided / Fortran-ordered / shape-(3,) arrays "
    "(bit-identical with the float64 computation on a newly built grid; caller's arrays unchanged); seeded random call histories of the four "
    "entry points and of get_shell_grid / convert_cartesian_to_spherical / points / weights / basis on one grid object with two functions, and "
    "interleaved on two grids alive at once that agree in (l_max, size, method) but not in their angles (answers bit-identical with newly built "
    "grids; decomposition compared with the model given harmonics from scipy at independently computed angles, not the cached basis); radial "
    "nodes 9.99e-9, 1e-8, 1.01e-8 incl. subnormal products f_j w_j (which separate the two branches of the 1e-8 rule); evaluation points at "
    "|r| = 9e-11 .. 1.1e-10 and with z/r rounding to +-1; keyword and positional forms of the interpolant. Oracle additionally: the clauses along "
    "call histories, for integer (shell-wise constant) / float32 / read-only / strided func_vals, on grids from from_pruned / from_preset / sizes=, "
    "rotated grids with an r = 0 shell, MolGrid under histories and rebuilt. "
    "Round 3: the generated definitions run by the driver on the same inputs (integrate / average / components / angles of the atomic grid points; "
    "convert_cartesian_to_spherical for (M, 3), flat (3,) and (6,) points, an explicit centre and the rejected shapes (4,), (M, 2), (1, M, 3); the whole "
    "interpolate_low end to end from the library's spline coefficients with the harmonics of the Lean model, every order and flag combination, points "
    "incl. the centre, the polar axis and |r| within a factor 1.01 and 100 of 1e-10; the MolGrid summation loop; signature defaults, warning condition, "
    "reshape primitive); radial nodes a factor 100 on either side of 1e-8; one interpolant asked with alternating option values, two interpolants of "
    "one grid alive and asked alternately, first request on a new grid non-default (bit for bit against newly built grids). Oracle additionally: the "
    "clauses for function values scaled by 1e-14 .. 1e14, 1e-50, 1e-290 and radial scales 1e-5 .. 1e5 (all tolerances relative to the data); centres "
    "translated by 2^10 .. 2^20 against the untranslated problem; every array handed out by the decomposition / interpolation routes edited in place "
    "and requested again; the interpolant on the whole sphere of each radial shell, at the Cartesian origin, on shells on the axes; the Cartesian "
    "report = chain rule of the spherical report wherever |r| >= 1e-10, |phi| >= 1e-10; two interpolants alive; single-shell grids. "
    "Round 4 (corr and oracle run as independent parts; an exception in one never hides the others): in every run mixed-degree grids with non-monotone "
    "shell sizes whose total is n_shells times the size of one shell (Lebedev [9, 7, 11] = 38 + 26 + 50 = 3 * 38, the mean-sized shell first / inside / "
    "last, other methods, four shells); func_vals stacked along leading axes 1, 2, n_shells, shell size, (2, 1), (1, 2), (2, 3) and 1, 2, 3, n_shells, "
    "(l_max//2+1)^2 evaluation points; radial points / weights, degrees, centre, aim_weights handed to the constructors as read-only / strided / "
    "negative-stride / integer-valued / int32 / float32 / list objects; both degrees and sizes (d_sectors and s_sectors) at once, one degree / size for "
    "all shells, omitted / None / explicit-default arguments; one func_vals and one points object (views into larger arrays, bytes around them checked) "
    "for repeated requests, one OneDGrid and one degrees list for all atoms of a molecule; complex128 / complex64 / longdouble function values "
    "(linearity; the Cartesian report of complex data is recorded as information); rejected requests (wrong sizes, orders, shapes, index, kind) before and "
    "between accepted ones; radial grids made by the library's transforms (r from 1e-5 to 1e5, r^2 w up to 1e14; nodes at the trimmed 1e16 are "
    "outside the measured envelope), nuclei 0.3 and 40 bohr apart in one molecule. "
    "Round 5: 1025 and 4097 (thorough 20001, 65537, 2^19 + 1) evaluation points against the point-by-point reference and against the request split in two, "
    "1025 (4097) radial shells, 1025 stacked functions; radial nodes descending / shuffled / as made by a decreasing library map (per-shell clauses; the "
    "spline entry points reject), evaluation points permuted; float16 and longdouble points / centre / func_vals given directly (unchanged, second "
    "request equal); evaluation at 3 and 100 r_max and at 0.1 and 1e-3 r_min; one func_vals / points / centre buffer and one degrees / centre array "
    "overwritten in place between requests / constructions; pairs of grids alive that differ only in the radial grid, the centre or the method "
    "(Lebedev 3 / spherical 3-design: equal sizes)"
)
TRUSTED_BASE = [
    "Lean 4.33 kernel; axioms propext, Classical.choice, Quot.sound only (audited per theorem)",
    "hand model Model/AtomInterp.lean of the NumPy array code (arrays as index functions, slices as index ranges), tied by correspondence; "
    "its integrateAngular / radialComponents / averageValues / splines are proved equal to Gen/AtomInterp.lean, the AST translation "
    "(harness/translate/atominterp.py, regenerated on every run) of integrate_angular_coordinates (weights, slice bounds, division by "
    "r**2 * w, the r < 1e-8 branch), spherical_average, radial_component_splines (einsum product, zeroing rule, l_max // 2) and of the "
    "degree arguments of the harmonics calls in interpolate_low; attribute dictionary self.weights = wts, self.indices = idx, ... trusted; "
    "round 3: convert_cartesian_to_spherical, the inner interpolate_low of AtomGrid.interpolate and of MolGrid.interpolate are translated statement by "
    "statement as well (calls of convert_cart_to_sph / convert_derivative_from_spherical_to_cartesian go to the generated routines of Gen/Harmonics.lean, "
    "translator harness/translate/harmonics.py); trusted readings: arrays as (shape, C-order data) with the primitive pyReshape (validated against NumPy on "
    "every run), row-wise column assignment colsFrom, np.hstack of 1-D arrays = concatenation, the loop derivs[i] = ... over np.zeros((n, 3)) as List.set, "
    "einsum('ij,ij->j') as the sum over the rows of the first operand, output += ... as entrywise sum; warnings.warn has no effect on the result",
    "Elem instance of the reals (sqrt, sin, cos, arccos, arctan2 = Complex.arg, pi)",
    "NumPy slicing / einsum / hstack / broadcasting semantics as modelled",
]
ASSUMPTIONS = [
    "H1 (not proved): on every shell sum_k omega_ik Y_a(u_ik) Y_b(u_ik) = delta_ab for a < (d_i//2+1)^2, b < (L+1)^2 "
    "(C02 + closure of harmonics under products and rotations); checked numerically by the oracle only",
    "H2 (not proved): scipy.interpolate.CubicSpline interpolates its data, spline(x, nu+1) is the derivative of spline(x, nu)",
    "H3 (not proved here, C08): the derivative rows of generate_derivative_real_spherical_harmonics are the derivatives of the rows "
    "of generate_real_spherical_harmonics; Y_00 = 1/sqrt(4 pi)",
    "grid structure (C05): weights[j] = omega_ik * w_i * r_i^2, indices monotone from 0, the rebuilt AngularGrid has the same weights",
    "radial weights non-zero on shells with r >= 1e-8 (the code divides by r_i^2 w_i); radial nodes strictly increasing (CubicSpline rejects others)",
    "exact real arithmetic in the theorems; rounding only through the tolerances of correspondence and oracle; nan inputs are outside the model",
]

METHODS = ["lebedev", "spherical", "maxdet", "ahrens_beylkin"]
# small supported degrees per method (requests equal to table entries, so degrees == request)
DEGS = {
    "lebedev": [3, 5, 7, 9, 11, 13, 15],
    "spherical": [1, 3, 5, 7, 9, 11, 13],
    "maxdet": [1, 2, 3, 4, 5, 6, 7, 8, 9, 10, 11, 12],
    "ahrens_beylkin": [14, 19, 23],
}


def _mods():
    return (importlib.import_module("grid.atomgrid"), importlib.import_module("grid.onedgrid"),
            importlib.import_module("grid.angular"), importlib.import_module("grid.utils"),
            importlib.import_module("grid.molgrid"), importlib.import_module("grid.becke"))


# ----------------------------------------------------------------------------------------------
# input generation
# ----------------------------------------------------------------------------------------------
def _radial(rng, n, zero_kind):
    """n strictly increasing nodes; zero_kind: 'none' | 'zero' | 'tiny' | 'both' | 'edge' | 'zero-edge' | 'far-edge'
    ('edge': nodes just below, exactly at and just above the hard-coded 1e-8 of integrate_angular_coordinates,
    and one between 1e-8 and 1e-7; at least two ordinary nodes follow)."""
    r = []
    x = 0.0
    if zero_kind in ("zero", "both", "zero-edge"):
        r.append(0.0)
    if zero_kind in ("tiny", "both"):
        r.append(rng.choice([1e-9, 3e-9, 9.9e-9]))
        x = 0.0
    if zero_kind in ("edge", "zero-edge"):
        r += [9.99e-9, 1e-8, 1.01e-8, rng.choice([2e-8, 5e-8, 9.9e-8])]
        n = max(n, len(r) + 2)
    if zero_kind == "far-edge":
        # round 3 (class 7): a factor ~100 on either side of the same threshold
        r += [rng.choice([1e-10, 2e-10]), rng.choice([1e-6, 7e-7])]
        n = max(n, len(r) + 2)
    while len(r) < n:
        x += rng.uniform(0.15, 0.9)
        r.append(round(x, 3) if rng.random() < 0.3 else x)
    r = r[:n]
    w = [rng.uniform(0.05, 1.2) for _ in range(n)]
    return np.array(r, dtype=float), np.array(w, dtype=float)


def _degrees(rng, method, n, mixed, cap=None):
    pool = [d for d in DEGS[method] if cap is None or d <= cap] or DEGS[method][:2]
    if not mixed or n == 1:
        return [rng.choice(pool)] * n
    k = rng.choice([2, 2, 3])
    ds = rng.sample(pool, k=min(k, len(pool)))
    out = [rng.choice(ds) for _ in range(n)]
    if len(set(out)) == 1 and len(ds) > 1:
        out[rng.randrange(n)] = next(d for d in ds if d != out[0])
    return out


def _atom_grid(ctx, M, n=None, method=None, mixed=None, zero_kind=None, cap=None, center=None, rotate=None, degs=None):
    ag, od = M[0], M[1]
    rng = ctx.rng
    n = n if n is not None else rng.choice([1, 2, 2, 3, 3, 4, 5, 7])
    method = method or rng.choice(METHODS)
    mixed = rng.random() < 0.5 if mixed is None else mixed
    zero_kind = zero_kind or rng.choice(["none", "none", "zero", "tiny", "both"])
    if n == 1 and zero_kind == "both":
        zero_kind = "zero"
    r, w = _radial(rng, n, zero_kind)
    n = len(r)
    degs = _degrees(rng, method, n, mixed, cap) if degs is None else [degs[i % len(degs)] for i in range(n)]
    if center is None:
        center = rng.choice([np.zeros(3), np.array([rng.uniform(-2, 2) for _ in range(3)]), np.array([0.5, -1.25, 2.0])])
    if rotate is None:
        rotate = rng.choice([0, 0, 1, 37, rng.randrange(1, 10**6)])
    rg = od.OneDGrid(r, w, (0, np.inf))
    g = ag.AtomGrid(rg, degrees=list(degs), center=np.array(center, dtype=float), rotate=int(rotate), method=method)
    return g, dict(n=n, method=method, degs=list(degs), zero=zero_kind, center=list(map(float, center)), rotate=int(rotate),
                   r=r.tolist(), w=w.tolist())


class _SplineSpy:
    """records the (x, y) handed to scipy's CubicSpline by grid.atomgrid while active (the arrays are the exact
    radial components; reading them back through the spline would round the last node)."""

    def __init__(self, ag):
        self.ag = ag
        self.calls = []

    def __enter__(self):
        self.orig = self.ag.CubicSpline

        def spy(*a, **k):
            x = k.get("x", a[0] if a else None)
            y = k.get("y", a[1] if len(a) > 1 else None)
            self.calls.append((np.array(x, dtype=float), np.array(y, dtype=float)))
            return self.orig(*a, **k)
        self.ag.CubicSpline = spy
        return self

    def __exit__(self, *exc):
        self.ag.CubicSpline = self.orig


def _regen_w(M, g):
    ang = M[2]
    return np.concatenate([ang.AngularGrid(degree=int(d), method=g.method).weights for d in g.degrees])


def _regen_pts(M, g):
    ang = M[2]
    return np.vstack([ang.AngularGrid(degree=int(d), method=g.method).points for d in g.degrees])


def _grid_tokens(M, g):
    return " ".join([str(g.n_shells), fvec(g.rgrid.points), fvec(g.rgrid.weights), vec([int(d) for d in g.degrees]),
                     vec([int(i) for i in g.indices]), fvec(g.weights), fvec(_regen_w(M, g))])


def _eval_points(rng, g, m):
    """random points about the centre, plus the centre, both polar half-axes, a grid point."""
    c = g.center
    rmax = float(g.rgrid.points[-1]) if g.rgrid.points[-1] > 0 else 1.0
    pts = []
    for _ in range(m):
        d = np.array([rng.gauss(0, 1) for _ in range(3)])
        d /= np.linalg.norm(d)
        pts.append(c + d * rng.uniform(0.05, 1.1) * rmax)
    pts += [c.copy(), c + np.array([0, 0, 0.37 * rmax]), c + np.array([0, 0, -0.61 * rmax]), c + np.array([0.4 * rmax, 0, 0]),
            g.points[rng.randrange(g.size)].copy()]
    # next to the hard-coded thresholds of the evaluation side: |r| just below / at / above 1e-10, directions whose z / r rounds
    # to +-1 (phi = 0 or pi with theta != 0) and a polar angle of ~2e-8 (the smallest non-zero one arccos returns is 1.5e-8)
    near = [[9e-11, 0, 0], [0, 1.1e-10, 0], [0, 0, -9e-11], [0, 0, 1e-10], [6e-11, 6e-11, 6e-11], [0, 1e-9 * rmax, 0.5 * rmax],
            [1e-9 * rmax, -1e-9 * rmax, -0.5 * rmax], [2e-8 * rmax, 0, 0.5 * rmax],
            # round 3 (class 7): within a factor 1.01 and a factor 100 of the same threshold
            [9.9e-11, 0, 0], [0, 0, 1.01e-10], [0, -1e-12, 0], [1e-8, 0, 0]]
    pts += [c + np.array(v, dtype=float) for v in rng.sample(near, 3)]
    return np.array(pts)


def _cmp_arrays(a, b, rtol, scale=None, atol=0.0):
    a = np.asarray(a, dtype=float).reshape(-1)
    b = np.asarray(b, dtype=float).reshape(-1)
    if a.shape != b.shape:
        return False
    if scale is None:
        scale = max(1e-300, float(np.max(np.abs(a))) if a.size else 0.0, float(np.max(np.abs(b))) if b.size else 0.0)
    return all(close(float(x), float(y), rtol=rtol, scale=scale, atol=atol) for x, y in zip(a, b))


def _nontrivial(info, extra=False):
    return len(set(info["degs"])) >= 2 or info["zero"] != "none" or info["rotate"] != 0 or extra


# ----------------------------------------------------------------------------------------------
# round 2: stateless references, dtype / container variants of the array arguments, call histories
# ----------------------------------------------------------------------------------------------
OPNAME = {"iac": "integrate_angular_coordinates", "avg": "spherical_average", "rcs": "radial_component_splines", "interp": "interpolate"}
FLAGS = [(0, False, False), (1, False, False), (1, True, False), (2, False, True)]


KINDED_SRC = '''
def kinded(values, kind, dtype=float):
    """the values as the array / container kind named (round 4, class 14): what the grid object is built from"""
    a = np.array(values, dtype=dtype)
    if kind in (None, "float64", "int64"):
        return a
    if kind in ("float32", "int32"):
        return a.astype(kind)
    if kind == "readonly":
        a.setflags(write=False)
        return a
    if kind == "strided":
        big = np.zeros((2 * a.shape[0] + 1,) + a.shape[1:], dtype=a.dtype)
        big[1::2] = a
        return big[1::2]
    if kind == "negative-stride":
        return a[::-1].copy()[::-1]
    if kind == "fortran":
        return np.asfortranarray(a)
    if kind == "list":
        return a.tolist()
    if kind == "int-valued":          # integer dtype holding the (integer) values
        assert np.all(a == np.rint(a))
        return np.rint(a).astype(np.int64)
    raise ValueError(kind)
'''
exec(KINDED_SRC)


def _build(M, info):
    """a new grid object from the recorded parameters (constructor, or the recorded alternative construction route); info["kinds"]
    (round 4) names the dtype / container kind of the radial points, radial weights, degrees and centre handed to the constructors."""
    ag, od = M[0], M[1]
    kinds = info.get("kinds", {})
    rg = od.OneDGrid(kinded(info["r"], kinds.get("r")), kinded(info["w"], kinds.get("w")), (0, np.inf))
    kw = dict(center=kinded(info["center"], kinds.get("center")), rotate=int(info["rotate"]), method=info["method"])
    route = info.get("route", "ctor")
    if route == "pruned":
        return ag.AtomGrid.from_pruned(rg, info["radius"], info["r_sectors"], info["d_sectors"], **kw)
    if route == "pruned-sizes":
        return ag.AtomGrid.from_pruned(rg, info["radius"], r_sectors=info["r_sectors"], d_sectors=None, s_sectors=info["s_sectors"], **kw)
    if route == "preset":
        return ag.AtomGrid.from_preset(info["atnum"], info["preset"], rg, kw["center"], kw["rotate"], kw["method"])
    if route == "sizes":
        return ag.AtomGrid(rg, None, sizes=list(info["sizes"]), **kw)
    import warnings
    with warnings.catch_warnings():
        warnings.simplefilter("ignore")
        if route == "both":              # round 4 (class 15): both alternatives at once — the documentation says the sizes win
            return ag.AtomGrid(rg, degrees=list(info["ignored_degs"]), sizes=list(info["sizes"]), **kw)
        if route == "pruned-both":       # ... and s_sectors win over d_sectors
            return ag.AtomGrid.from_pruned(rg, info["radius"], r_sectors=info["r_sectors"], d_sectors=info["ignored_d_sectors"], s_sectors=info["s_sectors"], **kw)
        if route == "one-degree":        # a single degree / size for every shell
            return ag.AtomGrid(rg, degrees=[int(info["degs"][0])], **kw)
        if route == "one-size":
            return ag.AtomGrid(rg, sizes=[int(info["sizes"][0])], **kw)
    dk = kinds.get("degs")
    degs = kinded(info["degs"], dk, dtype=np.int64) if dk else list(info["degs"])
    return ag.AtomGrid(rg, degrees=degs, **kw)


def _run_op(g, op, f, pts):
    """one entry point applied to func_vals f; everything it returns as one flat array (for splines their coefficient
    arrays, for the interpolant its values and derivative reports at pts)."""
    if op == "iac":
        return np.ravel(np.asarray(g.integrate_angular_coordinates(f)))
    if op == "avg":
        return np.ravel(np.asarray(g.spherical_average(f).c))
    if op == "rcs":
        return np.ravel(np.array([s.c for s in g.radial_component_splines(f)]))
    F = g.interpolate(f)
    return np.concatenate([np.ravel(np.asarray(F(pts, dv, ds, orad), dtype=np.longdouble)) for (dv, ds, orad) in FLAGS])


def _same(a, b):
    """bit-for-bit equal arrays (nan in the same places)"""
    a, b = np.asarray(a), np.asarray(b)
    return a.shape == b.shape and bool(np.array_equal(a, b, equal_nan=True))


def _comps(M, g, f):
    """the radial components handed to CubicSpline by radial_component_splines(f)"""
    with _SplineSpy(M[0]) as spy:
        spl = g.radial_component_splines(f)
    comps = np.array([y for (_, y) in spy.calls])
    if comps.shape != (len(spl), g.n_shells):
        comps = np.array([s(g.rgrid.points) for s in spl])
    return comps


def _indep_basis(M, g):
    """real harmonics up to l_max // 2 at the angles of the grid points, from scipy.special.sph_harm_y and angles computed here
    (shells with r = 0: the documented canonical angles, those of the unrotated angular grid of that degree). Nothing cached on
    the grid object or in grid.atomgrid is read."""
    ang = M[2]
    az, pol = np.zeros(g.size), np.zeros(g.size)
    rel = g.points - g.center
    for i in range(g.n_shells):
        s, e = g.indices[i], g.indices[i + 1]
        v = ang.AngularGrid(degree=int(g.degrees[i]), method=g.method).points if float(g.rgrid.points[i]) == 0.0 else rel[s:e]
        _, az[s:e], pol[s:e] = _angles(v)
    return real_harmonics(int(max(g.degrees)) // 2, az, pol)


def _fvariants(f):
    """(kind, array handed to the library, the same values as a C-contiguous float64 array) for 1-D func_vals"""
    out = []
    f32 = f.astype(np.float32)
    out.append(("float32", f32, f32.astype(np.float64)))
    ints = np.rint(f / (float(np.max(np.abs(f))) + 1e-300) * 50).astype(np.int64).astype(np.float64)      # through int: no negative zeros
    out.append(("int64", ints.astype(np.int64), ints.copy()))
    out.append(("int32", ints.astype(np.int32), ints.copy()))
    out.append(("bool", f > 0, (f > 0).astype(np.float64)))
    ro = f.copy()
    ro.setflags(write=False)
    out.append(("readonly", ro, f.copy()))
    big = np.zeros(2 * f.size + 1)
    big[1::2] = f
    out.append(("strided", big[1::2], f.copy()))
    rev = f[::-1].copy()
    out.append(("negative-stride", rev[::-1], f.copy()))
    roi = ints.astype(np.int64)
    roi.setflags(write=False)
    out.append(("readonly-int64", roi, ints.copy()))
    return out


def _pvariants(P):
    """(kind, points handed to the interpolant, the same points as a C-contiguous float64 array of shape (k, 3))"""
    out = []
    p32 = P.astype(np.float32)
    out.append(("float32", p32, p32.astype(np.float64)))
    pint = np.rint(P * 2).astype(np.int64).astype(np.float64)      # through int: no negative zeros (arctan2 tells them apart)
    out.append(("int64", pint.astype(np.int64), pint.copy()))
    out.append(("int32", pint.astype(np.int32), pint.copy()))
    ro = P.copy()
    ro.setflags(write=False)
    out.append(("readonly", ro, P.copy()))
    big = np.zeros((2 * len(P), 6))
    big[::2, ::2] = P
    out.append(("strided", big[::2, ::2], P.copy()))
    out.append(("fortran", np.asfortranarray(P), P.copy()))
    out.append(("single-(3,)", P[0].copy(), P[:1].copy()))
    out.append(("single-(3,)-int", pint[-1].astype(np.int64), pint[-1:].copy()))
    return out


def _chk_components(ctx, key, what, info, comps, fscale):
    def chk(ans):
        if not ans.startswith("ok"):
            return ctx.fail("corr", key, f"{what}: model answered {ans[:60]}", witness=info)
        t = Tokens(ans); t.tok(); t.nat()
        mm = np.array(t.fmat())
        if mm.shape != comps.shape or not _cmp_arrays(comps, mm, 1e-9, scale=fscale * 4 * math.pi):
            ctx.fail("corr", key, f"{what}: radial components differ from the model's (model given the harmonics of the grid angles from scipy.special.sph_harm_y, "
                     "not the array cached on the grid object)", witness=info)
    return chk


def _chk_integrate(ctx, key, what, info, impl, fscale):
    impl = np.array(impl, dtype=float).reshape(-1)

    def chk(ans):
        if not ans.startswith("ok"):
            return ctx.fail("corr", key, f"{what}: model answered {ans[:60]}", witness=info)
        t = Tokens(ans); t.tok()
        mv = np.array(t.fvec(), dtype=float)
        if mv.shape != impl.shape or not bool(np.all(np.abs(mv - impl) <= 1e-10 * 4 * math.pi * fscale)):
            ctx.fail("corr", key, f"{what}: per-shell angular integrals differ from the model", witness=dict(info=info, impl=impl, model=mv))
    return chk


def _r2_dtype(ctx, M, add, g, info, all_kinds):
    """class 2/3: dtype and container kind of func_vals and of the evaluation points; the caller's arrays stay untouched."""
    rng = ctx.rng
    N = g.size
    f0 = ctx.np_rng.normal(size=N) * 10 ** rng.uniform(-1, 1)
    pts = _eval_points(rng, g, 2)
    gt = _grid_tokens(M, g)
    fv = _fvariants(f0)
    for kind, arr, ref64 in (fv if all_kinds else rng.sample(fv, 3)):
        keep = arr.copy()
        fresh = _build(M, info)
        desc = f"func_vals given as {kind} (dtype {arr.dtype}, C-contiguous {arr.flags.c_contiguous}, writeable {arr.flags.writeable})"
        for op in ("iac", "avg", "rcs", "interp"):
            key = f"atomgrid.{OPNAME[op]}:dtype"
            ctx.count(["func_vals", kind, op, info], nontrivial=True, tag=f"func_vals:{kind}")
            try:
                got = _run_op(g, op, arr, pts)
            except Exception as e:  # noqa: BLE001
                ctx.fail("corr", key, f"{OPNAME[op]} raised {type(e).__name__}: {e}; {desc}", witness=dict(info=info, kind=kind))
                continue
            ref = _run_op(fresh, op, ref64.copy(), pts.copy())
            if not _same(got, ref):
                ctx.fail("corr", key, f"{OPNAME[op]}: {desc}: result differs from the one for the same values as float64 on a newly built identical grid "
                         f"(max deviation {float(np.max(np.abs(np.nan_to_num(np.asarray(got, dtype=float) - np.asarray(ref, dtype=float))))) if got.shape == ref.shape else 'shape'})",
                         witness=dict(info=info, kind=kind, values=ref64))
            if arr.dtype != keep.dtype or not _same(arr, keep):
                ctx.fail("corr", f"atomgrid.{OPNAME[op]}:modifies-input", f"{OPNAME[op]} changed the caller's func_vals array ({desc})", witness=dict(info=info, kind=kind))
                arr = keep.copy()          # the later entry points are examined on the original values
            if op == "iac" and kind in ("float32", "int64", "int32", "bool"):
                add(f"C09.integrate {gt} {fvec(ref64)}", _chk_integrate(ctx, key, desc, info, got, float(np.max(np.abs(ref64))) + 1e-300))
    # 2-D func_vals of integrate_angular_coordinates in other memory layouts (the reduction order over the last axis follows the
    # layout, so these are compared at 1e-13, not bit for bit)
    f2 = ctx.np_rng.normal(size=(3, N))
    big = np.zeros((6, N))
    big[::2] = f2
    for kind, arr in (("2d-fortran", np.asfortranarray(f2)), ("2d-float32", f2.astype(np.float32)), ("2d-rows-strided", big[::2]),
                      ("2d-int64", np.rint(f2 * 10).astype(np.int64))):
        keep = arr.copy()
        ctx.count(["func_vals", kind, info], nontrivial=True, tag=f"func_vals:{kind}")
        try:
            got = np.asarray(g.integrate_angular_coordinates(arr))
        except Exception as e:  # noqa: BLE001
            ctx.fail("corr", "atomgrid.integrate_angular_coordinates:dtype", f"raised {type(e).__name__}: {e} for 2-D func_vals given as {kind}", witness=dict(info=info, kind=kind))
            continue
        ref = np.asarray(_build(M, info).integrate_angular_coordinates(np.ascontiguousarray(arr, dtype=np.float64)))
        if got.shape != ref.shape or not _cmp_arrays(got, ref, 1e-13, scale=float(np.max(np.abs(ref))) + 1e-300):
            ctx.fail("corr", "atomgrid.integrate_angular_coordinates:dtype", f"2-D func_vals given as {kind}: result differs from the float64 C-contiguous computation",
                     witness=dict(info=info, kind=kind))
        if arr.dtype != keep.dtype or not _same(arr, keep):
            ctx.fail("corr", "atomgrid.integrate_angular_coordinates:modifies-input", f"changed the caller's 2-D func_vals array ({kind})", witness=dict(info=info, kind=kind))
    # evaluation points of the interpolant
    if g.n_shells < 2:
        return
    F = g.interpolate(f0)
    Fref = _build(M, info).interpolate(f0.copy())
    for kind, arr, ref64 in _pvariants(pts):
        keep = arr.copy()
        ctx.count(["points", kind, info], nontrivial=True, tag=f"points:{kind}")
        for (dv, ds, orad) in FLAGS:
            try:
                got = np.asarray(F(arr, dv, ds, orad))
            except Exception as e:  # noqa: BLE001
                ctx.fail("corr", "atomgrid.interpolate:points-dtype", f"the interpolant raised {type(e).__name__}: {e} for points given as {kind} (shape {arr.shape}, dtype {arr.dtype}), "
                         f"deriv={dv}, deriv_spherical={ds}, only_radial_deriv={orad}", witness=dict(info=info, kind=kind, points=ref64))
                break
            ref = np.asarray(Fref(ref64.copy(), dv, ds, orad))
            if not _same(got, ref):
                ctx.fail("corr", "atomgrid.interpolate:points-dtype", f"points given as {kind} (shape {arr.shape}, dtype {arr.dtype}), deriv={dv}, deriv_spherical={ds}, "
                         f"only_radial_deriv={orad}: output {got.shape} differs from the one for the same points as a float64 (k, 3) array {ref.shape}",
                         witness=dict(info=info, kind=kind, points=ref64))
        if arr.dtype != keep.dtype or not _same(arr, keep):
            ctx.fail("corr", "atomgrid.interpolate:modifies-points", f"the interpolant changed the caller's points array ({kind})", witness=dict(info=info, kind=kind))
        if kind in ("float32", "int64", "single-(3,)", "fortran"):
            sph = g.convert_cartesian_to_spherical(arr)

            def chk_sph(ans, sph=sph, kind=kind, ref64=ref64):
                t = Tokens(ans); t.tok()
                if not ans.startswith("ok") or not _cmp_arrays(sph, np.array(t.fmat()), 1e-13, scale=max(1.0, float(np.max(np.abs(sph)))), atol=1e-15):
                    ctx.fail("corr", "atomgrid.convert_cartesian_to_spherical:points-dtype", f"spherical coordinates of points given as {kind} differ from the model",
                             witness=dict(info=info, points=ref64))
            add(f"C09.cart_to_sph {' '.join(f2b(x) for x in g.center)} {fmat(ref64)}", chk_sph)
    # containers the documentation does not promise (ndarray(N, 3) is documented): information only
    for kind, arr in (("list", pts.tolist()), ("tuple", tuple(map(tuple, pts.tolist())))):
        try:
            got = np.asarray(F(arr))
        except (AttributeError, TypeError, ValueError):
            ctx.count(["points", kind, "rejected"], nontrivial=False, tag=f"points:{kind}:rejected")
            continue
        ctx.count(["points", kind, "accepted"], nontrivial=False, tag=f"points:{kind}:accepted")
        if not _same(got, np.asarray(Fref(pts.copy()))):
            ctx.fail("corr", "atomgrid.interpolate:points-dtype", f"points given as a Python {kind} are accepted but the values differ from the ndarray call", witness=dict(info=info, points=pts))
    # keyword and positional forms of the interpolant, defaults written out and left out
    want = {fl: np.asarray(Fref(pts.copy(), fl[0], fl[1], fl[2])) for fl in FLAGS}
    forms = [((0, False, False), "F(p)", lambda: F(pts)), ((0, False, False), "F(p, deriv=0)", lambda: F(pts, deriv=0)),
             ((0, False, False), "F(points=p, deriv_spherical=False, only_radial_deriv=False)", lambda: F(points=pts, deriv_spherical=False, only_radial_deriv=False)),
             ((0, False, False), "F(p, 0, False, False)", lambda: F(pts, 0, False, False)),
             ((1, False, False), "F(p, 1)", lambda: F(pts, 1)), ((1, False, False), "F(p, deriv=1)", lambda: F(pts, deriv=1)),
             ((1, False, False), "F(p, deriv=1, deriv_spherical=False, only_radial_deriv=False)", lambda: F(pts, deriv=1, deriv_spherical=False, only_radial_deriv=False)),
             ((1, True, False), "F(p, 1, True)", lambda: F(pts, 1, True)), ((1, True, False), "F(p, deriv_spherical=True, deriv=1)", lambda: F(pts, deriv_spherical=True, deriv=1)),
             ((2, False, True), "F(p, 2, False, True)", lambda: F(pts, 2, False, True)),
             ((2, False, True), "F(p, only_radial_deriv=True, deriv=2)", lambda: F(pts, only_radial_deriv=True, deriv=2))]
    for fl, text, call in forms:
        ctx.count(["call-form", text, info], nontrivial=True, tag="call-form")
        try:
            got = np.asarray(call())
        except Exception as e:  # noqa: BLE001
            ctx.fail("corr", "atomgrid.interpolate:call-form", f"{text} raised {type(e).__name__}: {e}", witness=info)
            continue
        if not _same(got, want[fl]):
            ctx.fail("corr", "atomgrid.interpolate:call-form", f"{text} differs from the positional call with deriv={fl[0]}, deriv_spherical={fl[1]}, only_radial_deriv={fl[2]} "
                     "on a newly built identical grid", witness=dict(info=info, points=pts))


NEUTRAL = ["shell-rsq", "shell-plain", "sph", "sph-points", "points", "weights", "basis", "integrate"]


def _neutral(g, rng, what, f, pts):
    """calls and attribute reads that must not influence later answers"""
    if what == "shell-rsq":
        g.get_shell_grid(rng.randrange(g.n_shells), r_sq=True)
    elif what == "shell-plain":
        g.get_shell_grid(rng.randrange(g.n_shells), r_sq=False)
    elif what == "sph":
        g.convert_cartesian_to_spherical()
    elif what == "sph-points":
        g.convert_cartesian_to_spherical(pts)
    elif what == "points":
        g.points
    elif what == "weights":
        g.weights
    elif what == "basis":
        g.basis
    else:
        g.integrate(f)


def _r2_history(ctx, M, add, g, info):
    """class 1/3: one grid object, two functions (the same two array objects throughout), the four entry points and the neutral
    calls in a seeded random order, the function calls twice; every answer against a newly built grid that saw only that call."""
    rng = ctx.rng
    fs = [ctx.np_rng.normal(size=g.size), ctx.np_rng.normal(size=g.size) * 3.0]
    keep = [f.copy() for f in fs]
    pts = _eval_points(rng, g, 2)
    fops = [(op, k) for op in ("iac", "avg", "rcs", "interp") for k in (0, 1)]
    seq = fops + [("neutral", w) for w in NEUTRAL]
    rng.shuffle(seq)
    tail = list(fops)
    rng.shuffle(tail)
    seq += tail[:6]
    first = next(op for (op, _) in seq if op != "neutral")
    ctx.count(["history", info, [list(map(str, s)) for s in seq]], nontrivial=True, tag=f"history:first={first}")
    ref = {}
    done = []
    for step in seq:
        done.append(f"{step[0]}:{step[1]}")
        if step[0] == "neutral":
            _neutral(g, rng, step[1], fs[0], pts)
            continue
        op, k = step
        got = _run_op(g, op, fs[k], pts)
        if step not in ref:
            ref[step] = _run_op(_build(M, info), op, keep[k].copy(), pts.copy())
        if not _same(got, ref[step]):
            ctx.fail("corr", f"atomgrid.{OPNAME[op]}:history", f"{OPNAME[op]}(f{k + 1}) after the calls {done[:-1]} on the same grid object differs from the answer of a newly built identical grid",
                     witness=dict(info=info, history=done))
        if not _same(fs[k], keep[k]):
            ctx.fail("corr", f"atomgrid.{OPNAME[op]}:modifies-input", f"{OPNAME[op]} changed the caller's func_vals array", witness=dict(info=info, history=done))
            fs[k][...] = keep[k]
    # the cached basis against harmonics that never touched the grid object; the last decomposition against the model given those
    ind = _indep_basis(M, g)
    if g.basis is None or np.shape(g.basis) != ind.shape or not _cmp_arrays(np.asarray(g.basis, dtype=float), ind, 1e-11, scale=1.0 + int(g.l_max)):
        ctx.fail("corr", "atomgrid.radial_component_splines:basis-cache", "the basis cached on the grid object is not the array of real harmonics at the grid angles "
                 "(scipy.special.sph_harm_y at independently computed angles)", witness=dict(info=info, history=done))
    comps = _comps(M, g, fs[0])
    add(f"C09.components {_grid_tokens(M, g)} {fmat(ind)} {fvec(keep[0])}",
        _chk_components(ctx, "atomgrid.radial_component_splines:history", f"radial_component_splines(f1) after the calls {done}", info, comps, float(np.max(np.abs(keep[0])))))


def _pair_infos(ctx, M):
    """two parameter sets with the same (l_max, size, number of shells, method) but different grid angles"""
    rng = ctx.rng
    # round 5 (class 26): also another radial grid with the same angular set-up, another centre, another method with the same sizes
    kind = rng.choice(["rotate", "permute", "first-node", "radial", "center", "method"])
    if kind == "method":
        # Lebedev degree 3 and the spherical 3-design both have 6 points
        _, a = _atom_grid(ctx, M, n=rng.choice([3, 4]), method="lebedev", degs=[3], zero_kind=rng.choice(["none", "zero"]), rotate=rng.choice([0, 5, 41]))
    else:
        _, a = _atom_grid(ctx, M, n=rng.choice([3, 4]), mixed=True, cap=9, zero_kind="zero" if kind == "first-node" else rng.choice(["none", "zero"]),
                          rotate=rng.choice([0, 5, 41]) if kind != "first-node" else rng.choice([3, 77]))
    b = dict(a)
    if kind == "method":
        b["method"] = "spherical"
    if kind == "radial":
        b["r"] = [x * 1.375 for x in a["r"]]
        b["w"] = [x * 0.75 for x in a["w"]]
    if kind == "center":
        b["center"] = [a["center"][0] + 0.5, a["center"][1], a["center"][2] - 0.25]
    if kind == "permute":
        degs = list(a["degs"])
        perm = degs[1:] + degs[:1]
        if perm == degs:
            kind = "rotate"
        else:
            b["degs"] = perm
    if kind == "rotate":
        b["rotate"] = a["rotate"] + rng.choice([1, 2, 1000])
    if kind == "first-node":
        # canonical (unrotated) angles on the r = 0 shell of a, the rotated ones on the first shell of b
        r = list(a["r"])
        r[0] = 0.25 * r[1]
        b["r"] = r
        b["zero"] = "none"
    return kind, a, b


def _r2_pair(ctx, M, add):
    """class 1: two grids alive at once that agree in l_max, size and method but not in their angles; interleaved calls."""
    rng = ctx.rng
    kind, ia, ib = _pair_infos(ctx, M)
    infos = [ia, ib]
    grids = [_build(M, ia), _build(M, ib)]
    N = grids[0].size
    fs = [ctx.np_rng.normal(size=N), ctx.np_rng.normal(size=N)]
    keep = [f.copy() for f in fs]
    pts = _eval_points(rng, grids[0], 2)
    seq = [(w, op, k) for w in (0, 1) for op in ("rcs", "interp") for k in (0, 1)] + [(0, "iac", 0), (1, "avg", 0), (1, "iac", 1), (0, "avg", 1)]
    rng.shuffle(seq)
    ctx.count(["two-grids", kind, ia, ib, [list(map(str, s)) for s in seq]], nontrivial=True, tag=f"two-grids:{kind}")
    done = []
    for (w, op, k) in seq:
        done.append(f"grid{'AB'[w]}.{op}(f{k + 1})")
        got = _run_op(grids[w], op, fs[k], pts)
        want = _run_op(_build(M, infos[w]), op, keep[k].copy(), pts.copy())
        if not _same(got, want):
            ctx.fail("corr", f"atomgrid.{OPNAME[op]}:two-grids", f"{done[-1]} after {done[:-1]} (two grids of equal l_max and size, differing in {kind}) differs from the answer of a newly built grid",
                     witness=dict(kind=kind, infoA=ia, infoB=ib, history=done))
    for w in rng.sample([0, 1], 2):
        g = grids[w]
        comps = _comps(M, g, fs[0])
        add(f"C09.components {_grid_tokens(M, g)} {fmat(_indep_basis(M, g))} {fvec(keep[0])}",
            _chk_components(ctx, "atomgrid.radial_component_splines:two-grids", f"grid{'AB'[w]}.radial_component_splines(f1) with a second grid of equal l_max and size alive (differing in {kind})",
                            dict(kind=kind, infoA=ia, infoB=ib), comps, float(np.max(np.abs(keep[0])))))
    if not (_same(fs[0], keep[0]) and _same(fs[1], keep[1])):
        ctx.fail("corr", "atomgrid.radial_component_splines:modifies-input", "a func_vals array shared between two grids was changed", witness=dict(infoA=ia, infoB=ib))


def _r2_threshold(ctx, M, add, variant):
    """class 4: radial nodes just below, at and just above the hard-coded 1e-8 of integrate_angular_coordinates. Left and right of it
    the two formulas (regenerated angular weights / division by r^2 w) agree to rounding for ordinary data; they separate when the
    products f_j * weights_j are subnormal (function values ~1e-300, or radial weights ~1e-300): the division then carries the
    rounding of the subnormal products, the regenerated weights do not. The model takes the same branch as the code."""
    rng = ctx.rng
    g, info = _atom_grid(ctx, M, n=6, zero_kind=rng.choice(["edge", "zero-edge"]), cap=7, method=rng.choice(["lebedev", "spherical", "maxdet"]))
    if variant == "w-tiny":
        w = np.array(info["w"])
        w[np.array(info["r"]) < 1e-6] *= 10.0 ** (-rng.uniform(297, 301))
        info = dict(info, w=w.tolist())
        g = _build(M, info)
    f = ctx.np_rng.normal(size=g.size)
    if variant == "f-tiny":
        f = f * 10.0 ** (-rng.uniform(300, 305))
    ctx.count(["threshold", variant, info], nontrivial=True, tag=f"threshold-1e-8:{variant}")
    with np.errstate(all="ignore"):
        impl = np.asarray(g.integrate_angular_coordinates(f), dtype=float)
    fscale = float(np.max(np.abs(f)))
    add(f"C09.integrate {_grid_tokens(M, g)} {fvec(f)}",
        _chk_integrate(ctx, "atomgrid.integrate_angular_coordinates:threshold-1e-8", f"radial nodes {info['r'][:5]} ({variant})", info, impl, fscale))
    if variant == "normal":
        comps = _comps(M, g, f)
        add(f"C09.components {_grid_tokens(M, g)} {fmat(_indep_basis(M, g))} {fvec(f)}",
            _chk_components(ctx, "atomgrid.radial_component_splines:threshold-1e-8", f"radial nodes {info['r'][:5]}", info, comps, fscale))


def _corr_round2(ctx, M, add):
    import traceback
    rng = ctx.rng

    def guarded(what, info, fn):
        try:
            fn()
        except Exception as e:  # noqa: BLE001
            ctx.fail("corr", "atomgrid:raises", f"{what}: the implementation raised {type(e).__name__}: {e}", witness=dict(info=info, traceback=traceback.format_exc()[-1500:]))

    for ig in range(ctx.n(4, 30)):
        g, info = _atom_grid(ctx, M, n=rng.choice([2, 3, 4]), cap=9) if ig != 1 else _agg_grid(ctx, M, method="lebedev")          # round 4 (class 20)
        guarded("dtype / container variants", info, lambda: _r2_dtype(ctx, M, add, g, info, all_kinds=ig < 2))
    for ih in range(ctx.n(6, 40)):
        g, info = _atom_grid(ctx, M, n=rng.choice([2, 3, 4]), cap=9) if ih % 4 != 1 else _agg_grid(ctx, M, rotate=rng.choice([0, 21]), zero_kind=rng.choice(["none", "zero"]))
        guarded("call history on one grid object", info, lambda: _r2_history(ctx, M, add, g, info))
    for ip in range(ctx.n(6, 40)):
        guarded("two grids alive at once", None, lambda: _r2_pair(ctx, M, add))
    for it in range(ctx.n(6, 36)):
        guarded("radial nodes next to 1e-8", None, lambda: _r2_threshold(ctx, M, add, ["normal", "f-tiny", "w-tiny"][it % 3]))



# ----------------------------------------------------------------------------------------------
# round 3: the generated definitions run by the driver (Gen/AtomInterp.lean: integrate / average / components, the no-argument and the
# with-argument convert_cartesian_to_spherical, the whole interpolate_low with PPoly splines and the harmonics of Model/Harmonics.lean,
# the summation loop of MolGrid.interpolate, defaults, warning condition, reshape primitive); classes 10 / 11 on the evaluation side
# ----------------------------------------------------------------------------------------------
def _spline_tokens(splines):
    """knots, number of rows, and per row scipy's `CubicSpline.c[k, i]` at column `k (n-1) + i`"""
    x = np.asarray(splines[0].x, dtype=float)
    cm = np.array([np.asarray(sp.c, dtype=float).reshape(-1) for sp in splines])
    return f"{fvec(x)} {len(splines)} {fmat(cm)}"


def _ppoly_mag(splines, r, nu):
    """per point: sum over the splines of the magnitudes of the terms of the piece evaluated (the pieces of a spline with knots 1e-9 apart have
    coefficients ~1e27 that cancel; two correct evaluations differ at eps times this)"""
    x = np.asarray(splines[0].x, dtype=float)
    i = np.clip(np.searchsorted(x, r, side="right") - 1, 0, len(x) - 2)
    d = np.abs(r - x[i])
    out = np.zeros(len(r))
    for sp in splines:
        c = np.abs(np.asarray(sp.c, dtype=float))
        for k in range(4):
            e = 3 - k - nu
            if e >= 0:
                out += 6.0 * c[k, i] * d ** e
    return out


def _arr_tokens(a):
    a = np.asarray(a, dtype=float)
    return f"{vec(list(a.shape))} {fvec(a.reshape(-1))}"


def _r3_gen_ops(ctx, M, add, g, info, first):
    """one grid through the generated definitions"""
    rng = ctx.rng
    ut = M[3]
    N = g.size
    gt = _grid_tokens(M, g)
    f = ctx.np_rng.normal(size=N) * 10 ** rng.uniform(-2, 2)
    fscale = float(np.max(np.abs(f)))
    nt = _nontrivial(info)
    # integrate_angular_coordinates / spherical_average node values / radial components through Gen
    ctx.count(["gen", "integrate", info], nontrivial=nt, tag="gen:integrate")
    add(f"C09.gen_integrate {gt} {fvec(f)}", _chk_integrate(ctx, "atomgrid.integrate_angular_coordinates:gen", "generated integrate_angular_coordinates", info,
                                                            g.integrate_angular_coordinates(f.copy()), fscale))
    if g.n_shells >= 2:
        with _SplineSpy(M[0]) as spy:
            spl = g.spherical_average(f.copy())
        av = spy.calls[-1][1] if spy.calls and spy.calls[-1][1].shape == (g.n_shells,) else spl(g.rgrid.points)

        def chk_av(ans, av=av):
            t = Tokens(ans); t.tok()
            if not ans.startswith("ok") or not _cmp_arrays(av, t.fvec(), 1e-9, scale=fscale):
                ctx.fail("corr", "atomgrid.spherical_average:gen", "node values of the spherical average differ from the generated definition", witness=info)
        ctx.count(["gen", "average", info], nontrivial=nt, tag="gen:average")
        add(f"C09.gen_average {gt} {fvec(f)}", chk_av)
        comps = _comps(M, g, f.copy())
        ctx.count(["gen", "components", info], nontrivial=nt, tag="gen:components")
        add(f"C09.gen_components {gt} {fmat(_indep_basis(M, g))} {fvec(f)}",
            _chk_components(ctx, "atomgrid.radial_component_splines:gen", "generated radial_component_splines", info, comps, fscale))
    # the no-argument convert_cartesian_to_spherical (angles of the cached basis) through the generated routine
    ang_impl = g.convert_cartesian_to_spherical()[:, 1:]

    def chk_ga(ans, want=ang_impl):
        t = Tokens(ans); t.tok()
        if not ans.startswith("ok") or not _cmp_arrays(want, np.array(t.fmat()), 1e-13, scale=4.0, atol=1e-15):
            ctx.fail("corr", "atomgrid.convert_cartesian_to_spherical:gen-atomic", "angles of the atomic grid points differ from the generated convert_cartesian_to_spherical()",
                     witness=info)
    ctx.count(["gen", "grid_angles", info], nontrivial=nt, tag="gen:grid_angles:" + info["zero"])
    add(f"C09.gen_grid_angles {g.n_shells} {fvec(g.rgrid.points)} {vec([int(i) for i in g.indices])} "
        f"{' '.join(f2b(x) for x in g.center)} {fmat(g.points)} {fmat(_regen_pts(M, g))}", chk_ga)
    # convert_cartesian_to_spherical(points, center): (M, 3), flat (3,) / (6,), explicit centre, rejected shapes
    pts = _eval_points(rng, g, 3)
    other = np.array([rng.uniform(-1, 1) for _ in range(3)])
    shapes = [("(M,3)", pts, None), ("(M,3)+center", pts, other), ("(3,)", pts[0].copy(), None), ("(6,)", pts[:2].reshape(-1).copy(), other),
              ("(4,)", pts.reshape(-1)[:4].copy(), None), ("(M,2)", pts[:, :2].copy(), None), ("(1,M,3)", pts[None, :, :].copy(), None)]
    for kind, arr, cen in (shapes if first else rng.sample(shapes, 4)):
        try:
            got = ("ok", np.asarray(g.convert_cartesian_to_spherical(arr) if cen is None else g.convert_cartesian_to_spherical(arr, center=cen), dtype=float))
        except ValueError:
            got = ("value-error", None)

        def chk_cv(ans, got=got, kind=kind, arr=arr, cen=cen):
            if got[0] != "ok" or not ans.startswith("ok"):
                if got[0] != ans.strip():
                    ctx.fail("corr", "atomgrid.convert_cartesian_to_spherical:gen-shape", f"points of shape {kind}: implementation {got[0]}, generated definition {ans[:40]}",
                             witness=dict(info=info, points=arr))
                return
            t = Tokens(ans); t.tok()
            mm = np.array(t.fmat())
            if mm.shape != got[1].shape or not _cmp_arrays(got[1], mm, 1e-13, scale=max(1.0, float(np.max(np.abs(got[1])))), atol=1e-15):
                ctx.fail("corr", "atomgrid.convert_cartesian_to_spherical:gen", f"points of shape {kind}, center={None if cen is None else cen.tolist()}: spherical coordinates differ "
                         "from the generated definition", witness=dict(info=info, points=arr))
        ctx.count(["gen", "convert", kind, info], nontrivial=True, tag="gen:convert:" + kind)
        add(f"C09.gen_convert {' '.join(f2b(x) for x in g.center)} {_arr_tokens(arr)} " + ("0" if cen is None else "1 " + " ".join(f2b(x) for x in cen)), chk_cv)
    # the whole interpolate_low
    if g.n_shells < 2 or int(g.l_max) // 2 > 7:
        return
    interp = g.interpolate(f.copy())
    splines = g.radial_component_splines(f.copy())
    st = _spline_tokens(splines)
    sph = g.convert_cartesian_to_spherical(pts)
    r_p = sph[:, 0]
    s0 = np.array([sp(r_p, 0) for sp in splines])
    combos = [(0, 0, 0), (1, 0, 0), (1, 1, 0), (1, 0, 1), (2, 0, 1), (3, 0, 1), (2, 0, 0), (1, 1, 1), (0, 1, 1), (3, 1, 0)]
    forms = [("(M,3)", pts)] + ([("(3,)", pts[-1].copy())] if first or rng.random() < 0.3 else [])
    for kind, arr in forms:
        npt = 1 if arr.ndim == 1 else len(arr)
        sel = slice(-1, None) if arr.ndim == 1 else slice(None)
        for (dv, dsph, orad) in (combos if first else rng.sample(combos, 4)):
            try:
                out = interp(arr, deriv=dv, deriv_spherical=bool(dsph), only_radial_deriv=bool(orad))
                impl = ("ok", list(np.shape(out)), np.asarray(out, dtype=float).reshape(-1))
            except ValueError:
                impl = ("value-error", None, None)
            sN = np.array([sp(r_p, dv) for sp in splines])[:, sel]
            sc = (np.sum(np.abs(sN), axis=0) + np.sum(np.abs(s0[:, sel]), axis=0)) * (1 + int(g.l_max)) + 1e-300       # per point
            sc = sc + 1e-6 * (_ppoly_mag(splines, r_p[sel], dv) + _ppoly_mag(splines, r_p[sel], 0)) * (1 + int(g.l_max))
            # amplification of the angular derivatives by the matrix of convert_derivative_from_spherical_to_cartesian at each point
            ra, pa = np.abs(sph[sel, 0]), np.abs(sph[sel, 2])
            den = np.where(ra < 1e-10, 1.0, np.where(pa < 1e-10, ra, ra * np.abs(np.sin(sph[sel, 2]))))
            amp = 1.0 + 1.0 / np.maximum(den, 1e-300)

            def chk_lo(ans, impl=impl, dv=dv, dsph=dsph, orad=orad, arr=arr, sc=sc, amp=amp, npt=npt, kind=kind):
                key = "atomgrid.interpolate:gen:" + ("values" if dv == 0 else "radial-deriv" if orad else "deriv-spherical" if dsph else "deriv-cartesian" if dv == 1 else "deriv-order")
                if impl[0] != "ok" or not ans.startswith("ok"):
                    if impl[0] != ans.strip():
                        ctx.fail("corr", key, f"deriv={dv}, deriv_spherical={bool(dsph)}, only_radial_deriv={bool(orad)}: implementation {impl[0]}, generated interpolate_low {ans[:40]}",
                                 witness=dict(info=info, points=arr))
                    return
                t = Tokens(ans); t.tok()
                shape = t.vec(); data = np.array(t.fvec())
                if shape != impl[1] or data.shape != impl[2].shape:
                    return ctx.fail("corr", key, f"points {kind}, deriv={dv}, deriv_spherical={bool(dsph)}, only_radial_deriv={bool(orad)}: shape {impl[1]} vs generated {shape}",
                                    witness=dict(info=info, points=arr))
                if dv == 1 and not orad and not dsph:
                    tol = np.repeat(2e-9 * sc * amp, 3)
                elif dv == 1 and not orad:
                    tol = np.tile(2e-9 * sc, 3)
                else:
                    tol = 2e-9 * sc
                bad = ~(np.abs(impl[2] - data) <= tol) & ~(np.isnan(impl[2]) & np.isnan(data))
                if bad.any():
                    k = int(np.argmax(bad))
                    ctx.fail("corr", key, f"points {kind}, deriv={dv}, deriv_spherical={bool(dsph)}, only_radial_deriv={bool(orad)}: entry {k} of the output {impl[2][k]!r} differs from the "
                             f"generated interpolate_low {data[k]!r} (PPoly splines from the library's coefficients, harmonics of the Lean model)",
                             witness=dict(info=info, points=arr, impl=impl[2], model=data))
            ctx.count(["gen", "interp_low", info, kind, dv, dsph, orad], nontrivial=True, tag=f"gen:interp_low:deriv={dv}:sph={dsph}:rad={orad}")
            add(f"C09.gen_interp_low {' '.join(f2b(x) for x in g.center)} {vec([int(d) for d in g.degrees])} {st} {_arr_tokens(arr)} {dv} {dsph} {orad}", chk_lo)


def _r3_fixed_ops(ctx, M, add):
    """defaults of the two signatures, the condition of the warning, the reshape primitive"""
    import inspect
    import warnings
    ag, od, mg, bk = M[0], M[1], M[4], M[5]
    g = ag.AtomGrid(od.OneDGrid(np.array([0.3, 0.9, 1.7]), np.array([0.4, 0.6, 0.9]), (0, np.inf)), degrees=[3, 5, 3])
    F = g.interpolate(np.cos(np.arange(g.size)))
    mol = mg.MolGrid(np.array([1]), [g], bk.BeckeWeights(), store=True)
    FM = mol.interpolate(np.cos(np.arange(g.size)))

    def dflt(fun):
        ps = list(inspect.signature(fun).parameters.values())
        return [int(ps[1].default), int(bool(ps[2].default)), int(bool(ps[3].default))]
    want = dflt(F) + dflt(FM)

    def chk_d(ans):
        ctx.count(["gen", "defaults"], nontrivial=False, tag="gen:defaults")
        if ans.split() != ["ok"] + [str(x) for x in want]:
            ctx.fail("corr", "atomgrid.interpolate:gen:defaults", f"defaults of the two interpolate_low signatures {want}, generated {ans}")
    add("C09.gen_defaults", chk_d)
    p = np.array([[0.2, 0.1, 0.4]])
    for ds in (False, True):
        for orad in (False, True):
            with warnings.catch_warnings(record=True) as rec:
                warnings.simplefilter("always")
                F(p, 1, ds, orad)
            warned = int(len(rec) > 0)

            def chk_w(ans, warned=warned, ds=ds, orad=orad):
                ctx.count(["gen", "warns", ds, orad], nontrivial=False, tag="gen:warns")
                if ans.split() != ["ok", str(warned)]:
                    ctx.fail("corr", "atomgrid.interpolate:gen:warning", f"deriv_spherical={ds}, only_radial_deriv={orad}: warning issued {bool(warned)}, generated condition {ans}")
            add(f"C09.gen_warns {int(ds)} {int(orad)}", chk_w)
    for shape, dims in [((3,), (-1, 3)), ((6,), (-1, 3)), ((4,), (-1, 3)), ((12,), (2, -1)), ((12,), (-1, -1)), ((6,), (2, 3)), ((6,), (4, 2)), ((0,), (-1, 3)),
                        ((2, 6), (-1, 3)), ((5,), (-2, 3)), ((6,), (3, -1, 1)), ((7,), (-1,))]:
        try:
            got = ["ok", str(len(dims))] + [str(x) for x in np.zeros(shape).reshape(*dims).shape]
        except ValueError:
            got = ["value-error"]

        def chk_r(ans, got=got, shape=shape, dims=dims):
            ctx.count(["gen", "reshape", list(shape), list(dims)], nontrivial=False, tag="primitive:reshape")
            if ans.split() != got:
                ctx.fail("corr", "primitive:reshape", f"np.zeros({shape}).reshape{dims}: NumPy {got}, primitive pyReshape {ans}")
        add(f"C09.reshape {vec(list(shape))} {vec(list(dims))}", chk_r)


def _r3_options(ctx, M, g, info):
    """classes 10 / 11: one interpolant asked with alternating option values in a seeded order (the first request on a newly built grid is
    a non-default one), two interpolants of one grid alive at once and asked alternately, the spherical coordinates with another centre
    before anything else; every answer bit for bit that of a newly built grid that saw only that request."""
    rng = ctx.rng
    f1 = ctx.np_rng.normal(size=g.size)
    f2 = ctx.np_rng.normal(size=g.size) * 2.5
    pts = _eval_points(rng, g, 2)
    pts2 = pts[::-1].copy() + 0.125
    flags = FLAGS + [(1, False, True), (3, False, True), (0, True, False)]
    g1 = _build(M, info)
    other = np.array([0.5, -0.25, 2.0])
    a = g1.convert_cartesian_to_spherical(pts, center=other)            # class 11: non-default option on a newly built grid, before anything else
    b = g1.convert_cartesian_to_spherical(pts)
    c = g1.convert_cartesian_to_spherical(pts, center=other)
    ctx.count(["options", "convert-center", info], nontrivial=True, tag="options:convert-center-first")
    ref = _build(M, info)
    if not (_same(a, c) and _same(b, ref.convert_cartesian_to_spherical(pts)) and _same(a, _build(M, info).convert_cartesian_to_spherical(pts, other))):
        ctx.fail("corr", "atomgrid.convert_cartesian_to_spherical:options", "convert_cartesian_to_spherical(points, center=c) / (points) / (points, center=c) on one grid: the answers depend on the order",
                 witness=dict(info=info, points=pts))
    F1, F2 = g1.interpolate(f1), g1.interpolate(f2)
    seq = [(w, fl, q) for w in (0, 1) for fl in flags for q in (0, 1)]
    rng.shuffle(seq)
    nd = [k for k, x in enumerate(seq) if x[1] != (0, False, False)]
    seq[0], seq[nd[0]] = seq[nd[0]], seq[0]                               # class 11: the first request is a non-default one
    seq = seq[:14]
    ctx.count(["options", info, [list(map(str, x)) for x in seq]], nontrivial=True, tag=f"options:first=deriv{seq[0][1][0]}")
    done = []
    for (w, fl, q) in seq:
        P = (pts, pts2)[q]
        done.append(f"F{w + 1}(points{q + 1}, {fl[0]}, {fl[1]}, {fl[2]})")
        got = np.asarray((F1, F2)[w](P, fl[0], fl[1], fl[2]))
        want = np.asarray(_build(M, info).interpolate((f1, f2)[w].copy())(P.copy(), fl[0], fl[1], fl[2]))
        if not _same(got, want):
            ctx.fail("corr", "atomgrid.interpolate:options", f"two interpolants F1 = interpolate(f1), F2 = interpolate(f2) of one grid, requests {done}: the last answer differs from "
                     "that of a newly built grid that saw only this request", witness=dict(info=info, history=done, points=P))
            break


# ----------------------------------------------------------------------------------------------
# round 4: crash-proof parts; classes 14 (kinds of the arrays held inside the grid object), 15 (argument combinations), 16 (one argument
# object for several requests, views into larger caller arrays), 17 (complex / extended-precision function values), 18 (a call that raises
# leaves no trace), 19 (radial grids from the real transforms, close and far nuclei), 20 (unequal shapes, sizes 1 and 2, non-monotone
# shell sizes whose aggregates coincide with a uniform grid's)
# ----------------------------------------------------------------------------------------------
def _lib_raised(exc, M):
    """did the exception come out of the library (a frame of its traceback lies in the grid package)?"""
    import os
    import traceback
    root = os.path.dirname(os.path.abspath(M[0].__file__))
    return any(os.path.abspath(fr.filename).startswith(root) for fr in traceback.extract_tb(exc.__traceback__))


class _Parts:
    """independent parts of corr / oracle: an exception in one part never hides what the others find. The library raising inside the
    envelope is a failing input of its own; anything else (harness, driver) is kept and raised again after every part has run."""

    def __init__(self, ctx, M, kind):
        self.ctx, self.M, self.kind, self.first = ctx, M, kind, None

    def run(self, key, fn, witness=None):
        import traceback
        try:
            fn()
        except Exception as e:  # noqa: BLE001
            if _lib_raised(e, self.M):
                self.ctx.fail(self.kind, key + ":raises", f"{key}: the library raised {type(e).__name__}: {e}", witness=dict(witness=witness, traceback=traceback.format_exc()[-1500:]))
            elif self.first is None:
                self.first = e

    def finish(self):
        if self.first is not None:
            raise self.first


_AGG = {}


def _aggregate_degs(M, method):
    """class 20: degree sequences (3 or 4 shells) with non-monotone shell sizes in which an aggregate coincides with a uniform grid's: the
    total size is n_shells times the size of one of the shells (the mean shell size is a shell size), that shell first / last / inside.
    E.g. Lebedev degrees [9, 7, 11] (sizes 38, 26, 50)."""
    if method not in _AGG:
        ang = M[2]
        size = {d: int(ang.AngularGrid(degree=d, method=method).size) for d in DEGS[method] if d <= 15}
        ds = sorted(size)
        out = []
        import itertools
        for n in (3, 4):
            for seq in itertools.product(ds, repeat=n):
                sz = [size[d] for d in seq]
                if len(set(seq)) < 2 or sz == sorted(sz) or sz == sorted(sz, reverse=True):
                    continue
                if sum(sz) % n == 0 and sum(sz) // n in sz:
                    out.append(list(seq))
        if not out:      # no coincidence in this table: plain non-monotone sequences
            out = [[ds[1], ds[0], ds[2]], [ds[2], ds[0], ds[1]]]
        _AGG[method] = out
    return _AGG[method]


def _agg_grid(ctx, M, method=None, first_mean=None, **kw):
    rng = ctx.rng
    method = method or rng.choice(["lebedev", "lebedev", "spherical", "maxdet"])
    seqs = _aggregate_degs(M, method)
    if first_mean is not None:
        ang = M[2]
        sel = [q for q in seqs if (int(ang.AngularGrid(degree=q[0], method=method).size) * len(q) == sum(int(ang.AngularGrid(degree=d, method=method).size) for d in q)) == first_mean]
        seqs = sel or seqs
    degs = rng.choice(seqs)
    kw.setdefault("zero_kind", "none")
    return _atom_grid(ctx, M, n=len(degs), method=method, degs=degs, **kw)


def _r4_shapes(ctx, M, add, g, info):
    """class 20: leading axes of func_vals of sizes 1, 2, n_shells, the size of a shell, two leading axes; numbers of evaluation points
    1, 2, 3 (a (3, 3) array), n_shells, the number of harmonics rows; every row / point against the one-at-a-time request."""
    rng = ctx.rng
    N, n = g.size, g.n_shells
    s0 = min(int(g.indices[1] - g.indices[0]), 14)
    base = ctx.np_rng.normal(size=(max(n, s0, 6), N))
    rows1 = [np.asarray(g.integrate_angular_coordinates(base[k].copy()), dtype=float) for k in range(base.shape[0])]
    for lead in [(1,), (2,), (n,), (s0,), (2, 1), (1, 2), (2, 3)]:
        k = int(np.prod(lead))
        arr = base[:k].reshape(lead + (N,)).copy()
        ctx.count(["shapes", "func_vals", list(lead), info], nontrivial=True, tag="shapes:func_vals:" + "x".join(map(str, lead)))
        got = np.asarray(g.integrate_angular_coordinates(arr), dtype=float)
        want = np.array(rows1[:k]).reshape(lead + (n,))
        if got.shape != want.shape or not _cmp_arrays(got, want, 1e-13, scale=float(np.max(np.abs(want))) + 1e-300):
            ctx.fail("corr", "atomgrid.integrate_angular_coordinates:shapes", f"func_vals of shape {lead + (N,)} on a grid with {n} shells of sizes {np.diff(g.indices).tolist()}: result "
                     f"{got.shape} differs from the row-by-row computation {want.shape}", witness=dict(info=info, lead=list(lead)))
    gt = _grid_tokens(M, g)
    add(f"C09.integrate {gt} {fvec(base[1])}", _chk_integrate(ctx, "atomgrid.integrate_angular_coordinates:shapes", "row of a 2-D func_vals", info, rows1[1], float(np.max(np.abs(base[1])))))
    if n < 2:
        return
    F = g.interpolate(base[0].copy())
    nrows = (int(g.l_max) // 2 + 1) ** 2
    allp = _eval_points(rng, g, nrows + 3)
    for m in sorted({1, 2, 3, n, nrows}):
        P = allp[:m].copy()
        ctx.count(["shapes", "points", m, info], nontrivial=True, tag=f"shapes:points:{'nrows' if m == nrows else 'n_shells' if m == n else m}")
        for fl in FLAGS + [(1, False, True)]:
            got = np.asarray(F(P, *fl), dtype=float)
            one = [np.asarray(F(P[k:k + 1].copy(), *fl), dtype=float) for k in range(m)]
            if fl[0] == 1 and not fl[2] and fl[1]:
                want = np.concatenate([np.array([o[c] for o in one]) for c in range(3)])          # hstack: all d/dr, then all d/dtheta, then all d/dphi
            elif fl[0] == 1 and not fl[2]:
                want = np.vstack(one)
            else:
                want = np.concatenate(one)
            if got.shape != want.shape or not _cmp_arrays(got, want, 1e-12, scale=None, atol=1e-13 * (float(np.max(np.abs(base[0]))) + 1)):
                ctx.fail("corr", "atomgrid.interpolate:shapes", f"{m} evaluation points (grid: {n} shells, {nrows} harmonics rows), deriv={fl[0]}, deriv_spherical={fl[1]}, only_radial_deriv={fl[2]}: "
                         f"the report {got.shape} differs from the points asked one at a time {want.shape}", witness=dict(info=info, points=P))


KIND_SETS = [dict(r="readonly", w="strided"), dict(r="negative-stride", w="readonly", center="list"), dict(r="strided", w="negative-stride", degs="int32", center="readonly"),
             dict(r="int-valued", w="int-valued", center="int-valued", degs="int64"), dict(center="float32", degs="strided"), dict(r="float32", w="float32")]


def _kind_info(ctx, M, kinds):
    """parameters whose values are representable in every kind asked for"""
    rng = ctx.rng
    _, info = _agg_grid(ctx, M) if rng.random() < 0.5 else _atom_grid(ctx, M, n=rng.choice([2, 3, 4]), cap=9, zero_kind=rng.choice(["none", "zero"]))
    info = dict(info)
    if kinds.get("r") == "int-valued":
        n = info["n"]
        start = 0 if info["zero"] != "none" else 1
        info["r"] = [float(start + k) for k in range(n)]
        info["w"] = [float(rng.choice([1, 2, 3])) for _ in range(n)]
        info["center"] = [float(rng.choice([-2, 0, 1, 3])) for _ in range(3)]
    if kinds.get("r") == "float32":
        info["r"] = [float(np.float32(x)) for x in info["r"]]
        info["w"] = [float(np.float32(x)) for x in info["w"]]
    if kinds.get("center") == "float32":
        info["center"] = [float(np.float32(x)) for x in info["center"]]
    return info


def _r4_object_kinds(ctx, M, add, kinds):
    """class 14: the radial points / weights, the degrees and the centre the grid object is built from in other dtypes and container
    kinds; every entry point against the grid built from the same values as float64 C-contiguous arrays (bit for bit; float32 radial
    data: the library forms r^2 w in single precision, agreement to 5e-6 demanded, recorded as information as for C01's parameters)."""
    rng = ctx.rng
    info0 = _kind_info(ctx, M, kinds)
    infok = dict(info0, kinds=kinds)
    g, gref = _build(M, infok), _build(M, info0)
    f = ctx.np_rng.normal(size=gref.size)
    pts = _eval_points(rng, gref, 2)
    f32 = kinds.get("r") == "float32"
    for op in ("iac", "avg", "rcs", "interp"):
        if gref.n_shells < 2 and op != "iac":
            continue
        ctx.count(["object-kinds", kinds, op, info0], nontrivial=True, tag="object-kinds:" + ",".join(f"{k}={v}" for k, v in sorted(kinds.items())))
        got = _run_op(g, op, f.copy(), pts.copy())
        want = _run_op(gref, op, f.copy(), pts.copy())
        ok = _same(got, want) if not f32 else (got.shape == want.shape and _cmp_arrays(np.asarray(got, dtype=float), np.asarray(want, dtype=float), 5e-6, scale=float(np.max(np.abs(np.asarray(want, dtype=float)))) + 1e-300))
        if f32 and ok and not _same(got, want):
            ctx.tagc("info:float32-radial-grid:single-precision-r2w")
        if not ok:
            ctx.fail("corr", f"atomgrid.{OPNAME[op]}:object-kinds", f"{OPNAME[op]} on a grid built from {kinds} differs from the grid built from the same values as float64 arrays",
                     witness=dict(info=infok))
    if not f32:
        add(f"C09.integrate {_grid_tokens(M, g)} {fvec(f)}", _chk_integrate(ctx, "atomgrid.integrate_angular_coordinates:object-kinds", f"grid built from {kinds}", infok,
                                                                            g.integrate_angular_coordinates(f.copy()), float(np.max(np.abs(f)))))


def _r4_mol_kinds(ctx, M):
    """class 14 for MolGrid.interpolate: aim_weights handed over as an array of another dtype / container kind, atnums / atcoords as
    integers; against the molecule built from float64 arrays of the same values."""
    mg, bk = M[4], M[5]
    rng = ctx.rng
    nat = rng.choice([2, 3])
    infos = []
    for a in range(nat):
        _, info = _agg_grid(ctx, M, method="lebedev", center=np.array([2.0 * a, float(rng.choice([-1, 0, 1])), 0.0])) if a == 0 else \
            _atom_grid(ctx, M, n=rng.choice([2, 3]), cap=7, zero_kind="none", center=np.array([2.0 * a, float(rng.choice([-1, 0, 1])), 0.0]))
        infos.append(info)
    ref = mg.MolGrid(np.array([1] * nat), [_build(M, i) for i in infos], bk.BeckeWeights(), store=True)
    w0 = np.array(ref.aim_weights, dtype=float)
    f = ctx.np_rng.normal(size=ref.size)
    pts = np.array([[rng.uniform(-1, 2.0 * nat) for _ in range(3)] for _ in range(3)] + [infos[0]["center"]])
    variants = [("readonly", w0, "readonly"), ("strided", w0, "strided"), ("negative-stride", w0, "negative-stride"),
                ("float32", w0.astype(np.float32).astype(float), "float32"), ("int ones", np.ones(ref.size), "int-valued"), ("bool", (w0 > 0.5).astype(float), "bool")]
    for name, vals, kind in variants:
        arr = (vals > 0.5) if kind == "bool" else kinded(vals, kind)
        keep = np.array(arr, copy=True)
        atn = [1] * nat if name == "strided" else np.array([1] * nat, dtype=np.int32)
        mol = mg.MolGrid(atn, [_build(M, i) for i in infos], arr, store=True)
        mref = mg.MolGrid(np.array([1] * nat), [_build(M, i) for i in infos], np.array(vals, dtype=float), store=True)
        ctx.count(["mol-kinds", name, infos], nontrivial=True, tag="object-kinds:mol:aim_weights=" + name)
        for fl in FLAGS:
            got = np.asarray(mol.interpolate(f.copy())(pts, *fl))
            want = np.asarray(mref.interpolate(f.copy())(pts, *fl))
            if not _same(got, want):
                ctx.fail("corr", "molgrid.interpolate:object-kinds", f"aim_weights handed to MolGrid as {name} (dtype {np.asarray(arr).dtype}): interpolate(deriv={fl[0]}, deriv_spherical={fl[1]}, "
                         f"only_radial_derivs={fl[2]}) differs from the molecule built from the same weights as a float64 array", witness=dict(infos=infos, kind=name, points=pts))
                break
        if not _same(np.asarray(arr), keep):
            ctx.fail("corr", "molgrid.interpolate:modifies-input", f"the aim_weights array handed to MolGrid ({name}) was changed", witness=dict(infos=infos, kind=name))


def _r4_same_object(ctx, M):
    """class 16: one func_vals array and one points array, both views into the middle of larger caller arrays, passed three times to every
    entry point and across entry points; every answer against a newly built grid given pristine copies; the whole larger arrays (the bytes
    around the views too) unchanged. One OneDGrid object and one degrees list shared by the atomic grids of a molecule."""
    rng = ctx.rng
    mg, bk = M[4], M[5]
    _, info = _agg_grid(ctx, M, center=np.array([0.25, -0.5, 1.0]), rotate=rng.choice([0, 7])) if rng.random() < 0.5 else _atom_grid(ctx, M, n=rng.choice([3, 4]), cap=9)
    g = _build(M, info)
    N = g.size
    bigf = ctx.np_rng.normal(size=N + 11)
    fv = bigf[5:5 + N]
    P0 = _eval_points(rng, g, 3)
    bigP = ctx.np_rng.normal(size=(len(P0) + 6, 3))
    bigP[2:2 + len(P0)] = P0
    pv = bigP[2:2 + len(P0)]
    keepf, keepP = bigf.copy(), bigP.copy()
    seq = [op for op in ("iac", "avg", "rcs", "interp") for _ in range(3)]
    rng.shuffle(seq)
    ctx.count(["same-object", info, seq], nontrivial=True, tag="same-object:views")
    ref = {}
    done = []
    for op in seq:
        done.append(op)
        got = _run_op(g, op, fv, pv)
        if op not in ref:
            ref[op] = _run_op(_build(M, info), op, keepf[5:5 + N].copy(), keepP[2:2 + len(P0)].copy())
        if not _same(got, ref[op]):
            ctx.fail("corr", f"atomgrid.{OPNAME[op]}:same-object", f"the same func_vals / points objects (views into larger arrays) passed repeatedly, calls {done}: the last answer differs from a newly "
                     "built grid given pristine copies", witness=dict(info=info, history=done, points=keepP[2:2 + len(P0)]))
            break
    if not (_same(bigf, keepf) and _same(bigP, keepP)):
        where = "func_vals" if not _same(bigf, keepf) else "points"
        inside = not (_same(bigf[5:5 + N], keepf[5:5 + N]) and _same(bigP[2:2 + len(P0)], keepP[2:2 + len(P0)]))
        ctx.fail("corr", "atomgrid.interpolate:modifies-input", f"the caller's larger {where} array changed ({'inside' if inside else 'AROUND'} the view handed over) during the calls {done}",
                 witness=dict(info=info, history=done))
    # one radial grid object, one degrees list, one aim-weights callable for every atom of a molecule
    od, ag = M[1], M[0]
    r, w = np.array(info["r"]), np.array(info["w"])
    rg = od.OneDGrid(r, w, (0, np.inf))
    degs = list(info["degs"])
    keep = (r.copy(), w.copy(), list(degs))
    centers = [np.array([1.9 * a, 0.1 * a, -0.2 * a]) for a in range(3)]
    grids = [ag.AtomGrid(rg, degrees=degs, center=c, rotate=int(info["rotate"]), method=info["method"]) for c in centers]
    mol = mg.MolGrid(np.array([1, 1, 1]), grids, bk.BeckeWeights(), store=True)
    f = ctx.np_rng.normal(size=mol.size)
    pts = np.array([[rng.uniform(-1, 4) for _ in range(3)] for _ in range(3)])
    ctx.count(["same-object", "shared-rgrid", info], nontrivial=True, tag="same-object:shared-rgrid")
    for fl in FLAGS[:3]:
        got = np.asarray(mol.interpolate(f)(pts, *fl))
        sep = [_build(M, dict(info, center=c.tolist())) for c in centers]
        want = np.asarray(mg.MolGrid(np.array([1, 1, 1]), sep, bk.BeckeWeights(), store=True).interpolate(f.copy())(pts.copy(), *fl))
        if not _same(got, want):
            ctx.fail("corr", "molgrid.interpolate:same-object", f"three atomic grids sharing one OneDGrid object and one degrees list: MolGrid.interpolate(deriv={fl[0]}, …) differs from the molecule "
                     "whose atomic grids were built from separate copies", witness=dict(infos=[dict(info, center=c.tolist()) for c in centers], points=pts))
            break
    if not (_same(r, keep[0]) and _same(w, keep[1]) and degs == keep[2] and _same(rg.points, keep[0]) and _same(rg.weights, keep[1])):
        ctx.fail("corr", "atomgrid:modifies-input", "the radial grid arrays / the degrees list shared by three atomic grids changed", witness=dict(info=info))


BAD_CALLS = ["rcs:size", "interp:size", "iac:size", "avg:size", "F:deriv", "F:shape2", "F:shape3d", "sph:shape", "shell:index", "interp:kind"]


def _bad_call(g, what, f, pts, F=None):
    """a request the library rejects -> the exception type name, or None if it was accepted"""
    try:
        if what == "rcs:size":
            g.radial_component_splines(f[:-1])
        elif what == "interp:size":
            g.interpolate(np.concatenate([f, f]))
        elif what == "iac:size":
            g.integrate_angular_coordinates(f[:-1])
        elif what == "avg:size":
            g.spherical_average(f[1:])
        elif what == "F:deriv":
            (F or g.interpolate(f))(pts[::-1] + 0.25, 2)          # other points of the same shape as the accepted requests
        elif what == "F:shape2":
            (F or g.interpolate(f))(pts[::-1, :2] - 0.5)
        elif what == "F:shape3d":
            (F or g.interpolate(f))(np.zeros((2, 2, 3)))
        elif what == "sph:shape":
            g.convert_cartesian_to_spherical(np.zeros(4))
        elif what == "shell:index":
            g.get_shell_grid(g.n_shells + 5)
        else:
            g.interpolate("not an array")
    except Exception as e:  # noqa: BLE001
        return type(e).__name__
    return None


def _r4_raises(ctx, M, first=None):
    """class 18: rejected requests (wrong sizes, unsupported derivative order, point arrays of the wrong shape, an index out of range, a
    string) between accepted ones, and as the very first request on a new grid: every accepted answer bit for bit that of a newly built
    grid that never saw a rejected request. Class 15 on the way: omitted / explicit None / explicit default arguments of
    convert_cartesian_to_spherical, func_vals by keyword."""
    rng = ctx.rng
    _, info = _agg_grid(ctx, M, rotate=rng.choice([0, 3])) if rng.random() < 0.4 else _atom_grid(ctx, M, n=rng.choice([2, 3, 4]), cap=9)
    g = _build(M, info)
    f = ctx.np_rng.normal(size=g.size)
    keep = f.copy()
    pts = _eval_points(rng, g, 2)
    bad = list(BAD_CALLS)
    rng.shuffle(bad)
    if first:
        bad.remove(first)
        bad.insert(0, first)
    seq = []
    for k, b in enumerate(bad[:7]):
        seq += [("bad", b), ("ok", rng.choice(["iac", "avg", "rcs", "interp"]))]
    ctx.count(["raises", info, seq], nontrivial=True, tag="raises:first=" + seq[0][1])
    F = None
    ref = {}
    done = []
    for kind, what in seq:
        done.append(what if kind == "ok" else "REJECTED " + what)
        if kind == "bad":
            res = _bad_call(g, what, f, pts, F)
            ctx.tagc(f"raises:{what}:{res or 'accepted'}")
            continue
        got = _run_op(g, what, f, pts)
        if what == "interp" and F is None:
            F = g.interpolate(f)
        if what not in ref:
            ref[what] = _run_op(_build(M, info), what, keep.copy(), pts.copy())
        if not _same(got, ref[what]):
            ctx.fail("corr", f"atomgrid.{OPNAME[what]}:after-rejected-call", f"requests {done}: the last answer differs from that of a newly built grid that never saw a rejected request",
                     witness=dict(info=info, history=done, points=pts))
            break
    if not _same(f, keep):
        ctx.fail("corr", "atomgrid.interpolate:modifies-input", f"func_vals changed during {done}", witness=dict(info=info, history=done))
    if F is not None:
        a = np.asarray(F(pts, 1))
        _bad_call(g, "F:deriv", f, pts, F)
        _bad_call(g, "F:shape2", f, pts, F)
        if not _same(a, np.asarray(F(pts, 1))):
            ctx.fail("corr", "atomgrid.interpolate:after-rejected-call", "one interpolant: deriv=1, a rejected deriv=2, a rejected (M, 2) point array, deriv=1 again: the two accepted answers differ",
                     witness=dict(info=info, points=pts))
    # class 15: omitted / None / explicit default
    g2 = _build(M, info)
    ctx.count(["arg-forms", info], nontrivial=True, tag="arg-forms")
    s0 = g2.convert_cartesian_to_spherical()
    forms = [("(points=None, center=None)", lambda: g2.convert_cartesian_to_spherical(points=None, center=None), s0), ("(None)", lambda: g2.convert_cartesian_to_spherical(None), s0),
             ("(center=grid.center)", lambda: g2.convert_cartesian_to_spherical(center=g2.center), s0)]
    p0 = g2.convert_cartesian_to_spherical(pts)
    forms += [("(points, None)", lambda: g2.convert_cartesian_to_spherical(pts, None), p0), ("(center=None, points=points)", lambda: g2.convert_cartesian_to_spherical(center=None, points=pts), p0),
              ("(points, center=grid.center)", lambda: g2.convert_cartesian_to_spherical(pts, center=g2.center), p0),
              ("(points, grid.center.tolist())", lambda: g2.convert_cartesian_to_spherical(pts, g2.center.tolist()), p0)]
    for text, call, want in forms:
        try:
            got = call()
        except Exception as e:  # noqa: BLE001
            ctx.fail("corr", "atomgrid.convert_cartesian_to_spherical:arg-forms", f"convert_cartesian_to_spherical{text} raised {type(e).__name__}: {e}", witness=dict(info=info, points=pts))
            continue
        if not _same(got, want):
            ctx.fail("corr", "atomgrid.convert_cartesian_to_spherical:arg-forms", f"convert_cartesian_to_spherical{text} differs from the call with the arguments left out", witness=dict(info=info, points=pts))
    if g2.n_shells >= 2:
        a = _run_op(g2, "rcs", f, pts)
        b = np.ravel(np.array([sp.c for sp in g2.radial_component_splines(func_vals=f)]))
        c = np.asarray(g2.interpolate(func_vals=f)(points=pts))
        if not (_same(a, b) and _same(c, np.asarray(g2.interpolate(f)(pts)))):
            ctx.fail("corr", "atomgrid.interpolate:arg-forms", "func_vals handed over by keyword gives another answer than positionally", witness=dict(info=info, points=pts))


def _corr_round4(ctx, M, add, parts):
    rng = ctx.rng
    for it in range(ctx.n(3, 20)):
        def shapes(it=it):
            g, info = _agg_grid(ctx, M, method="lebedev" if it == 0 else None, first_mean=True if it == 0 else None, rotate=rng.choice([0, 5]),
                                zero_kind=rng.choice(["none", "zero"])) if it % 3 != 2 else _atom_grid(ctx, M, n=rng.choice([1, 2]), cap=7)
            _r4_shapes(ctx, M, add, g, info)
        parts.run("atomgrid:shapes", shapes)
    ks = KIND_SETS if ctx.thorough else [KIND_SETS[0], KIND_SETS[3]] + rng.sample(KIND_SETS[1:3] + KIND_SETS[4:], 2)
    for kinds in ks:
        parts.run("atomgrid:object-kinds", lambda kinds=kinds: _r4_object_kinds(ctx, M, add, kinds), witness=kinds)
    for _ in range(ctx.n(1, 5)):
        parts.run("molgrid.interpolate:object-kinds", lambda: _r4_mol_kinds(ctx, M))
    for _ in range(ctx.n(2, 15)):
        parts.run("atomgrid:same-object", lambda: _r4_same_object(ctx, M))
    for it in range(ctx.n(4, 30)):
        # in every run: a wrong-size decomposition / interpolation as the very first request on a new grid
        parts.run("atomgrid:after-rejected-call", lambda it=it: _r4_raises(ctx, M, first={0: "rcs:size", 1: "interp:size", 2: "F:deriv"}.get(it)))


def _corr_round3(ctx, M, add):
    import traceback
    rng = ctx.rng

    def guarded(what, info, fn):
        try:
            fn()
        except Exception as e:  # noqa: BLE001
            ctx.fail("corr", "atomgrid:raises", f"{what}: the implementation raised {type(e).__name__}: {e}", witness=dict(info=info, traceback=traceback.format_exc()[-1500:]))

    def chk_e(ans):
        ctx.count(["gen", "mol", 0], nontrivial=False, tag="gen:mol:0")
        if ans.strip() != "index-error":
            ctx.fail("corr", "molgrid.interpolate:gen", f"generated summation loop on an empty list of atomic interpolants: {ans[:40]} (Python: IndexError)")
    add("C09.gen_mol_low 0", chk_e)
    guarded("defaults / warning / reshape", None, lambda: _r3_fixed_ops(ctx, M, add))
    # round 6: the generated MolGrid.interpolate (product with the atom-in-molecule weights, slices, loop) with an atomic routine that hands back
    # its function values: sum over the atoms of (func_vals * aim_weights)[indices[A]:indices[A+1]], for 1, 2, 3 atoms of equal size
    for nat in (1, 2, 3):
        seg = rng.choice([5, 12, 26])
        idx = [seg * a for a in range(nat + 1)]
        aimw = ctx.np_rng.normal(size=seg * nat) + 0.5
        fv = ctx.np_rng.normal(size=seg * nat)
        want = np.sum((fv * aimw).reshape(nat, seg), axis=0)

        def chk_mi(ans, want=want, nat=nat):
            ctx.count(["gen", "mol_interp", nat], nontrivial=True, tag=f"gen:mol_interp:{nat}")
            t = Tokens(ans); t.tok()
            if not ans.startswith("ok") or t.vec() != [len(want)] or not _cmp_arrays(want, np.array(t.fvec()), 1e-14, atol=1e-15):
                ctx.fail("corr", "molgrid.interpolate:gen-weights", f"{nat} atom(s): the generated MolGrid.interpolate does not hand (func_vals * aim_weights)[segment] to the atomic routine: {ans[:80]}")
        add(f"C09.gen_mol_interp {nat} {vec(idx)} {fvec(aimw)} {fvec(fv)}", chk_mi)
    fixed = [dict(n=2, method="lebedev", mixed=True, zero_kind="zero", cap=7), dict(n=3, method="maxdet", mixed=True, zero_kind="none", cap=6),
             dict(n=3, method="spherical", mixed=False, zero_kind="both", cap=7), dict(n=4, zero_kind="far-edge", cap=7, center=np.zeros(3)),
             dict(n=1, method="lebedev", zero_kind="none", cap=5),
             # round 4 (class 20): total size = n_shells * size of the first shell, shell sizes not monotone
             dict(n=3, method="lebedev", degs=[9, 7, 11], zero_kind="none"), dict(n=3, method="lebedev", degs=[7, 11, 9], zero_kind="zero", rotate=4)]
    for ig in range(ctx.n(16, 120)):
        kw = fixed[ig] if ig < len(fixed) else dict(cap=rng.choice([5, 7, 9, 11]), n=rng.choice([2, 3, 3, 4, 5]))
        g, info = _atom_grid(ctx, M, **kw)
        guarded("generated definitions", info, lambda: _r3_gen_ops(ctx, M, add, g, info, first=ig < 3))
    for io in range(ctx.n(5, 40)):
        g, info = _atom_grid(ctx, M, n=rng.choice([2, 3, 4]), cap=9)
        guarded("alternating options / two interpolants alive", info, lambda: _r3_options(ctx, M, g, info))


# ----------------------------------------------------------------------------------------------
# correspondence
# ----------------------------------------------------------------------------------------------
def corr(ctx: Ctx):
    M = _mods()
    ut = M[3]
    rng = ctx.rng
    ncase = ctx.n(90, 700)
    lines, checks = [], []

    def add(line, fn):
        lines.append(line)
        checks.append(fn)

    # fixed small cases first (mutations show at small sizes), then random ones
    fixed = [dict(n=2, method="lebedev", mixed=True, zero_kind="zero"), dict(n=3, method="maxdet", mixed=True, zero_kind="none"),
             dict(n=2, method="spherical", mixed=False, zero_kind="tiny"), dict(n=3, method="lebedev", mixed=True, zero_kind="both"),
             dict(n=2, method="ahrens_beylkin", mixed=True, zero_kind="none", cap=19)]
    # round 4 (class 20), in every run: mixed degrees with non-monotone shell sizes whose total is n_shells times the size of one shell
    # (mean-sized shell first, e.g. Lebedev [9, 7, 11]; last; inside), with and without a shell at r = 0
    agg = _aggregate_degs(M, "lebedev")
    firsts = [q for q in agg if len(q) == 3 and q[0] == sorted(q)[1]]
    fixed += [dict(method="lebedev", degs=[9, 7, 11], n=3, zero_kind="none"), dict(method="lebedev", degs=rng.choice(firsts or agg), n=3, zero_kind="zero"),
              dict(method="lebedev", degs=rng.choice([q for q in agg if len(q) == 4] or agg), n=4, zero_kind="none"),
              dict(method=rng.choice(["spherical", "maxdet"]), degs=None, n=3, zero_kind="none", agg=True)]
    parts = _Parts(ctx, M, "corr")

    def one_case(ic):
        kw = dict(fixed[ic]) if ic < len(fixed) else dict(cap=11 if rng.random() < 0.8 else None)
        if kw.pop("agg", False):
            kw["degs"] = rng.choice(_aggregate_degs(M, kw["method"]))
            kw["n"] = len(kw["degs"])
        g, info = _atom_grid(ctx, M, **kw)
        N = g.size
        gt = _grid_tokens(M, g)
        # ---- integrate_angular_coordinates on random values (1-D and one 2-D call)
        f = ctx.np_rng.normal(size=N) * 10 ** rng.uniform(-2, 2)
        impl = g.integrate_angular_coordinates(f.copy())
        tot = g.integrate(f)
        rew = float(np.sum(g.rgrid.points ** 2 * g.rgrid.weights * impl))

        def chk_int(ans, impl=impl, tot=tot, rew=rew, info=info, g=g, f=f):
            ctx.count(["integrate", info], nontrivial=_nontrivial(info), tag="integrate:" + info["zero"] + (":mixed" if len(set(info["degs"])) > 1 else ":uniform"))
            if not ans.startswith("ok"):
                return ctx.fail("corr", "atomgrid.integrate_angular_coordinates", f"model answered {ans[:60]}", witness=info)
            t = Tokens(ans); t.tok()
            mv = t.fvec(); mrew = t.flt(); mtot = t.flt()
            sc = float(np.max(np.abs(f))) * 4 * math.pi
            if not _cmp_arrays(impl, mv, 1e-10, scale=sc):
                ctx.fail("corr", "atomgrid.integrate_angular_coordinates", "per-shell angular integrals differ from the model",
                         witness=dict(info=info, impl=impl, model=mv))
            s2 = float(np.sum(np.abs(f * g.weights))) + 1e-300
            if not close(tot, mtot, rtol=1e-11, scale=s2) or not close(rew, mrew, rtol=1e-9, scale=s2 + abs(rew)):
                ctx.fail("corr", "atomgrid.integrate_angular_coordinates:reweighted", "grid integral / re-weighted sum differ from the model",
                         witness=dict(info=info, impl=[tot, rew], model=[mtot, mrew]))
        add(f"C09.integrate {gt} {fvec(f)}", chk_int)
        if ic % 4 == 0:
            f2 = ctx.np_rng.normal(size=(2, N))
            impl2 = g.integrate_angular_coordinates(f2.copy())
            for row in range(2):
                def chk2(ans, want=impl2[row], info=info):
                    ctx.count(["integrate2d", info], nontrivial=_nontrivial(info), tag="integrate:2d")
                    t = Tokens(ans); t.tok()
                    if not ans.startswith("ok") or not _cmp_arrays(want, t.fvec(), 1e-10, scale=20.0):
                        ctx.fail("corr", "atomgrid.integrate_angular_coordinates:2d", "row of a 2-D func_vals differs from the model", witness=info)
                add(f"C09.integrate {gt} {fvec(f2[row])}", chk2)
        try:
            # ---- spherical_average node values
            if g.n_shells >= 2:
                with _SplineSpy(M[0]) as spy:
                    spl = g.spherical_average(f.copy())
                av = spy.calls[-1][1] if spy.calls and spy.calls[-1][1].shape == (g.n_shells,) else spl(g.rgrid.points)

                def chk_av(ans, av=av, info=info, f=f):
                    ctx.count(["average", info], nontrivial=_nontrivial(info), tag="average")
                    t = Tokens(ans); t.tok()
                    if not ans.startswith("ok") or not _cmp_arrays(av, t.fvec(), 1e-9, scale=float(np.max(np.abs(f)))):
                        ctx.fail("corr", "atomgrid.spherical_average", "node values of the spherical average differ from the model", witness=info)
                add(f"C09.average {gt} {fvec(f)}", chk_av)
            # ---- radial components incl. the l_max // 2 rule and the zeroing rule
            if g.n_shells >= 2:
                gg = g
                with _SplineSpy(M[0]) as spy:
                    spl = gg.radial_component_splines(f.copy())
                comps = np.array([y for (_, y) in spy.calls])
                if comps.shape != (len(spl), gg.n_shells):
                    comps = np.array([s(gg.rgrid.points) for s in spl])
                basis = np.asarray(gg._basis, dtype=float)

                def chk_comp(ans, comps=comps, info=info, g=gg, f=f):
                    ctx.count(["components", info], nontrivial=_nontrivial(info), tag="components" + (":mixed" if len(set(info["degs"])) > 1 else ":uniform"))
                    if ans.startswith("shape-mismatch"):
                        return ctx.fail("corr", "atomgrid.radial_component_splines:l_max", f"basis has {comps.shape[0]} rows, the model expects {ans.split()[1]} = (l_max // 2 + 1)^2",
                                        witness=info)
                    if not ans.startswith("ok"):
                        return ctx.fail("corr", "atomgrid.radial_component_splines", f"model answered {ans[:60]}", witness=info)
                    t = Tokens(ans); t.tok()
                    lmax = t.nat()
                    mm = np.array(t.fmat())
                    if lmax != int(g.l_max) or mm.shape != comps.shape:
                        return ctx.fail("corr", "atomgrid.radial_component_splines:l_max", f"l_max {g.l_max} / shape {comps.shape} vs model {lmax} / {mm.shape}", witness=info)
                    sc = float(np.max(np.abs(f))) * 4 * math.pi
                    zero_impl = comps == 0.0
                    zero_model = mm == 0.0
                    if not np.array_equal(zero_impl, zero_model):
                        bad = np.argwhere(zero_impl != zero_model)[0]
                        return ctx.fail("corr", "atomgrid.radial_component_splines:zeroing",
                                        f"zeroed entries differ at row {bad[0]}, shell {bad[1]} (degrees {info['degs']}): implementation {comps[bad[0], bad[1]]}, model {mm[bad[0], bad[1]]}",
                                        witness=dict(info=info, row=int(bad[0]), shell=int(bad[1])))
                    if not _cmp_arrays(comps, mm, 1e-9, scale=sc):
                        ctx.fail("corr", "atomgrid.radial_component_splines", "radial components differ from the model", witness=info)
                add(f"C09.components {gt} {fmat(basis)} {fvec(f)}", chk_comp)
            # ---- convert_cartesian_to_spherical, with and without argument
            pts = _eval_points(rng, g, 4)
            sph = g.convert_cartesian_to_spherical(pts)

            def chk_sph(ans, sph=sph, info=info, pts=pts):
                ctx.count(["cart_to_sph", info], nontrivial=True, tag="cart_to_sph")
                t = Tokens(ans); t.tok()
                if not ans.startswith("ok") or not _cmp_arrays(sph, np.array(t.fmat()), 1e-13, scale=max(1.0, float(np.max(np.abs(sph)))), atol=1e-15):
                    ctx.fail("corr", "atomgrid.convert_cartesian_to_spherical", "spherical coordinates differ from the model",
                             witness=dict(info=info, points=pts))
            add(f"C09.cart_to_sph {' '.join(f2b(x) for x in g.center)} {fmat(pts)}", chk_sph)
            if ic % 2 == 0:
                ang_impl = g.convert_cartesian_to_spherical()[:, 1:]

                def chk_ga(ans, want=ang_impl, info=info):
                    ctx.count(["grid_angles", info], nontrivial=_nontrivial(info), tag="grid_angles:" + info["zero"])
                    t = Tokens(ans); t.tok()
                    if not ans.startswith("ok") or not _cmp_arrays(want, np.array(t.fmat()), 1e-13, scale=4.0, atol=1e-15):
                        ctx.fail("corr", "atomgrid.convert_cartesian_to_spherical:r=0", "angles of the atomic grid points (canonical angles of r = 0 shells) differ from the model",
                                 witness=info)
                add(f"C09.grid_angles {g.n_shells} {fvec(g.rgrid.points)} {vec([int(i) for i in g.indices])} "
                    f"{' '.join(f2b(x) for x in g.center)} {fmat(g.points)} {fmat(_regen_pts(M, g))}", chk_ga)
            # ---- assembly of interpolate_low
            if g.n_shells >= 2:
                try:
                    interp = g.interpolate(f.copy())
                    interp(pts[:2])
                except Exception as e:  # noqa: BLE001
                    ctx.fail("corr", "atomgrid.interpolate:raises", f"interpolate raised {type(e).__name__}: {e}", witness=info)
                    return
                splines = g.radial_component_splines(f.copy())
                L = int(g.l_max) // 2
                nrows = len(splines)
                r_p, th, ph = sph.T
                Y = np.asarray(ut.generate_real_spherical_harmonics(L, th, ph), dtype=float)
                dY = np.asarray(ut.generate_derivative_real_spherical_harmonics(L, th, ph), dtype=float)
                s0 = np.array([s(r_p, 0) for s in splines])
                combos = [(0, 0, 0), (1, 0, 0), (1, 1, 0), (1, 0, 1), (2, 0, 1), (3, 0, 1), (2, 0, 0), (0, 1, 0), (1, 1, 1), (0, 0, 1), (3, 1, 0)]
                for (dv, dsph, orad) in (combos if ic < 8 else rng.sample(combos, 4)):
                    try:
                        out = interp(pts, deriv=dv, deriv_spherical=bool(dsph), only_radial_deriv=bool(orad))
                        impl = ("ok", list(out.shape), np.asarray(out, dtype=float).reshape(-1))
                    except ValueError:
                        impl = ("value-error", None, None)
                    sN = np.array([s(r_p, dv) for s in splines])

                    def chk_as(ans, impl=impl, info=info, dv=dv, dsph=dsph, orad=orad, pts=pts, s0=s0, sN=sN):
                        ctx.count(["assemble", info, dv, dsph, orad], nontrivial=_nontrivial(info, dv != 0), tag=f"assemble:deriv={dv}:sph={dsph}:rad={orad}")
                        key = "atomgrid.interpolate:" + ("values" if dv == 0 else "radial-deriv" if orad else "deriv-spherical" if dsph else "deriv-cartesian" if dv == 1 else "deriv-order")
                        if impl[0] != "ok" or not ans.startswith("ok"):
                            if impl[0] != ans.strip():
                                ctx.fail("corr", key, f"deriv={dv}, deriv_spherical={bool(dsph)}, only_radial_deriv={bool(orad)}: implementation {impl[0]}, model {ans[:40]}", witness=info)
                            return
                        t = Tokens(ans); t.tok()
                        shape = t.vec(); data = np.array(t.fvec())
                        sc = float(np.sum(np.abs(sN)) + np.sum(np.abs(s0))) / max(1, len(pts)) + 1e-300
                        # Cartesian: entries are divided by r and r sin(phi); the comparison is relative to the entries themselves
                        if shape != impl[1]:
                            return ctx.fail("corr", key, f"shape {impl[1]} vs model {shape}", witness=info)
                        if dv == 1 and not dsph and not orad:
                            ok = _cmp_arrays(impl[2], data, 1e-9, scale=None, atol=1e-9 * sc)
                        else:
                            ok = _cmp_arrays(impl[2], data, 1e-10, scale=sc)
                        if not ok:
                            ctx.fail("corr", key, f"deriv={dv}, deriv_spherical={bool(dsph)}, only_radial_deriv={bool(orad)}: output differs from the model's assembly",
                                     witness=dict(info=info, points=pts, impl=impl[2], model=data))
                    add(f"C09.assemble {nrows} {dv} {dsph} {orad} {fmat(sph)} {fmat(sN)} {fmat(s0)} {fmat(Y)} {fmat(dY[0])} {fmat(dY[1])}", chk_as)
        except Exception as e:  # noqa: BLE001  (the library raised while the case was prepared)
            import traceback
            ctx.fail("corr", "atomgrid:raises", f"the implementation raised {type(e).__name__}: {e}", witness=dict(info=info, traceback=traceback.format_exc()[-1500:]))
    for ic in range(ncase):
        parts.run("atomgrid:correspondence-case", lambda ic=ic: one_case(ic))
    def mol_part():
        # ---- MolGrid summation
        mg, bk = M[4], M[5]
        for im in range(ctx.n(3, 30)):
            nat = rng.choice([1, 2, 3])
            grids = []
            for a in range(nat):
                g, info = _atom_grid(ctx, M, n=rng.choice([2, 3]), cap=7, zero_kind="none",
                                     center=np.array([1.7 * a + rng.uniform(-0.2, 0.2), rng.uniform(-0.5, 0.5), rng.uniform(-0.5, 0.5)]))
                grids.append(g)
                minfos = (minfos if a else []) + [info]
            mol = mg.MolGrid(np.array([1] * nat), grids, bk.BeckeWeights(), store=True)
            f = ctx.np_rng.normal(size=mol.size)
            pts = np.array([[rng.uniform(-1, 1.7 * nat) for _ in range(3)] for _ in range(4)])
            for (dv, dsph, orad) in [(0, 0, 0), (1, 0, 0), (1, 1, 0), (2, 0, 1)]:
                try:
                    out = np.asarray(mol.interpolate(f.copy())(pts, dv, bool(dsph), bool(orad)), dtype=float)
                except Exception as e:  # noqa: BLE001
                    ctx.fail("corr", "molgrid.interpolate:raises", f"MolGrid.interpolate raised {type(e).__name__}: {e}", witness=dict(natom=nat, infos=minfos))
                    break
                parts = []
                for a in range(nat):
                    s, e = mol.indices[a], mol.indices[a + 1]
                    parts.append(np.asarray(grids[a].interpolate((f * mol.aim_weights)[s:e])(pts, dv, bool(dsph), bool(orad)), dtype=float).reshape(-1))

                def chk_mol(ans, out=out, nat=nat, dv=dv, minfos=minfos):
                    ctx.count(["mol", nat, dv], nontrivial=nat >= 2, tag=f"mol:{nat}")
                    t = Tokens(ans); t.tok(); t.vec()
                    if not ans.startswith("ok") or not _cmp_arrays(out.reshape(-1), np.array(t.fvec()), 1e-12, atol=1e-13):
                        ctx.fail("corr", "molgrid.interpolate", f"MolGrid.interpolate (deriv={dv}) differs from the model's sum over the atomic interpolants", witness=dict(natom=nat, infos=minfos))
                add(f"C09.mol_combine {nat} " + " ".join(fvec(p) for p in parts), chk_mol)
                shp = vec(list(out.shape))

                def chk_gm(ans, out=out, nat=nat, dv=dv, minfos=minfos):
                    ctx.count(["gen", "mol", nat, dv], nontrivial=nat >= 2, tag=f"gen:mol:{nat}")
                    t = Tokens(ans); t.tok()
                    if not ans.startswith("ok") or t.vec() != list(out.shape) or not _cmp_arrays(out.reshape(-1), np.array(t.fvec()), 1e-12, atol=1e-13):
                        ctx.fail("corr", "molgrid.interpolate:gen", f"MolGrid.interpolate (deriv={dv}) differs from the generated summation loop over the atomic interpolants", witness=dict(natom=nat, infos=minfos))
                add(f"C09.gen_mol_low {nat} " + " ".join(f"{shp} {fvec(p)}" for p in parts), chk_gm)

    parts.run("molgrid.interpolate:correspondence", mol_part)
    # ---- round 2: dtype / container kinds, call histories, two grids alive, nodes next to the 1e-8 threshold
    parts.run("atomgrid:round2", lambda: _corr_round2(ctx, M, add))
    parts.run("atomgrid:round3", lambda: _corr_round3(ctx, M, add))
    _corr_round4(ctx, M, add, parts)
    _corr_round5(ctx, M, add, parts)
    # the implementation-only comparisons above are done; a driver problem from here on cannot hide them
    answers = driver_batch(lines)
    for ans, fn in zip(answers, checks):
        parts.run("atomgrid:model-answer", lambda ans=ans, fn=fn: fn(ans))
    parts.finish()


def real_harmonics(L, az, pol):
    """Real spherical harmonics in the row order (l; m = 0, 1, -1, 2, -2, ...) from scipy.special.sph_harm_y,
    Condon-Shortley phase removed: Y_{l,m>0} = sqrt2 (-1)^m Re Y_l^m, Y_{l,-m} = sqrt2 (-1)^m Im Y_l^m."""
    from scipy.special import sph_harm_y

    az = np.asarray(az, dtype=float)
    pol = np.asarray(pol, dtype=float)
    rows = []
    for l in range(L + 1):
        rows.append(sph_harm_y(l, 0, pol, az).real)
        for m in range(1, l + 1):
            c = sph_harm_y(l, m, pol, az) * (math.sqrt(2.0) * (-1) ** m)
            rows.append(c.real)
            rows.append(c.imag)
    return np.array(rows)


def _angles(vecs):
    """(azimuth, polar) of non-zero vectors; zero vectors get (0, 0)."""
    vecs = np.asarray(vecs, dtype=float)
    r = np.linalg.norm(vecs, axis=1)
    with np.errstate(all="ignore"):
        pol = np.arccos(np.clip(np.where(r > 0, vecs[:, 2] / np.where(r > 0, r, 1.0), 1.0), -1, 1))
    az = np.arctan2(vecs[:, 1], vecs[:, 0])
    return r, az, pol


class BandLimited:
    """f = sum_{l <= L} g_lm(r) Y_lm with g_lm(r) = r^p (a0 + a1 r + a2 r^2) exp(-alpha r^2);
    smooth: p = l and a1 = 0 (a smooth function of space, single-valued at the centre); canonical: p = 0, any a1."""

    def __init__(self, rng, L, smooth=True, amp=1.0, rscale=1.0):
        self.L = L
        self.smooth = smooth
        self.amp = float(amp)          # round 3 (class 8): f = amp * f0(r / rscale, angles)
        self.rscale = float(rscale)
        self.nrows = (L + 1) ** 2
        self.ls = [l for l in range(L + 1) for _ in range(2 * l + 1)]
        self.a = np.array([[rng.uniform(-1, 1) for _ in range(3)] for _ in range(self.nrows)])
        self.alpha = np.array([rng.uniform(0.2, 0.8) for _ in range(self.nrows)])
        self.a[0, 0] = rng.choice([1.0, -0.7]) * rng.uniform(0.5, 1.5)
        if smooth:
            self.a[:, 1] = 0.0      # r^l times an even function of r: smooth at the centre

    def g(self, r):
        """-> (nrows, len(r))"""
        r = np.asarray(r, dtype=float) / self.rscale
        out = []
        for row in range(self.nrows):
            p = self.ls[row] if self.smooth else 0
            out.append(self.amp * (r ** p * (self.a[row, 0] + self.a[row, 1] * r + self.a[row, 2] * r * r) * np.exp(-self.alpha[row] * r * r)))
        return np.array(out)

    def at(self, r, az, pol):
        return np.einsum("ij,ij->j", self.g(r), real_harmonics(self.L, az, pol))

    def to_json(self):
        return dict(L=self.L, smooth=self.smooth, a=self.a.tolist(), alpha=self.alpha.tolist(), amp=self.amp, rscale=self.rscale)


def _grid_values(M, g, bl):
    """values of bl on the points of g; on shells with r = 0 the angles are the documented canonical ones
    (those of the unrotated angular grid of that degree)."""
    ang = M[2]
    vals = np.zeros(g.size)
    for i in range(g.n_shells):
        s, e = g.indices[i], g.indices[i + 1]
        ri = float(g.rgrid.points[i])
        if ri == 0.0:
            _, az, pol = _angles(ang.AngularGrid(degree=int(g.degrees[i]), method=g.method).points)
        else:
            _, az, pol = _angles(g.points[s:e] - g.center)
        vals[s:e] = bl.at(np.full(e - s, ri), az, pol)
    return vals


def _fd(fun, h, order):
    """central differences of a scalar function at 0: order 1 (6th-order accurate stencil), 2, 3 (5-point stencils)."""
    if order == 1:
        return (-fun(-3 * h) + 9 * fun(-2 * h) - 45 * fun(-h) + 45 * fun(h) - 9 * fun(2 * h) + fun(3 * h)) / (60 * h)
    if order == 2:
        return (-fun(-2 * h) + 16 * fun(-h) - 30 * fun(0.0) + 16 * fun(h) - fun(2 * h)) / (12 * h * h)
    return (-fun(-2 * h) + 2 * fun(-h) - 2 * fun(h) + fun(2 * h)) / (2 * h ** 3)


SNIP_DEFS = """import warnings; warnings.filterwarnings('ignore')
import math
import numpy as np
from scipy.special import sph_harm_y
from grid.onedgrid import OneDGrid
from grid.atomgrid import AtomGrid
from grid.angular import AngularGrid
""" + KINDED_SRC + """
def real_harmonics(L, az, pol):
    rows = []
    for l in range(L + 1):
        rows.append(sph_harm_y(l, 0, pol, az).real)
        for m in range(1, l + 1):
            c = sph_harm_y(l, m, pol, az) * (math.sqrt(2.0) * (-1) ** m)
            rows += [c.real, c.imag]
    return np.array(rows)

def angles(v):
    r = np.linalg.norm(v, axis=1)
    with np.errstate(all='ignore'):
        pol = np.arccos(np.clip(np.where(r > 0, v[:, 2] / np.where(r > 0, r, 1.0), 1.0), -1, 1))
    return r, np.arctan2(v[:, 1], v[:, 0]), pol

def build(info):
    kinds = info.get('kinds', dict())
    rg = OneDGrid(kinded(info['r'], kinds.get('r')), kinded(info['w'], kinds.get('w')), (0, np.inf))
    kw = dict(center=kinded(info['center'], kinds.get('center')), rotate=info['rotate'], method=info['method'])
    route = info.get('route', 'ctor')
    if route == 'pruned':
        return AtomGrid.from_pruned(rg, info['radius'], info['r_sectors'], info['d_sectors'], **kw)
    if route == 'pruned-sizes':
        return AtomGrid.from_pruned(rg, info['radius'], r_sectors=info['r_sectors'], d_sectors=None, s_sectors=info['s_sectors'], **kw)
    if route == 'preset':
        return AtomGrid.from_preset(info['atnum'], info['preset'], rg, kw['center'], kw['rotate'], kw['method'])
    if route == 'sizes':
        return AtomGrid(rg, None, sizes=list(info['sizes']), **kw)
    if route == 'both':
        return AtomGrid(rg, degrees=list(info['ignored_degs']), sizes=list(info['sizes']), **kw)
    if route == 'pruned-both':
        return AtomGrid.from_pruned(rg, info['radius'], r_sectors=info['r_sectors'], d_sectors=info['ignored_d_sectors'], s_sectors=info['s_sectors'], **kw)
    if route == 'one-degree':
        return AtomGrid(rg, degrees=[int(info['degs'][0])], **kw)
    if route == 'one-size':
        return AtomGrid(rg, sizes=[int(info['sizes'][0])], **kw)
    dk = kinds.get('degs')
    return AtomGrid(rg, degrees=kinded(info['degs'], dk, dtype=np.int64) if dk else info['degs'], **kw)

def make_g(bl):
    L, smooth, a, alpha = bl['L'], bl['smooth'], np.array(bl['a']), np.array(bl['alpha'])
    ls = [l for l in range(L + 1) for _ in range(2 * l + 1)]
    amp, rscale = bl.get('amp', 1.0), bl.get('rscale', 1.0)
    def gfun(r):
        r = np.asarray(r, dtype=float) / rscale
        return np.array([amp * (r ** (ls[k] if smooth else 0) * (a[k, 0] + a[k, 1] * r + a[k, 2] * r * r) * np.exp(-alpha[k] * r * r)) for k in range(len(ls))])
    return gfun

def values(grid, bl):
    gfun = make_g(bl)
    vals = np.zeros(grid.size)
    for i in range(grid.n_shells):
        s, e = grid.indices[i], grid.indices[i + 1]
        ri = float(grid.rgrid.points[i])
        v = AngularGrid(degree=int(grid.degrees[i]), method=grid.method).points if ri == 0.0 else grid.points[s:e] - grid.center
        _, az, pol = angles(v)
        vals[s:e] = np.einsum('ij,ij->j', gfun(np.full(e - s, ri)), real_harmonics(bl['L'], az, pol))
    return vals
"""

SNIP_HEAD = SNIP_DEFS + """
info = {info!r}
bl = {bl!r}
L = bl['L']
gfun = make_g(bl)
grid = build(info)
vals = values(grid, bl)
"""

SNIP_DERIV = SNIP_HEAD + """
F = grid.interpolate(vals)
c = grid.center
p = np.array({p!r})
h = {h!r}
def fd(k):
    e = np.zeros(3); e[k] = 1.0
    v = lambda t: float(F(np.array([p + t * e]))[0])
    return (-v(-3*h) + 9*v(-2*h) - 45*v(-h) + 45*v(h) - 9*v(2*h) + v(3*h)) / (60 * h)
want = np.array([fd(0), fd(1), fd(2)])          # gradient of the interpolant itself by central differences
got = F(np.array([p]), deriv=1)[0]
assert np.allclose(got, want, rtol=0, atol={tol!r}), f'reported Cartesian derivative {{got}}, finite differences of the same interpolant {{want}}'
"""

SNIP_SPH = SNIP_HEAD + """
F = grid.interpolate(vals)
c = grid.center
r, th, ph = {q!r}
h = 2e-3
def at(r_, t_, p_):
    return float(F(np.array([c + r_ * np.array([math.sin(p_) * math.cos(t_), math.sin(p_) * math.sin(t_), math.cos(p_)])]))[0])
def fd(v):
    return (-v(-3*h) + 9*v(-2*h) - 45*v(-h) + 45*v(h) - 9*v(2*h) + v(3*h)) / (60 * h)
want_phi = fd(lambda t: at(r, th, ph + t))      # derivative of the interpolant along the meridian theta = th
p = c + r * np.array([math.sin(ph) * math.cos(th), math.sin(ph) * math.sin(th), math.cos(ph)])
got = F(np.array([p]), deriv=1, deriv_spherical=True)
assert abs(got[2] - want_phi) <= {tol!r}, f'reported d/dphi {{got[2]}}, finite differences of the same interpolant {{want_phi}}'
"""

SNIP_GENERIC = SNIP_HEAD + """
# clause {clause}
{body}
"""

# one clause of the property for one entry point (no braces in this text: it is pasted into formatted templates as a value too)
SNIP_CLAUSE = """
import grid.atomgrid as _agm
_orig = _agm.CubicSpline
_calls = []
def _spy(*a, **k):
    _calls.append(np.array(k.get('y', a[1] if len(a) > 1 else None), dtype=float))
    return _orig(*a, **k)
_agm.CubicSpline = _spy          # the arrays the splines are built from are the radial components / node values themselves

def clause(grid, G, fvals, vals, op, loose=1.0):
    # G[row, i] = g_lm(r_i), fvals = the function on the grid points, vals = the array handed to the library -> (error, tolerance)
    gs = np.max(np.abs(G)) + 1e-300
    if op == 'iac':
        A = np.asarray(grid.integrate_angular_coordinates(vals), dtype=float)
        err, tol = np.abs(A - math.sqrt(4 * math.pi) * G[0]), 2e-10 * 4 * gs * loose
    elif op == 'avg':
        del _calls[:]
        grid.spherical_average(vals)
        err, tol = np.abs(_calls[-1] - G[0] / math.sqrt(4 * math.pi)), 2e-10 * gs * loose
    elif op == 'rcs':
        del _calls[:]
        grid.radial_component_splines(vals)
        comps = np.array(_calls)
        want = np.zeros_like(comps)
        k = min(len(G), len(comps))
        want[:k] = G[:k]
        err, tol = np.abs(comps - want), 1e-9 * 4 * gs * loose
    else:
        F = grid.interpolate(vals)
        nrows = (int(max(grid.degrees)) // 2 + 1) ** 2
        err = np.abs(np.asarray(F(grid.points), dtype=float) - fvals)
        tol = 1e-8 * (np.max(np.abs(fvals)) + 1e-300) * (1 + nrows) * loose
    return float(np.max(np.nan_to_num(err, nan=np.inf))), float(tol)
"""

SNIP_HIST = SNIP_DEFS + SNIP_CLAUSE + """
infos = {infos!r}
bls = {bls!r}
steps = {steps!r}     # (grid, function, call) in the order made; the clause of the last call is asserted
pts = np.array({pts!r})
grids = [build(i) for i in infos]
vals = dict()
for n, (w, k, op) in enumerate(steps):
    g = grids[w]
    if k is None:
        if op.startswith('bad:'):
            ff = np.cos(np.arange(g.size))
            try:
                {{'rcs:size': lambda: g.radial_component_splines(ff[:-1]), 'interp:size': lambda: g.interpolate(np.concatenate([ff, ff])),
                 'iac:size': lambda: g.integrate_angular_coordinates(ff[:-1]), 'avg:size': lambda: g.spherical_average(ff[1:]),
                 'F:deriv': lambda: g.interpolate(ff)(pts, 2), 'F:shape2': lambda: g.interpolate(ff)(pts[:, :2]),
                 'F:shape3d': lambda: g.interpolate(ff)(np.zeros((2, 2, 3))), 'sph:shape': lambda: g.convert_cartesian_to_spherical(np.zeros(4)),
                 'shell:index': lambda: g.get_shell_grid(g.n_shells + 5), 'interp:kind': lambda: g.interpolate('not an array')}}[op[4:]]()
            except Exception:
                pass
        elif op.startswith('shell'):
            g.get_shell_grid(int(op.split(':')[1]), r_sq=bool(int(op.split(':')[2])))
        elif op == 'sph':
            g.convert_cartesian_to_spherical()
        elif op == 'sph-points':
            g.convert_cartesian_to_spherical(pts)
        elif op == 'integrate':
            g.integrate(np.ones(g.size))
        else:
            getattr(g, op)          # points, weights, basis
        continue
    if (w, k) not in vals:
        vals[(w, k)] = values(g, bls[k])          # one array object per (grid, function), reused by every call
    true = values(g, bls[k])
    err, tol = clause(g, make_g(bls[k])(g.rgrid.points), true, vals[(w, k)], op)
    if n == len(steps) - 1:
        assert np.array_equal(vals[(w, k)], true), 'the call ' + op + ' changed the function values handed in'
        assert err <= tol, (op, err, tol)
"""

SNIP_MOL = SNIP_DEFS + """
from grid.molgrid import MolGrid
from grid.becke import BeckeWeights
infos = {infos!r}
atnums = {atnums!r}
co = {co!r}
pts = np.array({pts!r})
grids = [build(i) for i in infos]
mol = MolGrid(np.array(atnums), grids, BeckeWeights(order=3), store=True)
def fun(p):
    out = np.zeros(len(p))
    for i, (a0, al, v) in zip(infos, co):
        d = p - np.array(i['center'])
        out += (a0 + d @ np.array(v)) * np.exp(-al * np.sum(d * d, axis=1))
    return out
f = fun(mol.points)
keep = f.copy()
F1 = mol.interpolate(f)
a = np.asarray(F1(pts, {dv!r}, {ds!r}, {orad!r}))
mol.interpolate(f * f - 0.3)(pts)
for g in grids:
    g.interpolate(np.cos(np.arange(g.size)))(pts)
b = np.asarray(mol.interpolate(f)(pts, {dv!r}, {ds!r}, {orad!r}))
c = np.asarray(F1(pts, {dv!r}, {ds!r}, {orad!r}))
assert np.array_equal(f, keep), 'MolGrid.interpolate changed the function values handed in'
assert np.array_equal(a, b) and np.array_equal(a, c), 'the same function on the same MolGrid gives different answers after other calls'
fresh = [build(i) for i in infos]
want = sum(np.asarray(fresh[k].interpolate((f * mol.aim_weights)[mol.indices[k]:mol.indices[k + 1]])(pts, {dv!r}, {ds!r}, {orad!r}), dtype=float) for k in range(len(fresh)))
assert np.allclose(np.asarray(a, dtype=float), want, rtol=0, atol=1e-11 * max(1.0, float(np.max(np.abs(want))))), 'not the sum of the atomic interpolants of w_A f'
"""


def _oracle_atom(ctx, M, g, info, bl, budget, label, derivs=True):
    """every clause of the property on one grid and one band-limited function (derivs=False: without the finite-difference clauses,
    whose step sizes assume radial spacings of order one)."""
    ag, od, ang, ut = M[0], M[1], M[2], M[3]
    rng = ctx.rng
    L = bl.L
    vals = _grid_values(M, g, bl)
    r_nodes = g.rgrid.points
    G = bl.g(r_nodes)                      # (rows_f, n)
    gscale = float(np.max(np.abs(G))) + 1e-300
    wit = dict(info=info, function=bl.to_json())

    def snip(clause, body):
        return SNIP_GENERIC.format(info=info, bl=bl.to_json(), clause=clause, body=body)

    ctx.count(["oracle", label, info, L, bl.smooth], nontrivial=_nontrivial(info), tag=f"oracle:{info['method']}:{label}")
    # (1) angular integral per shell = sqrt(4 pi) g_00(r_i)
    A = g.integrate_angular_coordinates(vals.copy())
    want = math.sqrt(4 * math.pi) * G[0]
    if not _cmp_arrays(A, want, 2e-10, scale=gscale * 4):
        i = int(np.nanargmax(np.abs(np.nan_to_num(A - want, nan=np.inf))))
        ctx.fail("oracle", "atomgrid.integrate_angular_coordinates:exact",
                 f"angular integral on shell {i} (r = {r_nodes[i]!r}, degree {g.degrees[i]}): {A[i]!r}, sqrt(4 pi) g_00(r_i) = {want[i]!r}",
                 witness=wit, snippet=snip("angular integral per shell",
                 "A = grid.integrate_angular_coordinates(vals.copy())\nwant = math.sqrt(4 * math.pi) * gfun(grid.rgrid.points)[0]\n"
                 "assert np.allclose(A, want, rtol=0, atol=2e-10 * 4 * np.max(np.abs(gfun(grid.rgrid.points)))), (A, want)"))
    # (2) re-weighted sum = full grid integral
    tot = float(g.integrate(vals))
    rew = float(np.sum(r_nodes ** 2 * g.rgrid.weights * A))
    if not close(rew, tot, rtol=1e-10, scale=float(np.sum(np.abs(vals * g.weights))) + 1e-300):
        ctx.fail("oracle", "atomgrid.integrate_angular_coordinates:reweighted", f"sum_i r_i^2 w_i A_i = {rew!r}, grid integral = {tot!r}", witness=wit,
                 snippet=snip("re-weighted sum", "A = grid.integrate_angular_coordinates(vals.copy())\nrew = np.sum(grid.rgrid.points**2 * grid.rgrid.weights * A)\n"
                              "assert abs(rew - grid.integrate(vals)) <= 1e-10 * np.sum(np.abs(vals * grid.weights)), (rew, grid.integrate(vals))"))
    if g.n_shells < 2:
        return
    # (3) splines pass through g_lm(r_i); rows above the band limit are zero
    with _SplineSpy(ag) as spy:
        splines = g.radial_component_splines(vals.copy())
    nrows = (int(max(g.degrees)) // 2 + 1) ** 2
    if len(splines) != nrows:
        ctx.fail("oracle", "atomgrid.radial_component_splines:l_max", f"{len(splines)} radial components, (l_max // 2 + 1)^2 = {nrows}", witness=wit,
                 snippet=snip("number of components", f"assert len(grid.radial_component_splines(vals)) == {nrows}"))
    comps = np.array([s(r_nodes) for s in splines])
    handed = np.array([y for (_, y) in spy.calls])
    if (info["zero"] in ("tiny", "both", "edge", "zero-edge", "far-edge") or info.get("rgrid")) and handed.shape == comps.shape:
        # knots 1e-9 apart: reading a cubic piece back at its right end rounds at the size of its coefficients;
        # the clause is examined on the arrays the splines are built from
        comps = handed
    wantc = np.zeros_like(comps)
    k = min(bl.nrows, comps.shape[0])
    wantc[:k] = G[:k]
    if not _cmp_arrays(comps, wantc, 1e-9, scale=gscale * 4):
        d = np.abs(np.nan_to_num(comps - wantc, nan=np.inf))
        row, i = np.unravel_index(int(np.argmax(d)), d.shape)
        above = row >= (int(g.degrees[i]) // 2 + 1) ** 2
        key = "atomgrid.radial_component_splines:zeroing" if above else "atomgrid.radial_component_splines:components"
        ctx.fail("oracle", key, f"radial component row {row} at shell {i} (r = {r_nodes[i]!r}, degree {g.degrees[i]}, degrees {info['degs']}): spline value {comps[row, i]!r}, g_lm(r_i) = {wantc[row, i]!r}",
                 witness=wit, snippet=snip("splines through g_lm(r_i)",
                 f"spl = grid.radial_component_splines(vals)\ngot = float(spl[{int(row)}](grid.rgrid.points[{int(i)}]))\nwant = {float(wantc[row, i])!r}\n"
                 f"assert abs(got - want) <= {1e-9 * gscale * 4!r}, (got, want)"))
    # (4) interpolant = f at every grid point (shells with r = 0: only for functions single-valued at the centre)
    F = g.interpolate(vals.copy())
    mask = np.ones(g.size, dtype=bool)
    if not bl.smooth:
        for i in range(g.n_shells):
            if r_nodes[i] == 0.0:
                mask[g.indices[i]:g.indices[i + 1]] = False
    fv = np.asarray(F(g.points), dtype=float)
    fscale = float(np.max(np.abs(vals))) + 1e-300
    bad = np.abs(np.nan_to_num(fv - vals, nan=np.inf)) > 1e-8 * fscale * (1 + comps.shape[0])
    bad &= mask
    if bad.any():
        j = int(np.argmax(bad))
        ctx.fail("oracle", "atomgrid.interpolate:grid-values", f"interpolant at grid point {j} = {fv[j]!r}, function value {vals[j]!r}", witness=wit,
                 snippet=snip("interpolant at grid points", f"F = grid.interpolate(vals)\ngot = float(F(grid.points[{j}:{j}+1])[0])\nassert abs(got - vals[{j}]) <= {1e-8 * fscale * (1 + comps.shape[0])!r}, (got, vals[{j}])"))
    # (4b) round 3 (class 12): on the whole sphere of every radial shell, not only at its grid points, the interpolant of a band-limited
    #      function is the function (the splines pass through g_lm(r_i)): random directions, the three axes through the centre
    c = g.center
    ish = [i for i in range(g.n_shells) if r_nodes[i] > 0.0]
    if ish:
        nd = 3 if budget == "small" else 8
        dirs = np.vstack([ctx.np_rng.normal(size=(nd, 3)), np.eye(3), -np.eye(3)[2:]])
        dirs /= np.linalg.norm(dirs, axis=1)[:, None]
        for i in (ish if budget != "small" else rng.sample(ish, min(2, len(ish)))):
            P = c + float(r_nodes[i]) * dirs
            _, az, pol = _angles(P - c)
            want = bl.at(np.full(len(P), float(r_nodes[i])), az, pol)
            got = np.asarray(F(P), dtype=float)
            d = np.abs(np.nan_to_num(got - want, nan=np.inf))
            j = int(np.argmax(d))
            if got.shape != want.shape or d[j] > 1e-8 * fscale * (1 + comps.shape[0]):
                ctx.fail("oracle", "atomgrid.interpolate:on-shell", f"interpolant at {P[j].tolist()} (a point of the sphere of radial shell {i}, r = {r_nodes[i]!r}, not a grid point) = {got.reshape(-1)[j]!r}, "
                         f"function value {want[j]!r}", witness=dict(wit, point=P[j]),
                         snippet=snip("interpolant on the sphere of a radial shell", f"p = np.array({P[j].tolist()!r})\nF = grid.interpolate(vals)\nr, az, pol = angles(np.array([p - grid.center]))\n"
                                      f"want = float(np.einsum('ij,ij->j', gfun(np.array([{float(r_nodes[i])!r}])), real_harmonics(L, az, pol))[0])\n"
                                      f"assert abs(float(F(np.array([p]))[0]) - want) <= {1e-8 * fscale * (1 + comps.shape[0])!r}, (float(F(np.array([p]))[0]), want)"))
    # (5) at arbitrary points: interpolant = sum spline * Y (independent harmonics and angles)
    rmax = float(r_nodes[-1])
    npt = 6 if budget == "small" else 25
    dirs = ctx.np_rng.normal(size=(npt, 3))
    dirs /= np.linalg.norm(dirs, axis=1)[:, None]
    radii = np.array([rng.uniform(0.05, 1.0) * rmax for _ in range(npt)])
    special = np.array([[0, 0, 0.0], [0, 0, 0.43 * rmax], [0, 0, -0.71 * rmax], [0.3 * rmax, 0, 0], [0, -0.55 * rmax, 0],
                        # next to the 1e-10 thresholds of the evaluation side (the value clause has no special case there)
                        [0, 0, 9e-11], [1.1e-10, 0, 0], [0, 1e-9 * rmax, 0.5 * rmax], [2e-8 * rmax, 0, -0.5 * rmax],
                        # round 3 (classes 7, 12): a factor 1.01 / 100 from that threshold; the Cartesian origin (the centre may be elsewhere);
                        # points of a radial shell on the polar axis and on the x axis
                        [9.9e-11, 0, 0], [0, -1.01e-10, 0], [0, 0, 1e-12], [-1e-8, 0, 0], (-c).tolist(),
                        [0, 0, float(r_nodes[-2])], [float(r_nodes[-1]), 0, 0], [0, 0, -float(r_nodes[g.n_shells // 2])]])
    pts = c + np.vstack([dirs * radii[:, None], special])
    rel = pts - c                          # the position about the centre of the point actually handed over
    rr, az, pol = _angles(rel)
    Lc = int(max(g.degrees)) // 2
    Yind = real_harmonics(Lc, az, pol)[: len(splines)]
    S0 = np.array([s(rr) for s in splines])
    want = np.einsum("ij,ij->j", S0[: Yind.shape[0]], Yind)
    got = np.asarray(F(pts), dtype=float)
    sscale = float(np.max(np.sum(np.abs(S0), axis=0))) + 1e-300
    if got.shape != want.shape or not _cmp_arrays(got, want, 1e-10, scale=sscale):
        j = int(np.argmax(np.abs(np.nan_to_num(got - want, nan=np.inf)))) if got.shape == want.shape else 0
        ctx.fail("oracle", "atomgrid.interpolate:is-sum", f"interpolant at {pts[j].tolist()} = {got.reshape(-1)[j]!r}, sum_lm spline_lm(r) Y_lm = {want[j]!r}", witness=dict(wit, point=pts[j]),
                 snippet=snip("interpolant = sum spline * Y", f"p = np.array({pts[j].tolist()!r})\nF = grid.interpolate(vals)\nspl = grid.radial_component_splines(vals)\n"
                              f"r, az, pol = angles(np.array([p - grid.center]))\nY = real_harmonics(int(max(grid.degrees)) // 2, az, pol)\n"
                              f"want = sum(float(spl[k](r[0])) * Y[k, 0] for k in range(len(spl)))\nassert abs(float(F(np.array([p]))[0]) - want) <= {1e-10 * sscale!r}"))
    # (5b) round 5 (class 24): the evaluation points are independent of the radial grid — far beyond the last shell (the splines extrapolate their
    #      last cubic piece) and deep inside the first shell with r > 0; tolerance per point (the extrapolated pieces grow like r^3)
    rpos = r_nodes[r_nodes > 0]
    uu = ctx.np_rng.normal(size=(4, 3))
    uu /= np.linalg.norm(uu, axis=1)[:, None]
    far = c + uu * np.array([[3.0 * rmax], [100.0 * rmax], [0.1 * float(rpos[0])], [1e-3 * float(rpos[0])]])
    rr5, az5, pol5 = _angles(far - c)
    Sf = np.array([s(rr5) for s in splines])
    want5 = np.einsum("ij,ij->j", Sf[: Yind.shape[0]], real_harmonics(Lc, az5, pol5)[: len(splines)])
    got5 = np.asarray(F(far), dtype=float)
    tol5 = 1e-10 * (np.sum(np.abs(Sf), axis=0) + 1e-300)
    ctx.tagc("oracle:far-and-inner-points")
    if got5.shape != want5.shape or not np.all(np.abs(got5 - want5) <= tol5):
        j = int(np.argmax(np.abs(np.nan_to_num(got5 - want5, nan=np.inf)) / tol5)) if got5.shape == want5.shape else 0
        ctx.fail("oracle", "atomgrid.interpolate:is-sum", f"interpolant at {far[j].tolist()} (r = {rr5[j]!r}; radial nodes from {float(rpos[0])!r} to {rmax!r}) = {got5.reshape(-1)[j]!r}, sum_lm spline_lm(r) Y_lm = {want5[j]!r}",
                 witness=dict(wit, point=far[j]), snippet=SNIP_PTS.format(info=info, bl=bl.to_json(), arr=far[j:j + 1].tolist(), tol=float(tol5[j])))
    # (6) derivatives against finite differences of the interpolant itself
    if derivs:
        _oracle_derivs(ctx, g, info, bl, F, splines, wit, budget)
        _oracle_chain(ctx, g, info, bl, F, wit)
    # (7) spherical average integrates back
    with _SplineSpy(ag) as spy7:
        avg = g.spherical_average(vals.copy())
    avn = avg(r_nodes)
    if info.get("rgrid") and spy7.calls and spy7.calls[-1][1].shape == avn.shape:
        # radial grids of the real transforms: intervals from 1e-3 to 1e3 long, r^2 w up to 1e12 — the node values are taken as handed to the spline
        avn = spy7.calls[-1][1]
    back = float(g.rgrid.integrate(4 * math.pi * r_nodes ** 2 * avn))
    if not close(back, tot, rtol=1e-9, scale=float(np.sum(np.abs(vals * g.weights))) + 1e-300):
        ctx.fail("oracle", "atomgrid.spherical_average:integrates-back", f"radial integral of 4 pi r^2 f_avg = {back!r}, grid integral {tot!r}", witness=wit,
                 snippet=snip("spherical average integrates back", "avg = grid.spherical_average(vals.copy())\nr = grid.rgrid.points\nback = grid.rgrid.integrate(4 * math.pi * r**2 * avg(r))\n"
                              "assert abs(back - grid.integrate(vals)) <= 1e-9 * np.sum(np.abs(vals * grid.weights)), (back, grid.integrate(vals))"))
    # (8) the cached basis does not change later results: a second function on the same grid object
    bl2 = BandLimited(rng, L, smooth=True)
    v2 = _grid_values(M, g, bl2)
    c2 = np.array([s(r_nodes) for s in g.radial_component_splines(v2.copy())])
    w2 = np.zeros_like(c2)
    w2[: min(bl2.nrows, c2.shape[0])] = bl2.g(r_nodes)[: c2.shape[0]]
    if not _cmp_arrays(c2, w2, 1e-9, scale=float(np.max(np.abs(w2))) * 4 + 1e-300):
        ctx.fail("oracle", "atomgrid.radial_component_splines:basis-cache", "second decomposition on the same grid object (cached basis) does not recover its g_lm(r_i)", witness=wit)
    # (9) round 3 (class 10): two interpolants of one grid alive at once — the first one still is the interpolant of its own function after the
    #     second was built and used (both asked alternately, with different options)
    F2 = g.interpolate(v2.copy())
    sel = np.unique(np.linspace(0, g.size - 1, 7).astype(int))
    F2(g.points[sel], 1)
    a1 = np.asarray(F(g.points[sel]), dtype=float)
    a2 = np.asarray(F2(g.points[sel]), dtype=float)
    F(g.points[sel], 1, True)
    b1 = np.asarray(F(g.points[sel]), dtype=float)
    m1 = mask[sel]
    tol2 = 1e-8 * (1 + comps.shape[0])
    if not (np.all(np.abs(a1 - vals[sel])[m1] <= tol2 * fscale) and np.all(np.abs(b1 - vals[sel])[m1] <= tol2 * fscale)
            and np.all(np.abs(a2 - v2[sel])[m1] <= tol2 * (float(np.max(np.abs(v2))) + 1e-300))):
        ctx.fail("oracle", "atomgrid.interpolate:two-interpolants", "with two interpolants F1 = interpolate(f1), F2 = interpolate(f2) of one grid alive, one of them no longer reproduces its own "
                 f"function at the grid points {sel.tolist()}: F1 {a1.tolist()} / {b1.tolist()} vs f1 {vals[sel].tolist()}; F2 {a2.tolist()} vs f2 {v2[sel].tolist()}",
                 witness=dict(wit, second=bl2.to_json()),
                 snippet=snip("two interpolants alive", f"bl2 = {bl2.to_json()!r}\nv2 = values(grid, bl2)\nF1 = grid.interpolate(vals)\nF2 = grid.interpolate(v2)\nsel = {sel.tolist()!r}\n"
                              f"F2(grid.points[sel], 1)\nassert np.all(np.abs(np.asarray(F1(grid.points[sel]), dtype=float) - vals[sel]) <= {tol2 * fscale!r}), 'F1 is no longer the interpolant of f1'"))


def _oracle_derivs(ctx, g, info, bl, F, splines, wit, budget):
    rng = ctx.rng
    r_nodes = g.rgrid.points
    c = g.center
    n = g.n_shells
    Lc = int(max(g.degrees)) // 2

    def val(p):
        return float(F(np.array([p]))[0])

    def cart(r, th, ph):
        return c + r * np.array([math.sin(ph) * math.cos(th), math.sin(ph) * math.sin(th), math.cos(ph)])

    def interval():
        """a radius strictly inside a knot interval and the distance to the nearest knot"""
        i = rng.choice([k for k in range(n - 1) if r_nodes[k + 1] - r_nodes[k] >= 0.05])
        a, b = float(r_nodes[i]), float(r_nodes[i + 1])
        t = rng.uniform(0.3, 0.7)
        r = a + t * (b - a)
        return r, min(r - a, b - r)

    def snip_d(p, h, tol):
        return SNIP_DERIV.format(info=info, bl=bl.to_json(), p=[float(x) for x in p], h=float(h), tol=float(tol))

    def snip_s(q, tol):
        return SNIP_SPH.format(info=info, bl=bl.to_json(), q=[float(x) for x in q], tol=float(tol))

    ngen = 3 if budget == "small" else 12
    cases = []
    for _ in range(ngen):
        r, dist = interval()
        th = rng.uniform(-math.pi, math.pi)
        ph = rng.uniform(0.35, math.pi - 0.35)
        cases.append(("generic", r, dist, th, ph))
    r, dist = interval()
    cases.append(("z-axis", r, dist, 0.0, 0.0))          # positive polar axis: convert_cart_to_sph gives theta = 0, phi = 0
    r, dist = interval()
    cases.append(("z-axis", r, dist, 0.0, math.pi))      # negative polar axis
    for (kind, r, dist, th, ph) in cases:
        p = c + np.array([0.0, 0.0, r if ph == 0.0 else -r]) if kind == "z-axis" else cart(r, th, ph)
        # magnitude of the interpolant's ingredients at this radius (tolerances are relative to it)
        S0 = np.array([float(s(r)) for s in splines])
        S1 = np.array([float(s(r, 1)) for s in splines])
        mag = float(np.sum(np.abs(S0))) + 1e-300
        mag1 = float(np.sum(np.abs(S1))) + mag / max(r, 1e-3)
        # -- radial-only derivatives of order 1, 2, 3: along the ray the interpolant is one cubic polynomial between two knots,
        #    so the stencils below are exact up to rounding eps * mag / h^order (h = dist / 4)
        u = (p - c) / np.linalg.norm(p - c)
        h = dist / 4
        for nu in (1, 2, 3):
            got = float(F(np.array([p]), deriv=nu, only_radial_deriv=True)[0])
            want = _fd(lambda t: val(c + (r + t) * u), h, nu)
            tol = 1e-9 * mag1 + 4e-13 * mag / h ** nu + 1e-9 * abs(want)
            if not abs(got - want) <= tol:
                ctx.fail("oracle", "atomgrid.interpolate:radial-deriv", f"only_radial_deriv, deriv={nu} at {p.tolist()}: reported {got!r}, finite differences of the interpolant along the ray {want!r}",
                         witness=dict(wit, point=p, order=nu))
        # -- spherical-coordinate derivatives: 6th-order central differences in r (exact on a cubic), theta and phi
        #    (step 2e-3: truncation h^6 Lc^7 / 140 <= 1e-11 mag for Lc <= 12, rounding 1e-13 mag)
        hs = 2e-3
        got = np.asarray(F(np.array([p]), deriv=1, deriv_spherical=True), dtype=float).reshape(-1)
        q = ut_sph(g, p)
        want = np.array([_fd(lambda t: val(cart(q[0] + t, q[1], q[2])), h, 1),
                         _fd(lambda t: val(cart(q[0], q[1] + t, q[2])), hs, 1),
                         _fd(lambda t: val(cart(q[0], q[1], q[2] + t)), hs, 1)])
        tols = np.array([1e-9 * mag1 + 4e-13 * mag / h, 1e-8 * mag * (1 + Lc), 1e-8 * mag * (1 + Lc)])
        if got.shape != (3,) or not np.all(np.abs(got - want) <= tols):
            key = "atomgrid.interpolate:deriv-spherical" + (":z-axis" if kind == "z-axis" else "")
            ctx.fail("oracle", key, f"deriv_spherical at {p.tolist()} (r, theta, phi = {[float(x) for x in q]}): reported (d/dr, d/dtheta, d/dphi) = {got.tolist()}, "
                     f"finite differences of the same interpolant {want.tolist()}", witness=dict(wit, point=p), snippet=snip_s(q, float(tols[2])))
        # -- Cartesian gradient: 6th-order central differences with step hc << distance to the knots and to the centre
        hc = min(1e-3, dist / 8, r / 50)
        got = np.asarray(F(np.array([p]), deriv=1), dtype=float).reshape(-1)
        want = np.array([_fd(lambda t, k=k: val(p + t * np.eye(3)[k]), hc, 1) for k in range(3)])
        tol = 1e-8 * (mag1 + mag * (1 + Lc) / r) + 4e-13 * mag / hc
        if got.shape != (3,) or not np.all(np.abs(got - want) <= tol):
            key = "atomgrid.interpolate:deriv-cartesian" + (":z-axis" if kind == "z-axis" else "")
            ctx.fail("oracle", key, f"deriv=1 (Cartesian) at {p.tolist()}: reported gradient {got.tolist()}, finite differences of the same interpolant {want.tolist()}",
                     witness=dict(wit, point=p), snippet=snip_d(p, hc, tol))
    # -- the centre: the interpolant is a function of the direction there unless its l > 0 splines vanish at r = 0; where its one-sided
    #    directional derivatives along +e_k and -e_k are opposite it is differentiable along that axis and the k-th entry must be that slope
    if float(r_nodes[0]) == 0.0 and bl.smooth:
        dist = float(r_nodes[1])
        h = dist / 8

        def onesided(u):      # 4-point forward difference, exact on a cubic
            v = lambda t: val(c + t * u)
            return (-11 * v(0.0) + 18 * v(h) - 9 * v(2 * h) + 2 * v(3 * h)) / (6 * h)
        got = np.asarray(F(np.array([c]), deriv=1), dtype=float).reshape(-1)
        S1 = np.array([float(s(0.0, 1)) for s in splines])
        mag1 = float(np.sum(np.abs(S1))) + 1e-300
        for k in range(3):
            e = np.eye(3)[k]
            dp, dm = onesided(e), onesided(-e)
            # differentiable along axis k (up to the spline's own error in the slopes at r = 0): opposite one-sided slopes
            if abs(dp + dm) <= 0.02 * (abs(dp) + abs(dm)) and abs(dp) > 0.05 * mag1:
                want = 0.5 * (dp - dm)
                if not abs(got[k] - want) <= 0.1 * abs(want):
                    ctx.fail("oracle", "atomgrid.interpolate:deriv-cartesian:centre",
                             f"deriv=1 (Cartesian) at the centre {c.tolist()}: entry {k} reported {got[k]!r}; the interpolant has opposite one-sided slopes "
                             f"{dp!r}, {dm!r} along axis {k} there, i.e. the derivative {want!r}", witness=dict(wit, point=c, axis=k),
                             snippet=snip_d(c, h / 4, 0.1 * abs(want)))
        # radial-only derivative at the centre = slope along the ray theta = phi = 0 (+z)
        got_r = float(F(np.array([c]), deriv=1, only_radial_deriv=True)[0])
        want_r = onesided(np.array([0.0, 0.0, 1.0]))
        if not abs(got_r - want_r) <= 1e-8 * mag1 + 1e-12 * (abs(val(c)) + 1e-300) / h + (1e-12 / h if bl.amp == 1.0 else 0.0):
            ctx.fail("oracle", "atomgrid.interpolate:radial-deriv", f"only_radial_deriv at the centre: reported {got_r!r}, one-sided slope along +z {want_r!r}", witness=dict(wit, point=c))


SNIP_CHAIN = SNIP_HEAD + """
F = grid.interpolate(vals)
p = np.array({p!r})
r, th, ph = (float(x) for x in grid.convert_cartesian_to_spherical(np.array([p]))[0])   # the coordinates the reports refer to
assert r >= 1e-10 and ph >= 1e-10 and math.sin(ph) != 0.0
dr, dt, dp = np.asarray(F(np.array([p]), deriv=1, deriv_spherical=True), dtype=float)
want = np.array([math.cos(th) * math.sin(ph) * dr - math.sin(th) / (r * math.sin(ph)) * dt + math.cos(th) * math.cos(ph) / r * dp,
                 math.sin(th) * math.sin(ph) * dr + math.cos(th) / (r * math.sin(ph)) * dt + math.sin(th) * math.cos(ph) / r * dp,
                 math.cos(ph) * dr - math.sin(ph) / r * dp])
got = np.asarray(F(np.array([p]), deriv=1), dtype=float).reshape(-1)
assert np.all(np.abs(got - want) <= {tol!r}), f'reported Cartesian derivative {{got}}, chain rule applied to the reported spherical derivatives {{want}}'
"""


def _oracle_chain(ctx, g, info, bl, F, wit):
    """round 3 (class 7): wherever |r| >= 1e-10, |phi| >= 1e-10 and sin(phi) != 0 — the window in which the library promises it (theorem
    derivs_consistent_cartesian_partial) — the Cartesian report is the chain rule applied to the reported spherical derivatives: points a
    factor 1.01 and 100 outside |r| = 1e-10, small polar angles, ordinary points. (Inside the window the angular columns are dropped.)"""
    rng = ctx.rng
    c = g.center
    rmax = float(g.rgrid.points[-1])
    u = np.array([rng.gauss(0, 1) for _ in range(3)])
    u /= np.linalg.norm(u)
    rel = [[1.01e-10, 0, 0], [0, 7e-11, 8e-11], (1e-8 * u).tolist(), (2e-10 * u).tolist(), [3e-8 * rmax, 0, 0.4 * rmax], (0.37 * rmax * u).tolist(),
           [0.2 * rmax, -0.1 * rmax, 0.0]]
    for v in rel:
        p = c + np.array(v, dtype=float)
        # the spherical coordinates the two reports refer to are the library's own (for polar angles ~1e-7 one unit in the last place of
        # z / r moves arccos by per cent; that the coordinates are right is the business of the value clause, which computes its own)
        q = np.asarray(g.convert_cartesian_to_spherical(np.array([p])), dtype=float)[0]
        if not (q[0] >= 1e-10 and q[2] >= 1e-10 and math.sin(q[2]) != 0.0 and math.pi - q[2] > 1e-6):
            continue
        ctx.tagc("oracle:chain-rule")
        sd = np.asarray(F(np.array([p]), deriv=1, deriv_spherical=True), dtype=float).reshape(-1)
        got = np.asarray(F(np.array([p]), deriv=1), dtype=float).reshape(-1)
        if sd.shape != (3,) or got.shape != (3,):
            continue          # shapes are examined by the correspondence
        r, th, ph = (float(x) for x in q)
        st, ct, sp, cp = math.sin(th), math.cos(th), math.sin(ph), math.cos(ph)
        want = np.array([ct * sp * sd[0] - st / (r * sp) * sd[1] + ct * cp / r * sd[2],
                         st * sp * sd[0] + ct / (r * sp) * sd[1] + st * cp / r * sd[2],
                         cp * sd[0] - sp / r * sd[2]])
        mag = abs(sd[0]) + abs(sd[1]) / (r * abs(sp)) + abs(sd[2]) / r + 1e-300
        tol = 1e-9 * mag
        if not np.all(np.abs(got - want) <= tol):
            ctx.fail("oracle", "atomgrid.interpolate:deriv-cartesian:chain-rule", f"deriv=1 (Cartesian) at {p.tolist()} (r, theta, phi = {[r, th, ph]}): reported {got.tolist()}; the chain rule applied to the "
                     f"reported spherical derivatives {sd.tolist()} gives {want.tolist()}", witness=dict(wit, point=p),
                     snippet=SNIP_CHAIN.format(info=info, bl=bl.to_json(), p=[float(x) for x in p], tol=float(tol)))


def ut_sph(g, p):
    """(r, theta, phi) of p about the centre, with the code's own convention on the polar axis (theta = arctan2(0, 0))."""
    d = np.asarray(p, dtype=float) - g.center
    r = float(np.linalg.norm(d))
    return np.array([r, math.atan2(d[1], d[0]), math.acos(max(-1.0, min(1.0, d[2] / r))) if r > 0 else 0.0])


def _oracle_mol(ctx, M, budget):
    try:
        _oracle_mol_inner(ctx, M, budget)
    except Exception as e:  # noqa: BLE001
        ctx.fail("oracle", "molgrid.interpolate:raises", f"MolGrid.interpolate of a smooth molecular function raised {type(e).__name__}: {e}")


def _oracle_mol_inner(ctx, M, budget):
    mg, bk = M[4], M[5]
    rng = ctx.rng
    for _ in range(2 if budget == "small" and not ctx.thorough else 8):
        nat = rng.choice([2, 3])
        grids, infos = [], []
        for a in range(nat):
            g, info = _atom_grid(ctx, M, n=rng.choice([3, 4]), cap=9, zero_kind="none",
                                 center=np.array([1.6 * a + rng.uniform(-0.2, 0.2), rng.uniform(-0.5, 0.5), rng.uniform(-0.5, 0.5)]))
            grids.append(g)
            infos.append(info)
        atnums = [rng.choice([1, 6, 8]) for _ in range(nat)]
        _mol_case(ctx, M, grids, infos, atnums)


def _mol_case(ctx, M, grids, infos, atnums, extra_points=None):
    """the molecular clause (and its behaviour under call histories) on one molecule"""
    mg, bk = M[4], M[5]
    rng = ctx.rng
    nat = len(grids)
    if True:
        mol = mg.MolGrid(np.array(atnums), grids, bk.BeckeWeights(order=3), store=True)
        # a smooth molecular function: sum of Gaussians times low polynomials on the nuclei
        cs = [g.center for g in grids]
        co = [(rng.uniform(0.5, 1.5), rng.uniform(0.4, 1.2), np.array([rng.uniform(-1, 1) for _ in range(3)])) for _ in cs]

        def fun(p):
            out = np.zeros(len(p))
            for c0, (a0, al, v) in zip(cs, co):
                d = p - c0
                out += (a0 + d @ v) * np.exp(-al * np.sum(d * d, axis=1))
            return out
        f = fun(mol.points)
        pts = np.array([[rng.uniform(-1.5, 1.6 * nat) for _ in range(3)] for _ in range(5)] + [cs[0].tolist(), (cs[-1] + np.array([0, 0, 0.4])).tolist()] + list(extra_points or []))
        ctx.count(["oracle-mol", infos], nontrivial=True, tag=f"oracle:mol:{nat}")
        for (dv, dsph, orad) in [(0, False, False), (1, False, False), (1, True, False), (1, False, True)]:
            got = np.asarray(mol.interpolate(f.copy())(pts, dv, dsph, orad), dtype=float)
            want = 0.0
            for a in range(nat):
                s, e = mol.indices[a], mol.indices[a + 1]
                want = want + np.asarray(grids[a].interpolate(f[s:e] * mol.aim_weights[s:e])(pts, dv, dsph, orad), dtype=float)
            if got.shape != np.shape(want) or not _cmp_arrays(got, want, 1e-11, atol=1e-13):
                ctx.fail("oracle", "molgrid.interpolate:sum-of-atomic", f"MolGrid.interpolate(deriv={dv}, deriv_spherical={dsph}, only_radial_derivs={orad}) is not the sum of the atomic interpolants of w_A f",
                         witness=dict(infos=infos, points=pts))
        _oracle_mol_state(ctx, M, mol, grids, infos, atnums, co, fun, f, pts)


def _oracle_mol_state(ctx, M, mol, grids, infos, atnums, co, fun, f, pts):
    """class 1/3/6 for MolGrid.interpolate (store=True is required): other functions and direct use of the stored atomic grids in
    between, the same function twice, the first callable again, a second MolGrid built from new atomic grids one of which was used
    directly before (its basis cache filled outside the MolGrid), keyword form of the callable, func_vals untouched; the clause itself
    against atomic grids that were never part of a MolGrid."""
    mg, bk = M[4], M[5]
    keep = f.copy()
    wit = dict(infos=infos, atnums=atnums, points=pts)
    try:
        mg.MolGrid(np.array(atnums), [_build(M, i) for i in infos], bk.BeckeWeights(order=3), store=False).interpolate(keep.copy())
        ctx.count(["mol", "store=False", "accepted"], nontrivial=False, tag="oracle:mol:store-false:accepted")
    except ValueError:
        ctx.count(["mol", "store=False", "rejected"], nontrivial=False, tag="oracle:mol:store-false:rejected")
    for (dv, ds, orad) in [(0, False, False), (1, False, False), (1, True, False), (2, False, True)]:
        ctx.count(["oracle-mol-state", infos, dv, ds, orad], nontrivial=True, tag="oracle:mol:history")

        def snip():
            return SNIP_MOL.format(infos=infos, atnums=list(atnums), co=[(a0, al, [float(x) for x in v]) for (a0, al, v) in co], pts=pts.tolist(), dv=dv, ds=ds, orad=orad)
        F1 = mol.interpolate(f)
        a = np.asarray(F1(pts, dv, ds, orad))
        mol.interpolate(f * f - 0.3)(pts)
        for g in grids:
            g.interpolate(np.cos(np.arange(g.size)))(pts)
        b = np.asarray(mol.interpolate(f)(pts, dv, ds, orad))
        c = np.asarray(F1(pts, dv, ds, orad))
        kwform = np.asarray(mol.interpolate(f)(points=pts, deriv=dv, deriv_spherical=ds, only_radial_derivs=orad))
        fresh = [_build(M, i) for i in infos]
        fresh[0].interpolate(np.cos(np.arange(fresh[0].size)))(pts, 1)          # used directly before it becomes part of a MolGrid
        mol2 = mg.MolGrid(np.array(atnums), fresh, bk.BeckeWeights(order=3), store=True)
        d = np.asarray(mol2.interpolate(keep.copy())(pts, dv, ds, orad))
        if not _same(f, keep):
            ctx.fail("oracle", "molgrid.interpolate:modifies-input", "MolGrid.interpolate changed the function values handed in", witness=wit, snippet=snip())
            f[...] = keep
        for name, other in (("a second interpolate(f) after another function and after direct use of the stored atomic grids", b), ("the first callable evaluated again", c),
                            ("the keyword form of the callable", kwform), ("a second MolGrid built from new atomic grids", d)):
            if not _same(a, other):
                ctx.fail("oracle", "molgrid.interpolate:history", f"MolGrid.interpolate(f)(points, deriv={dv}, deriv_spherical={ds}, only_radial_derivs={orad}): {name} "
                         "gives a different answer for the same function and points", witness=wit, snippet=snip())
        never = [_build(M, i) for i in infos]
        want = 0.0
        for k in range(len(never)):
            s, e = mol.indices[k], mol.indices[k + 1]
            want = want + np.asarray(never[k].interpolate(keep[s:e] * mol.aim_weights[s:e])(pts, dv, ds, orad), dtype=float)
        if np.shape(a) != np.shape(want) or not _cmp_arrays(a, want, 1e-11, atol=1e-13):
            ctx.fail("oracle", "molgrid.interpolate:sum-of-atomic", f"MolGrid.interpolate(deriv={dv}, deriv_spherical={ds}, only_radial_derivs={orad}) is not the sum of the atomic interpolants "
                     "of w_A f (atomic grids built separately)", witness=wit, snippet=snip())


SNIP_FIXED = """import warnings; warnings.filterwarnings('ignore')
import numpy as np
from grid.onedgrid import OneDGrid
from grid.atomgrid import AtomGrid
grid = AtomGrid(OneDGrid(np.linspace(0, 4, 41), np.full(41, 0.1), (0, np.inf)), degrees=[10])
x, y, z = grid.points.T
f = {{'x': x, 'y': y}}[{comp!r}] * np.exp(-(x * x + y * y + z * z))
F = grid.interpolate(f)
p = np.array({p!r})
h = 1e-3
def fd(g):
    return (-g(-3*h) + 9*g(-2*h) - 45*g(-h) + 45*g(h) - 9*g(2*h) + g(3*h)) / (60 * h)
if {mode!r} == 'cartesian':
    want = np.array([fd(lambda t, k=k: float(F(np.array([p + t * np.eye(3)[k]]))[0])) for k in range(3)])
    got = F(np.array([p]), deriv=1)[0]
    assert np.allclose(got, want, rtol=0, atol=1e-6), f'reported gradient {{got}}, central differences of the same interpolant {{want}}'
else:
    r = float(np.linalg.norm(p)); ph0 = 0.0 if p[2] > 0 else np.pi
    at = lambda ph: float(F(np.array([[r * np.sin(ph), 0.0, r * np.cos(ph)]]))[0])
    want = fd(lambda t: at(ph0 + t))
    got = F(np.array([p]), deriv=1, deriv_spherical=True)[2]
    assert abs(got - want) <= 1e-6, f'reported d/dphi {{got}}, central differences of the same interpolant along the meridian theta = 0: {{want}}'
"""


def _replay_findings(ctx, M):
    """fixed witnesses of the listed findings (smooth functions x e^{-r^2}, y e^{-r^2} on a 41-shell grid of degree 10):
    reported derivatives against central differences of the interpolant itself."""
    ag, od = M[0], M[1]
    grid = ag.AtomGrid(od.OneDGrid(np.linspace(0, 4, 41), np.full(41, 0.1), (0, np.inf)), degrees=[10])
    x, y, z = grid.points.T
    h = 1e-3

    def fd(g):
        return (-g(-3 * h) + 9 * g(-2 * h) - 45 * g(-h) + 45 * g(h) - 9 * g(2 * h) + g(3 * h)) / (60 * h)
    for comp, arr in (("x", x), ("y", y)):
        F = grid.interpolate(arr * np.exp(-(x * x + y * y + z * z)))
        for label, p in (("z-axis", [0.0, 0.0, 0.73]), ("z-axis", [0.0, 0.0, -0.73]), ("centre", [0.0, 0.0, 0.0])):
            p = np.array(p)
            ctx.count(["replay", comp, label, p.tolist()], nontrivial=True, tag="oracle:replay-findings")
            want = np.array([fd(lambda t, k=k: float(F(np.array([p + t * np.eye(3)[k]]))[0])) for k in range(3)])
            got = np.asarray(F(np.array([p]), deriv=1)[0], dtype=float)
            if not np.allclose(got, want, rtol=0, atol=1e-6):
                ctx.fail("oracle", f"atomgrid.interpolate:deriv-cartesian:{label}",
                         f"f = {comp} exp(-r^2), 41 shells r = 0..4, degree 10, p = {p.tolist()}: reported gradient {got.tolist()}, central differences of the same interpolant {want.tolist()}",
                         witness=dict(function=f"{comp} exp(-r^2)", point=p), snippet=SNIP_FIXED.format(comp=comp, p=p.tolist(), mode="cartesian"))
            if label == "z-axis":
                r = float(np.linalg.norm(p))
                ph0 = 0.0 if p[2] > 0 else math.pi
                want_phi = fd(lambda t: float(F(np.array([[r * math.sin(ph0 + t), 0.0, r * math.cos(ph0 + t)]]))[0]))
                got_phi = float(F(np.array([p]), deriv=1, deriv_spherical=True)[2])
                if not abs(got_phi - want_phi) <= 1e-6:
                    ctx.fail("oracle", "atomgrid.interpolate:deriv-spherical:z-axis",
                             f"f = {comp} exp(-r^2), p = {p.tolist()}: reported d/dphi {got_phi!r}, central differences of the same interpolant along the meridian theta = 0: {want_phi!r}",
                             witness=dict(function=f"{comp} exp(-r^2)", point=p), snippet=SNIP_FIXED.format(comp=comp, p=p.tolist(), mode="spherical"))


# ----------------------------------------------------------------------------------------------
# round 2 oracle: the clauses under call histories, with two grids alive, for other dtypes / containers of func_vals, on grids
# from the alternative construction routes
# ----------------------------------------------------------------------------------------------
def _clause(M, g, G, fvals, vals, op, loose=1.0):
    """one clause of the property for one entry point. G[row, i] = g_lm(r_i) (the rows of the function), fvals = the function on the
    grid points, vals = the array handed to the library. -> None, or the description of the violation"""
    r = g.rgrid.points
    gs = float(np.max(np.abs(G))) + 1e-300
    if op == "iac":
        A = np.asarray(g.integrate_angular_coordinates(vals), dtype=float)
        want = math.sqrt(4 * math.pi) * G[0]
        d = np.abs(np.nan_to_num(A - want, nan=np.inf))
        i = int(np.argmax(d))
        return None if d[i] <= 2e-10 * 4 * gs * loose else f"angular integral on shell {i} (r = {r[i]!r}, degree {g.degrees[i]}): {A[i]!r}, sqrt(4 pi) g_00(r_i) = {want[i]!r}"
    if op == "avg":
        with _SplineSpy(M[0]) as spy:
            spl = g.spherical_average(vals)
        y = spy.calls[-1][1] if spy.calls and spy.calls[-1][1].shape == (g.n_shells,) else np.asarray(spl(r), dtype=float)
        want = G[0] / math.sqrt(4 * math.pi)
        d = np.abs(np.nan_to_num(y - want, nan=np.inf))
        i = int(np.argmax(d))
        return None if d[i] <= 2e-10 * gs * loose else f"spherical average at the node {i} (r = {r[i]!r}): {y[i]!r}, g_00(r_i) / sqrt(4 pi) = {want[i]!r}"
    nrows = (int(max(g.degrees)) // 2 + 1) ** 2
    if op == "rcs":
        comps = _comps(M, g, vals)
        if comps.shape[0] != nrows:
            return f"{comps.shape[0]} radial components, (l_max // 2 + 1)^2 = {nrows}"
        want = np.zeros_like(comps)
        k = min(G.shape[0], nrows)
        want[:k] = G[:k]
        d = np.abs(np.nan_to_num(comps - want, nan=np.inf))
        row, i = np.unravel_index(int(np.argmax(d)), d.shape)
        return None if d[row, i] <= 1e-9 * 4 * gs * loose else (f"radial component row {row} at shell {i} (r = {r[i]!r}, degree {g.degrees[i]}): {comps[row, i]!r}, "
                                                                f"g_lm(r_i) = {want[row, i]!r}")
    F = g.interpolate(vals)
    fv = np.asarray(F(g.points), dtype=float)
    d = np.abs(np.nan_to_num(fv - fvals, nan=np.inf))
    j = int(np.argmax(d))
    tol = 1e-8 * (float(np.max(np.abs(fvals))) + 1e-300) * (1 + nrows) * loose
    return None if d[j] <= tol else f"interpolant at grid point {j} = {fv[j]!r}, function value {fvals[j]!r}"


def _neutral_named(g, op, pts):
    if op.startswith("bad:"):          # round 4 (class 18): a rejected request
        _bad_call(g, op[4:], np.cos(np.arange(g.size)), pts)
    elif op.startswith("shell"):
        g.get_shell_grid(int(op.split(":")[1]), r_sq=bool(int(op.split(":")[2])))
    elif op == "sph":
        g.convert_cartesian_to_spherical()
    elif op == "sph-points":
        g.convert_cartesian_to_spherical(pts)
    elif op == "integrate":
        g.integrate(np.ones(g.size))
    else:
        getattr(g, op)


def _oracle_state(ctx, M, budget):
    """class 1/3: the clauses of the property when the entry points are called in a seeded random order, twice, on one grid object
    with two band-limited functions (one array object per function, reused by every call), or interleaved on two grids alive at once
    that agree in l_max, size and method but not in their angles; attribute reads and get_shell_grid / convert_cartesian_to_spherical
    in between."""
    rng = ctx.rng
    for isc in range(4 if budget == "small" and not ctx.thorough else 16):
        if isc % 2 == 1:
            zk = rng.choice(["none", "zero", "tiny"])
            _, ia = _atom_grid(ctx, M, n=rng.choice([3, 4, 5]), cap=9, zero_kind=zk, center=np.zeros(3) if zk == "tiny" else None)
            kind, infos = "one-grid", [ia]
        else:
            kind, ia, ib = _pair_infos(ctx, M)
            infos = [ia, ib]
        _state_scenario(ctx, M, kind, infos)


def _state_scenario(ctx, M, kind, infos):
    """one seeded random call history on the grids described by infos (one grid, or two of equal size)"""
    import traceback
    rng = ctx.rng
    if True:
        grids = [_build(M, i) for i in infos]
        Lmax = min(int(min(g.degrees)) for g in grids) // 2
        bls = [BandLimited(rng, Lmax, smooth=True), BandLimited(rng, rng.randrange(0, Lmax + 1), smooth=True)]
        steps = [(w, k, op) for w in range(len(grids)) for k in (0, 1) for op in ("iac", "avg", "rcs", "interp")]
        if len(grids) == 2:
            steps = rng.sample(steps, 10)
        nshell = min(g.n_shells for g in grids)
        neutral = [f"shell:{rng.randrange(nshell)}:1", f"shell:{rng.randrange(nshell)}:0", "sph", "sph-points", "points", "weights", "basis", "integrate"]
        steps += [(rng.randrange(len(grids)), None, nop) for nop in rng.sample(neutral, 5)]
        # round 4 (class 18): rejected requests in between (and, after the shuffle, sometimes first)
        steps += [(rng.randrange(len(grids)), None, "bad:" + b) for b in rng.sample(BAD_CALLS, 4)]
        rng.shuffle(steps)
        steps += rng.sample([s for s in steps if s[1] is not None], 4)
        pts = np.array([[0.3, -0.2, 0.5], [0.0, 0.0, 0.0]]) + np.array(infos[0]["center"])
        first = next(op for (_, k, op) in steps if k is not None)
        ctx.count(["oracle-history", kind, infos, [list(map(str, s)) for s in steps]], nontrivial=True, tag=f"oracle:history:{kind}:first={first}")
        vals, true = {}, {}
        try:
            for n, (w, k, op) in enumerate(steps):
                g = grids[w]
                if k is None:
                    _neutral_named(g, op, pts)
                    continue
                if (w, k) not in vals:
                    true[(w, k)] = _grid_values(M, g, bls[k])
                    vals[(w, k)] = true[(w, k)].copy()
                v = vals[(w, k)]
                msg = _clause(M, g, bls[k].g(g.rgrid.points), true[(w, k)], v, op)
                changed = not _same(v, true[(w, k)])
                if not (msg or changed):
                    continue
                hist = [f"grid{'AB'[a]}.{c}" + ("" if b is None else f"(f{b + 1})") for (a, b, c) in steps[:n + 1]]
                wit = dict(kind=kind, infos=infos, functions=[b.to_json() for b in bls], steps=steps[:n + 1])
                snippet = SNIP_HIST.format(infos=infos, bls=[b.to_json() for b in bls], steps=steps[:n + 1], pts=pts.tolist())
                if changed:
                    ctx.fail("oracle", f"atomgrid.{OPNAME[op]}:modifies-input", f"{OPNAME[op]} changed the function values handed in (calls so far: {hist})", witness=wit, snippet=snippet)
                    v[...] = true[(w, k)]
                if msg:
                    ctx.fail("oracle", f"atomgrid.{OPNAME[op]}:history", f"band-limited function (L = {bls[k].L}), calls in this order: {hist}; at the last one: {msg}", witness=wit, snippet=snippet)
        except Exception as e:  # noqa: BLE001
            ctx.fail("oracle", "atomgrid.interpolate:raises", f"a sequence of calls on band-limited functions raised {type(e).__name__}: {e}",
                     witness=dict(infos=infos, steps=steps, traceback=traceback.format_exc()[-1200:]),
                     snippet=SNIP_HIST.format(infos=infos, bls=[b.to_json() for b in bls], steps=steps, pts=pts.tolist()))


def _oracle_dtype(ctx, M, budget):
    """class 2/3: the clauses for func_vals handed over as integers (a function that is an integer constant k_i on shell i is
    band-limited with L = 0, g_00(r_i) = sqrt(4 pi) k_i), as float32 (band-limited up to float32 rounding), read-only and strided."""
    rng = ctx.rng
    for it in range(3 if budget == "small" and not ctx.thorough else 10):
        g, info = _atom_grid(ctx, M, n=rng.choice([3, 4]), cap=9, zero_kind=rng.choice(["none", "zero"]))
        _dtype_scenario(ctx, M, g, info)


def _dtype_scenario(ctx, M, g, info):
    import traceback
    rng = ctx.rng
    if True:
        r = g.rgrid.points
        k = [rng.choice([-7, -3, -1, 1, 2, 5, 9]) for _ in range(g.n_shells)]
        const = np.repeat(np.array(k), np.diff(g.indices))
        Gc = (math.sqrt(4 * math.pi) * np.array(k, dtype=float))[None, :]
        bl = BandLimited(rng, min(int(min(g.degrees)) // 2, 9), smooth=True)
        tv = _grid_values(M, g, bl)
        Gb = bl.g(r)
        ro = tv.copy()
        ro.setflags(write=False)
        big = np.zeros(2 * tv.size)
        big[::2] = tv
        f32loose = 1e3 * (1 + bl.nrows)
        kdef = f"k = np.array({k!r})\n"
        cases = [("int64", const.astype(np.int64), Gc, const.astype(float), 1.0, kdef + "arr = np.repeat(k, np.diff(grid.indices)).astype(np.int64)\nG = (math.sqrt(4 * math.pi) * k)[None, :].astype(float)\nfv = arr.astype(float)"),
                 ("int32", const.astype(np.int32), Gc, const.astype(float), 1.0, kdef + "arr = np.repeat(k, np.diff(grid.indices)).astype(np.int32)\nG = (math.sqrt(4 * math.pi) * k)[None, :].astype(float)\nfv = arr.astype(float)"),
                 ("float32", tv.astype(np.float32), Gb, tv, f32loose, "arr = vals.astype(np.float32)\nG = gfun(grid.rgrid.points)\nfv = vals"),
                 ("readonly", ro, Gb, tv, 1.0, "arr = vals.copy()\narr.setflags(write=False)\nG = gfun(grid.rgrid.points)\nfv = vals"),
                 ("strided", big[::2], Gb, tv, 1.0, "big = np.zeros(2 * vals.size)\nbig[::2] = vals\narr = big[::2]\nG = gfun(grid.rgrid.points)\nfv = vals")]
        for kind, arr, G, fv, loose, adef in cases:
            keep = arr.copy()
            ctx.count(["oracle-dtype", kind, info], nontrivial=True, tag=f"oracle:func_vals:{kind}")
            for op in ("iac", "avg", "rcs", "interp"):
                def snip():
                    return SNIP_GENERIC.format(info=info, bl=bl.to_json(), clause=f"{OPNAME[op]} with func_vals given as {kind}",
                                               body=SNIP_CLAUSE + adef + f"\nkeep = arr.copy()\nerr, tol = clause(grid, G, fv, arr, {op!r}, {loose!r})\n"
                                               "assert arr.dtype == keep.dtype and np.array_equal(arr, keep), 'the call changed the function values handed in'\nassert err <= tol, (err, tol)")
                try:
                    msg = _clause(M, g, G, fv, arr, op, loose)
                except Exception as e:  # noqa: BLE001
                    ctx.fail("oracle", f"atomgrid.{OPNAME[op]}:dtype", f"{OPNAME[op]} raised {type(e).__name__}: {e} for func_vals given as {kind} (dtype {arr.dtype}, writeable {arr.flags.writeable}, "
                             f"C-contiguous {arr.flags.c_contiguous})", witness=dict(info=info, kind=kind, traceback=traceback.format_exc()[-800:]), snippet=snip())
                    continue
                if msg:
                    ctx.fail("oracle", f"atomgrid.{OPNAME[op]}:dtype", f"func_vals given as {kind} (dtype {arr.dtype}): {msg}", witness=dict(info=info, kind=kind, function=bl.to_json(), k=k), snippet=snip())
                if arr.dtype != keep.dtype or not _same(arr, keep):
                    ctx.fail("oracle", f"atomgrid.{OPNAME[op]}:modifies-input", f"{OPNAME[op]} changed the function values handed in ({kind})", witness=dict(info=info, kind=kind), snippet=snip())
                    arr = keep.copy()          # the later entry points are examined on the original values


def _route_info(ctx, M, route=None):
    """parameters of a grid built through from_pruned (degrees / sizes), from_preset (custom radial grid) or the sizes= keyword; round 4:
    both degrees and sizes (d_sectors and s_sectors) given at once, one degree / one size for every shell"""
    rng = ctx.rng
    route = route or rng.choice(["pruned", "pruned-sizes", "preset", "sizes"])
    zero = rng.choice(["none", "zero"])
    r, w = _radial(rng, rng.choice([4, 5, 6]), zero)
    info = dict(route=route, n=len(r), zero=zero, center=[rng.uniform(-1, 1) for _ in range(3)], rotate=rng.choice([0, 1, 37, 999]),
                r=r.tolist(), w=w.tolist(), method="lebedev")
    lebedev_sizes = [6, 14, 26, 38, 50]          # degrees 3, 5, 7, 9, 11
    if route == "pruned":
        info["method"] = rng.choice(["lebedev", "spherical", "maxdet"])
        pool = [d for d in DEGS[info["method"]] if 2 <= d <= 11]
        info.update(radius=rng.uniform(0.6, 1.4), r_sectors=sorted(rng.uniform(0.2, 2.5) for _ in range(2)), d_sectors=[rng.choice(pool) for _ in range(3)])
    elif route == "pruned-sizes":
        info.update(radius=rng.uniform(0.6, 1.4), r_sectors=sorted(rng.uniform(0.2, 2.5) for _ in range(2)), s_sectors=[rng.choice(lebedev_sizes) for _ in range(3)])
    elif route == "preset":
        info.update(atnum=rng.choice([1, 6, 8]), preset=rng.choice(["coarse", "medium", "sg_1"]))
    elif route == "both":
        # sizes 38, 26, 50, … (non-monotone) win; the degrees handed over as well are other ones
        sz = [38, 26, 50] + [rng.choice([6, 26, 38, 50]) for _ in range(len(r) - 3)]          # sizes that are in the table (others are rounded up)
        info.update(sizes=sz, ignored_degs=[rng.choice([3, 15, 17]) for _ in sz])
    elif route == "pruned-both":
        info.update(radius=rng.uniform(0.6, 1.4), r_sectors=sorted(rng.uniform(0.2, 2.5) for _ in range(2)), s_sectors=[38, 26, 50], ignored_d_sectors=[rng.choice([3, 15, 17]) for _ in range(3)])
    elif route == "one-degree":
        info.update(degs=[rng.choice([5, 7, 9])])
    elif route == "one-size":
        info.update(sizes=[rng.choice(lebedev_sizes)])
    else:
        info.update(sizes=[rng.choice(lebedev_sizes) for _ in range(len(r))])
    g = _build(M, info)
    info["degs"] = [int(d) for d in g.degrees]
    return g, info


def _guarded(ctx, M, g, info, bl, budget, label, derivs=True):
    """an exception out of the library while the clauses are evaluated is a failing input of its own"""
    import traceback
    try:
        _oracle_atom(ctx, M, g, info, bl, budget, label, derivs=derivs)
    except Exception as e:  # noqa: BLE001
        ctx.fail("oracle", "atomgrid.interpolate:raises",
                 f"decomposition / interpolation of a band-limited function raised {type(e).__name__}: {e} (degrees {info['degs']}, method {info['method']})",
                 witness=dict(info=info, function=bl.to_json(), traceback=traceback.format_exc()[-1200:]),
                 snippet=SNIP_GENERIC.format(info=info, bl=bl.to_json(), clause="no exception",
                                             body="F = grid.interpolate(vals)\nF(grid.points[:3])\nF(grid.points[:3], deriv=1)\nF(grid.points[:3], deriv=1, deriv_spherical=True)\n"
                                                  "F(grid.points[:3], deriv=2, only_radial_deriv=True)\ngrid.spherical_average(vals)"))


SNIP_POINTS = """import numpy as np
from grid.atomgrid import AtomGrid
from grid.onedgrid import OneDGrid
g = AtomGrid(OneDGrid(np.array([0.2, 0.7, 1.5]), np.array([0.3, 0.5, 0.8]), (0, np.inf)), degrees=[5], center=np.array({center!r}))
f = np.exp(-np.sum((g.points - g.center) ** 2, axis=1)) * (1 + (g.points - g.center)[:, 0])
p0 = g.points.copy()
q = g.points; q -= np.array([0.7, -0.4, 1.1])            # the caller works with its array
assert np.array_equal(g.points, p0), 'editing the array returned by AtomGrid.points changed the grid'
assert np.allclose(g.interpolate(f)(p0), f, atol=1e-10), 'interpolant does not reproduce the grid values'
"""


# ----------------------------------------------------------------------------------------------
# round 3 oracle: data of extreme but legal magnitude (class 8), arrays handed out (class 9), single-shell grids (class 12)
# ----------------------------------------------------------------------------------------------
AMPS = [1e-14, 3e-11, 1e-7, 1e5, 1e14, 1e-50, 1e-290]
RSCALES = [1e-5, 1e-2, 1e2, 1e5]


def _oracle_scaled(ctx, M, budget):
    """class 8: the same clauses for function values scaled by 1e-14 .. 1e14 (and far below machine epsilon: 1e-50, 1e-290) and for radial
    grids / functions scaled in r by 1e-5 .. 1e5 — every tolerance of the clauses is relative to the magnitude of the data."""
    rng = ctx.rng
    big = budget == "large" or ctx.thorough
    amps = AMPS if big else [3e-11] + rng.sample([a for a in AMPS if a != 3e-11], 2)
    for amp in amps:
        method = rng.choice(["lebedev", "spherical", "maxdet"])
        g, info = _atom_grid(ctx, M, method=method, mixed=rng.random() < 0.5, zero_kind=rng.choice(["none", "zero"]), cap=9, n=rng.choice([3, 4, 5]))
        L = int(min(g.degrees)) // 2
        ctx.tagc(f"oracle:scaled:amp={amp:g}")
        _guarded(ctx, M, g, info, BandLimited(rng, L, smooth=True, amp=amp), budget, f"scaled:amp={amp:g}")
    for rs in (RSCALES if big else rng.sample(RSCALES, 1)):
        method = rng.choice(["lebedev", "spherical", "maxdet"])
        _, info = _atom_grid(ctx, M, method=method, mixed=rng.random() < 0.5, zero_kind=rng.choice(["none", "zero"]), cap=9, n=rng.choice([3, 4, 5]),
                             center=np.zeros(3) if rs < 1 else None)
        info = dict(info, r=(np.array(info["r"]) * rs).tolist(), w=(np.array(info["w"]) * rs).tolist())
        g = _build(M, info)
        ctx.tagc(f"oracle:scaled:r={rs:g}")
        _guarded(ctx, M, g, info, BandLimited(rng, int(min(g.degrees)) // 2, smooth=True, amp=rng.choice([1.0, 1e-9, 1e7]), rscale=rs), budget, f"scaled:r={rs:g}", derivs=False)


SNIP_SHIFT = SNIP_DEFS + """
info0 = {info0!r}
bl = {bl!r}
shift = np.array({shift!r})            # exactly representable
info1 = dict(info0, center=shift.tolist())
g0, g1 = build(info0), build(info1)
v0, v1 = values(g0, bl), values(g1, bl)
pts = np.array({pts!r})
tol = {tol!r}
a = np.asarray(g0.interpolate(v0)(pts, {dv!r}, {ds!r}, False), dtype=float)
b = np.asarray(g1.interpolate(v1)(pts + shift, {dv!r}, {ds!r}, False), dtype=float)
assert np.all(np.abs(a - b) <= tol), ('interpolant of the translated problem differs from the untranslated one', float(np.max(np.abs(a - b))), tol)
"""


def _oracle_translated(ctx, M, budget):
    """class 8: the centre far from the origin. The same radial grid, degrees, rotation and band-limited function (given about the centre) once
    about the origin and once about (2^k, -2^(k-1), 3 2^(k-2)), k in 10 .. 20 (exactly representable shifts): per-shell angular integrals,
    radial components, interpolant values and first derivatives at translated points against the untranslated ones. The grid points c + r u
    are rounded at |c| eps, i.e. relative to a shell radius r at |c| eps / r; the tolerance carries that term with a measured factor."""
    rng = ctx.rng
    big = budget == "large" or ctx.thorough
    for k in ([10, 14, 17, 20] if big else [rng.choice([10, 14]), 20]):
        method = rng.choice(["lebedev", "spherical", "maxdet"])
        _, info0 = _atom_grid(ctx, M, method=method, mixed=rng.random() < 0.5, zero_kind=rng.choice(["none", "zero"]), cap=9, n=rng.choice([3, 4, 5]), center=np.zeros(3))
        shift = np.array([2.0 ** k, -(2.0 ** (k - 1)), 3 * 2.0 ** (k - 2)])
        info1 = dict(info0, center=shift.tolist())
        ctx.count(["oracle-translated", k, info0], nontrivial=True, tag=f"oracle:translated:2^{k}")
        try:
            g0, g1 = _build(M, info0), _build(M, info1)
            L = int(min(g0.degrees)) // 2
            bl = BandLimited(rng, L, smooth=True)
            v0, v1 = _grid_values(M, g0, bl), _grid_values(M, g1, bl)
            rpos = [x for x in info0["r"] if x > 0]
            delta = float(np.max(np.abs(shift))) * 2.3e-16
            nrows = (int(max(g0.degrees)) // 2 + 1) ** 2
            gsc = float(np.max(np.abs(bl.g(g0.rgrid.points)))) + 1e-300
            # measured on the pinned tree (6 seeds x 4 shifts): deviations <= 0.31 (integrals), 0.23 (components), 0.58 (values), 1.3 (first
            # derivatives) in units of (|c| eps / r) * max|g_lm|
            loose = 5e-10 + 5.0 * delta / min(rpos)
            wit = dict(info=info0, shift=shift, function=bl.to_json())
            A0, A1 = np.asarray(g0.integrate_angular_coordinates(v0)), np.asarray(g1.integrate_angular_coordinates(v1))
            if not np.all(np.abs(A0 - A1) <= loose * gsc):
                ctx.fail("oracle", "atomgrid.integrate_angular_coordinates:translated", f"centre {shift.tolist()}: per-shell angular integrals {A1.tolist()} differ from those of the same problem about the origin "
                         f"{A0.tolist()}", witness=wit)
            C0, C1 = _comps(M, g0, v0), _comps(M, g1, v1)
            if C0.shape != C1.shape or not np.all(np.abs(C0 - C1) <= loose * gsc):
                ctx.fail("oracle", "atomgrid.radial_component_splines:translated", f"centre {shift.tolist()}: radial components differ from those of the same problem about the origin "
                         f"(max deviation {float(np.max(np.abs(C0 - C1))) if C0.shape == C1.shape else 'shape'})", witness=wit)
            rmax = float(info0["r"][-1])
            dirs = ctx.np_rng.normal(size=(5, 3))
            dirs /= np.linalg.norm(dirs, axis=1)[:, None]
            pts = np.vstack([dirs * np.array([[rng.uniform(0.3, 1.0) * rmax] for _ in range(5)]), [[0.0, 0.0, 0.0], [0.0, 0.0, 0.4 * rmax], [0.3 * rmax, 0.0, 0.0]]])
            F0, F1 = g0.interpolate(v0), g1.interpolate(v1)
            rp = np.linalg.norm(pts, axis=1)
            for (dv, ds) in [(0, False), (1, False), (1, True)]:
                a = np.asarray(F0(pts, dv, ds, False), dtype=float)
                b = np.asarray(F1(pts + shift, dv, ds, False), dtype=float)
                # evaluation points are rounded too: |c| eps relative to their distance from the centre (the centre itself is exact)
                unit = delta / np.maximum(np.where(rp > 0, rp, np.inf), 1e-300) + delta / min(rpos)
                if dv == 0:
                    per = (5e-10 * nrows + 8.0 * unit) * gsc
                else:
                    per = (2e-9 * nrows * (1 + 1.0 / np.maximum(rp, 1e-3)) + 25.0 * unit) * gsc
                tol = per if dv == 0 else (np.repeat(per, 3) if not ds else np.tile(per, 3))
                if a.shape != b.shape or not np.all(np.abs(a.reshape(-1) - b.reshape(-1)) <= tol):
                    d = np.abs(a.reshape(-1) - b.reshape(-1)) if a.shape == b.shape else np.array([np.inf])
                    ctx.fail("oracle", "atomgrid.interpolate:translated", f"centre {shift.tolist()}, deriv={dv}, deriv_spherical={ds}: the interpolant at the translated points differs from the "
                             f"untranslated one by {float(np.max(d))!r} (allowed {float(np.max(tol))!r})", witness=dict(wit, points=pts),
                             snippet=SNIP_SHIFT.format(info0=info0, bl=bl.to_json(), shift=shift.tolist(), pts=pts.tolist(), tol=np.asarray(tol).reshape(a.shape).tolist() if a.shape == b.shape else 0.0, dv=dv, ds=ds))
        except Exception as e:  # noqa: BLE001
            import traceback
            ctx.fail("oracle", "atomgrid.interpolate:raises", f"decomposition / interpolation about the centre {shift.tolist()} raised {type(e).__name__}: {e}",
                     witness=dict(info=info1, traceback=traceback.format_exc()[-1200:]))


SNIP_HANDED = SNIP_DEFS + """
info = {info!r}
bl = {bl!r}
grid = build(info)
vals = values(grid, bl)
pts = np.array({pts!r})
def get():
{getter}
first = get()
keep = np.array(first, copy=True)
try:
    first *= -3.0; first += 7.0            # the caller works with the array it was given
except ValueError:
    pass                                    # read-only: nothing can happen
second = get()
assert np.array_equal(np.asarray(second), keep, equal_nan=True), 'the second answer is not the first answer: the array handed out the first time is not the caller\'s own'
F = grid.interpolate(vals)
assert np.allclose(np.asarray(F(grid.points), dtype=float), vals, rtol=0, atol=1e-8 * np.max(np.abs(vals)) * 50), 'the grid was changed through the array handed out'
"""

# name -> (python text of the getter body for the snippet, callable (g, vals, pts) -> ndarray)
HANDED = {
    "points": ("    return grid.points", lambda g, v, P: g.points),
    "convert_cartesian_to_spherical()": ("    return grid.convert_cartesian_to_spherical()", lambda g, v, P: g.convert_cartesian_to_spherical()),
    "convert_cartesian_to_spherical(points)": ("    return grid.convert_cartesian_to_spherical(pts)", lambda g, v, P: g.convert_cartesian_to_spherical(P)),
    "integrate_angular_coordinates(f)": ("    return grid.integrate_angular_coordinates(vals)", lambda g, v, P: g.integrate_angular_coordinates(v)),
    "radial_component_splines(f)[0].c": ("    return grid.radial_component_splines(vals)[0].c", lambda g, v, P: g.radial_component_splines(v)[0].c),
    "radial_component_splines(f)[-1].x": ("    return grid.radial_component_splines(vals)[-1].x", lambda g, v, P: g.radial_component_splines(v)[-1].x),
    "spherical_average(f).c": ("    return grid.spherical_average(vals).c", lambda g, v, P: g.spherical_average(v).c),
    "spherical_average(f).x": ("    return grid.spherical_average(vals).x", lambda g, v, P: g.spherical_average(v).x),
    "interpolate(f)(points)": ("    return grid.interpolate(vals)(pts)", lambda g, v, P: g.interpolate(v)(P)),
    "interpolate(f)(points, deriv=1)": ("    return grid.interpolate(vals)(pts, deriv=1)", lambda g, v, P: g.interpolate(v)(P, deriv=1)),
    "interpolate(f)(points, 1, True)": ("    return grid.interpolate(vals)(pts, 1, True)", lambda g, v, P: g.interpolate(v)(P, 1, True)),
    "interpolate(f)(points, 2, False, True)": ("    return grid.interpolate(vals)(pts, 2, False, True)", lambda g, v, P: g.interpolate(v)(P, 2, False, True)),
    "get_shell_grid(1).points": ("    return grid.get_shell_grid(1).points", lambda g, v, P: g.get_shell_grid(1).points),
    "get_shell_grid(1).weights": ("    return grid.get_shell_grid(1).weights", lambda g, v, P: g.get_shell_grid(1).weights),
}
# handed out BY REFERENCE on the pinned tree (the stored object itself; convention of the base class `Grid` and of the plain attribute
# properties of AtomGrid): in-place edits by the caller do change the grid. Measured and reported as information, not asserted.
HANDED_BY_REFERENCE = {
    "weights": lambda g, v, P: g.weights,
    "indices": lambda g, v, P: g.indices,
    "center": lambda g, v, P: g.center,
    "basis (after the first decomposition)": lambda g, v, P: (g.radial_component_splines(v), g.basis)[1],
    "rgrid.points": lambda g, v, P: g.rgrid.points,
    "rgrid.weights": lambda g, v, P: g.rgrid.weights,
}


def _oracle_handed_out(ctx, M, budget):
    """class 9: every array the decomposition / interpolation routes of AtomGrid hand out is edited in place by the "caller"; the same request
    again must give the first answer and the grid must still decompose / interpolate exactly (all clauses against a band-limited function)."""
    rng = ctx.rng
    big = budget == "large" or ctx.thorough
    for rep in range(3 if big else 1):
        _, info = _atom_grid(ctx, M, n=rng.choice([3, 4]), cap=9, mixed=rng.random() < 0.5, zero_kind=rng.choice(["none", "zero"]),
                             center=[np.zeros(3), None][rep % 2] if rep else np.zeros(3))
        g0 = _build(M, info)
        bl = BandLimited(rng, int(min(g0.degrees)) // 2, smooth=True)
        pts = _eval_points(rng, g0, 3)
        names = list(HANDED) if big or rep == 0 else rng.sample(list(HANDED), 6)
        for name in names:
            text, get = HANDED[name]
            g = _build(M, info)
            vals = _grid_values(M, g, bl)
            keepv = vals.copy()
            ctx.count(["oracle-handed-out", name, info], nontrivial=True, tag="oracle:handed-out:" + name.split("(")[0])
            try:
                first = get(g, vals, pts)
                keep = np.array(first, copy=True)
                try:
                    first *= -3.0
                    first += 7.0
                except ValueError:
                    pass
                second = np.asarray(get(g, vals, pts))
                snippet = SNIP_HANDED.format(info=info, bl=bl.to_json(), pts=pts.tolist(), getter=text)
                if not _same(second, keep):
                    ctx.fail("oracle", "atomgrid.handed-out:" + name, f"{name}: after the caller edited the returned array in place, the same request gives another answer "
                             "(the array handed out is not the caller's own)", witness=dict(info=info, function=bl.to_json()), snippet=snippet)
                    continue
                if not _same(vals, keepv):
                    ctx.fail("oracle", "atomgrid.handed-out:" + name, f"{name}: the function values handed in changed", witness=dict(info=info), snippet=snippet)
                    vals = keepv.copy()
                for op in ("iac", "rcs", "interp"):
                    msg = _clause(M, g, bl.g(g.rgrid.points), keepv, vals, op)
                    if msg:
                        ctx.fail("oracle", "atomgrid.handed-out:" + name, f"{name}: after the caller edited the returned array in place the grid no longer decomposes a band-limited function: {msg}",
                                 witness=dict(info=info, function=bl.to_json()), snippet=snippet)
                        break
            except Exception as e:  # noqa: BLE001
                ctx.fail("oracle", "atomgrid.interpolate:raises", f"{name} twice on one grid raised {type(e).__name__}: {e}", witness=dict(info=info))
        if rep == 0:
            for name, get in HANDED_BY_REFERENCE.items():
                g = _build(M, info)
                vals = _grid_values(M, g, bl)
                try:
                    a = get(g, vals, pts)
                    shared = a is get(g, vals, pts)
                except Exception:  # noqa: BLE001
                    shared = None
                ctx.tagc(f"info:handed-out-by-reference:{name}:{'same-object' if shared else 'fresh' if shared is False else 'n/a'}")


def _oracle_single_shell(ctx, M, budget):
    """class 12: grids with one radial shell. The angular-integral clauses hold as for any grid; the spline-based entry points need two
    radial nodes (scipy's CubicSpline rejects one) — a rejection, counted as information."""
    rng = ctx.rng
    for zk in ("none", "zero", "tiny"):
        method = rng.choice(METHODS)
        g, info = _atom_grid(ctx, M, n=1, method=method, mixed=False, zero_kind=zk, cap={"ahrens_beylkin": 19}.get(method, 11),
                             center=np.zeros(3) if zk == "tiny" else None)
        bl = BandLimited(rng, int(min(g.degrees)) // 2, smooth=zk != "zero")
        _guarded(ctx, M, g, info, bl, budget, "single-shell:" + zk)
        try:
            g.interpolate(_grid_values(M, g, bl))
            ctx.tagc("info:single-shell:interpolate:accepted")
        except ValueError:
            ctx.tagc("info:single-shell:interpolate:rejected")


# ----------------------------------------------------------------------------------------------
# round 4 oracle: classes 14, 17, 19, 20 as clauses of the property on the implementation
# ----------------------------------------------------------------------------------------------
SNIP_SHAPES = SNIP_DEFS + """
info = {info!r}
bls = {bls!r}
lead = tuple({lead!r})
grid = build(info)
stack = np.array([values(grid, b) for b in bls]).reshape(lead + (grid.size,))
A = np.asarray(grid.integrate_angular_coordinates(stack), dtype=float)
want = np.array([math.sqrt(4 * math.pi) * make_g(b)(grid.rgrid.points)[0] for b in bls]).reshape(lead + (grid.n_shells,))
assert A.shape == want.shape and np.all(np.abs(A - want) <= {tol!r}), (A.shape, want.shape, float(np.max(np.abs(A - want))) if A.shape == want.shape else None)
"""


def _oracle_shapes(ctx, M, g, info):
    """class 20: the angular-integral clause for several band-limited functions stacked along leading axes of sizes 1, 2, n_shells, the
    size of the first shell, two leading axes; the value clause for 1, 2, 3, n_shells and (l_max // 2 + 1)^2 evaluation points."""
    rng = ctx.rng
    N, n = g.size, g.n_shells
    L = int(min(g.degrees)) // 2
    s0 = int(g.indices[1] - g.indices[0])
    K = max(n, min(s0, 8), 6)
    bls = [BandLimited(rng, rng.randrange(0, L + 1), smooth=True) for _ in range(K)]
    vals = [_grid_values(M, g, b) for b in bls]
    r = g.rgrid.points
    for lead in [(1,), (2,), (n,), (min(s0, 8),), (2, 1), (1, 2), (2, 3)]:
        k = int(np.prod(lead))
        stack = np.array(vals[:k]).reshape(lead + (N,))
        ctx.count(["oracle-shapes", list(lead), info], nontrivial=True, tag="oracle:shapes:func_vals:" + "x".join(map(str, lead)))
        A = np.asarray(g.integrate_angular_coordinates(stack.copy()), dtype=float)
        want = np.array([math.sqrt(4 * math.pi) * b.g(r)[0] for b in bls[:k]]).reshape(lead + (n,))
        tol = 2e-10 * 4 * (float(np.max(np.abs(want))) + 1e-300)
        if A.shape != want.shape or not np.all(np.abs(A - want) <= tol):
            ctx.fail("oracle", "atomgrid.integrate_angular_coordinates:shapes", f"{k} band-limited functions stacked to shape {lead + (N,)} (shell sizes {np.diff(g.indices).tolist()}): the angular integrals "
                     f"{A.shape} are not sqrt(4 pi) g_00(r_i) per function {want.shape}" + ("" if A.shape != want.shape else f" (max deviation {float(np.max(np.abs(A - want)))!r})"),
                     witness=dict(info=info, lead=list(lead)), snippet=SNIP_SHAPES.format(info=info, bls=[b.to_json() for b in bls[:k]], lead=list(lead), tol=tol))
    if n < 2:
        return
    F = g.interpolate(vals[0].copy())
    splines = g.radial_component_splines(vals[0].copy())
    nrows = len(splines)
    allp = _eval_points(rng, g, nrows + 3)
    for m in sorted({1, 2, 3, n, nrows}):
        P = allp[:m]
        rr, az, pol = _angles(P - g.center)
        Y = real_harmonics(int(max(g.degrees)) // 2, az, pol)[:nrows]
        S0 = np.array([sp(rr) for sp in splines])
        want = np.einsum("ij,ij->j", S0, Y)
        tol = 1e-10 * (float(np.max(np.sum(np.abs(S0), axis=0))) + 1e-300)
        got = np.asarray(F(P.copy()), dtype=float)
        ctx.tagc(f"oracle:shapes:points:{m}")
        if got.shape != want.shape or not np.all(np.abs(got - want) <= tol):
            ctx.fail("oracle", "atomgrid.interpolate:is-sum", f"{m} evaluation points (grid: {n} shells, {nrows} harmonics rows): interpolant {got.tolist()}, sum_lm spline_lm(r) Y_lm {want.tolist()}",
                     witness=dict(info=info, function=bls[0].to_json(), points=P), snippet=SNIP_PTS.format(info=info, bl=bls[0].to_json(), arr=P.tolist(), tol=tol))


def _oracle_object_kinds(ctx, M, budget):
    """class 14: every clause on grids whose radial points / weights, degrees and centre were handed to the constructors in other dtypes and
    container kinds (read-only, strided, negative stride, integer valued, int32 degrees, list / float32 centre)."""
    rng = ctx.rng
    big = budget == "large" or ctx.thorough
    sets = [k for k in KIND_SETS if k.get("r") != "float32"]
    for kinds in (sets if big else [sets[3]] + rng.sample(sets[:3] + sets[4:], 1)):
        info = dict(_kind_info(ctx, M, kinds), kinds=kinds)
        g = _build(M, info)
        _guarded(ctx, M, g, info, BandLimited(rng, min(int(min(g.degrees)) // 2, 9), smooth=True), budget, "kinds:" + ",".join(f"{k}={v}" for k, v in sorted(kinds.items())),
                 derivs=kinds.get("r") != "int-valued" or True)


SNIP_COMPLEX = SNIP_DEFS + """
info = {info!r}
bre, bim = {bre!r}, {bim!r}
grid = build(info)
vals = (values(grid, bre) + 1j * values(grid, bim)).astype({dtype!r})
G = make_g(bre)(grid.rgrid.points) + 1j * make_g(bim)(grid.rgrid.points)
{body}
"""


def _oracle_complex(ctx, M, budget):
    """class 17: complex function values (the decomposition is linear): f = f_re + i f_im with both parts band-limited; angular integrals,
    radial components, spherical average, interpolant values and its spherical / radial reports must be those of the parts. complex128,
    complex64 and extended-precision real data. (The Cartesian report is examined separately: see _complex_cartesian.)"""
    rng = ctx.rng
    big = budget == "large" or ctx.thorough
    for dtype in (["complex128", "complex64", "longdouble"] if big else ["complex128", rng.choice(["complex64", "longdouble"])]):
        g, info = _agg_grid(ctx, M, zero_kind=rng.choice(["none", "zero"])) if rng.random() < 0.5 else _atom_grid(ctx, M, n=rng.choice([3, 4]), cap=9, zero_kind=rng.choice(["none", "zero"]))
        L = int(min(g.degrees)) // 2
        bre, bim = BandLimited(rng, L, smooth=True), BandLimited(rng, rng.randrange(0, L + 1), smooth=True)
        r = g.rgrid.points
        vre, vim = _grid_values(M, g, bre), _grid_values(M, g, bim)
        if dtype == "longdouble":
            vals = vre.astype(np.longdouble)
            G = bre.g(r).astype(complex)
            Gim = np.zeros_like(G)
        else:
            vals = (vre + 1j * vim).astype(dtype)
            Gim = np.zeros((bre.nrows, g.n_shells))
            Gim[: bim.nrows] = bim.g(r)
            G = bre.g(r) + 1j * Gim
        loose = 1e5 if dtype == "complex64" else 1.0          # single-precision data
        gs = float(np.max(np.abs(G))) + 1e-300
        keep = vals.copy()
        ctx.count(["oracle-complex", dtype, info], nontrivial=True, tag="oracle:value-kinds:" + dtype)
        wit = dict(info=info, dtype=dtype, re=bre.to_json(), im=bim.to_json())

        def snip(body):
            return SNIP_COMPLEX.format(info=info, bre=bre.to_json(), bim=bim.to_json() if dtype != "longdouble" else dict(bim.to_json(), amp=0.0), dtype=dtype if dtype != "longdouble" else "complex128", body=body)
        try:
            A = np.asarray(g.integrate_angular_coordinates(vals), dtype=complex)
            want = math.sqrt(4 * math.pi) * G[0]
            if A.shape != want.shape or not np.all(np.abs(A - want) <= 2e-10 * 4 * gs * loose):
                ctx.fail("oracle", "atomgrid.integrate_angular_coordinates:value-kinds", f"func_vals of dtype {dtype}: angular integrals {A.tolist()} are not sqrt(4 pi) g_00(r_i) = {want.tolist()}", witness=wit,
                         snippet=snip("A = np.asarray(grid.integrate_angular_coordinates(vals), dtype=complex)\nassert np.all(np.abs(A - math.sqrt(4 * math.pi) * G[0]) <= " + repr(2e-10 * 4 * gs * loose) + "), A"))
            if g.n_shells >= 2:
                spl = g.radial_component_splines(vals)
                comps = np.array([np.asarray(sp(r), dtype=complex) for sp in spl])
                wantc = np.zeros_like(comps)
                k = min(G.shape[0], comps.shape[0])
                wantc[:k] = G[:k]
                if not np.all(np.abs(comps - wantc) <= 1e-9 * 4 * gs * loose):
                    ctx.fail("oracle", "atomgrid.radial_component_splines:value-kinds", f"func_vals of dtype {dtype}: the splines do not pass through g_lm(r_i) (max deviation {float(np.max(np.abs(comps - wantc)))!r}; "
                             f"imaginary parts {float(np.max(np.abs(comps.imag)))!r} vs {float(np.max(np.abs(wantc.imag)))!r})", witness=wit,
                             snippet=snip("spl = grid.radial_component_splines(vals)\ncomps = np.array([np.asarray(s(grid.rgrid.points), dtype=complex) for s in spl])\nwant = np.zeros_like(comps)\n"
                                          "want[:len(G)] = G[:len(comps)]\nassert np.all(np.abs(comps - want) <= " + repr(1e-9 * 4 * gs * loose) + "), float(np.max(np.abs(comps - want)))"))
                F = g.interpolate(vals)
                fv = np.asarray(F(g.points), dtype=complex)
                true = vre + 1j * (vim if dtype != "longdouble" else 0.0)
                mask = np.ones(g.size, dtype=bool)
                fs = float(np.max(np.abs(true))) + 1e-300
                if not np.all(np.abs(fv - true)[mask] <= 1e-8 * fs * (1 + comps.shape[0]) * loose):
                    j = int(np.argmax(np.abs(fv - true)))
                    ctx.fail("oracle", "atomgrid.interpolate:value-kinds", f"func_vals of dtype {dtype}: interpolant at grid point {j} = {fv[j]!r}, function value {true[j]!r}", witness=wit,
                             snippet=snip("F = grid.interpolate(vals)\nfv = np.asarray(F(grid.points), dtype=complex)\nassert np.all(np.abs(fv - vals) <= " + repr(1e-8 * fs * (1 + comps.shape[0]) * loose) + "), float(np.max(np.abs(fv - vals)))"))
                # the spherical and radial reports of the complex interpolant are those of its parts
                pts = _eval_points(rng, g, 3)[:4]
                Fre, Fim = _build(M, info).interpolate(np.asarray(vals).real.astype(float)), _build(M, info).interpolate(np.asarray(vals).imag.astype(float))
                for fl in [(1, True, False), (2, False, True), (1, False, False)]:
                    got = np.asarray(F(pts, *fl), dtype=complex)
                    wantd = np.asarray(Fre(pts, *fl), dtype=complex) + 1j * np.asarray(Fim(pts, *fl), dtype=complex)
                    sc = float(np.max(np.abs(wantd))) + 1e-300
                    okd = got.shape == wantd.shape and bool(np.all(np.abs(got - wantd) <= 1e-9 * sc * loose))
                    if fl == (1, False, False):
                        # pinned tree: the (M, 3) array of the Cartesian report is allocated as float64 — the imaginary part is dropped with a
                        # ComplexWarning. Reported to the lead; recorded as information until decided.
                        ctx.tagc("info:complex-func_vals:cartesian-report:" + ("complex-kept" if okd else "imaginary-part-dropped" if got.shape == wantd.shape and np.all(np.abs(got - wantd.real) <= 1e-9 * sc * loose) else "other"))
                        continue
                    if not okd:
                        ctx.fail("oracle", "atomgrid.interpolate:value-kinds", f"func_vals of dtype {dtype}: report deriv={fl[0]}, deriv_spherical={fl[1]}, only_radial_deriv={fl[2]} is not the report of the real part plus i "
                                 "times the report of the imaginary part", witness=dict(wit, points=pts))
            if vals.dtype != keep.dtype or not _same(vals, keep):
                ctx.fail("oracle", "atomgrid.interpolate:modifies-input", f"func_vals of dtype {dtype} changed", witness=wit)
        except Exception as e:  # noqa: BLE001
            ctx.fail("oracle", "atomgrid.interpolate:raises", f"func_vals of dtype {dtype}: the library raised {type(e).__name__}: {e}", witness=wit,
                     snippet=snip("grid.integrate_angular_coordinates(vals)\ngrid.interpolate(vals)(grid.points[:3])"))


def _real_rgrid(M, rng, kind=None):
    """(name, points, weights) of a radial grid as the library's own transforms make it (nodes over many orders of magnitude, weights
    growing like r^2 dr)"""
    import importlib
    od, rt = M[1], importlib.import_module("grid.rtransform")
    kind = kind or rng.choice(["becke", "knowles", "handy", "power", "multiexp", "linear", "becke-trimmed"])
    n = rng.choice([12, 20, 30])
    if kind == "becke":
        rg = rt.BeckeRTransform(rng.choice([1e-5, 1e-3, 0.0]), rng.choice([0.5, 1.5])).transform_1d_grid(od.GaussChebyshev(n))
    elif kind == "knowles":
        rg = rt.KnowlesRTransform(1e-4, rng.choice([1.0, 2.5]), rng.choice([2, 3])).transform_1d_grid(od.GaussLegendre(n))
    elif kind == "handy":
        rg = rt.HandyRTransform(1e-4, 1.2, 2).transform_1d_grid(od.GaussChebyshevType2(n))
    elif kind == "power":
        rg = rt.PowerRTransform(3e-4, rng.choice([8.0, 25.0])).transform_1d_grid(od.UniformInteger(n))
    elif kind == "multiexp":
        rg = rt.MultiExpRTransform(1e-3, 1.5).transform_1d_grid(od.GaussLegendre(n))
    elif kind == "linear":
        rg = rt.LinearFiniteRTransform(0.0, rng.choice([3.0, 12.0])).transform_1d_grid(od.ClenshawCurtis(n))
    else:
        rg = rt.BeckeRTransform(0.0, 1.0, trim_inf=True).transform_1d_grid(od.ClenshawCurtis(n))          # end nodes at r = 0 and at the trimmed 1e16
    r, w = np.array(rg.points, dtype=float), np.abs(np.array(rg.weights, dtype=float))
    order = np.argsort(r)
    return kind, r[order], w[order]


def _oracle_real_rgrids(ctx, M, budget):
    """class 19: the radial layer as the library itself makes it. Nodes from 1e-5 to 1e4 (and the trimmed end value 1e16), weights from
    1e-12 to 1e+40; Gaussians underflow to exact zeros on the outer shells. Envelope measured on the pinned tree: all clauses hold at the
    tolerances of the ordinary plans (finite-difference clauses left out: they assume spacings of order one); shells whose radial
    weight is 0 are dropped (the code divides by r^2 w)."""
    rng = ctx.rng
    big = budget == "large" or ctx.thorough
    for it in range(8 if big else 2):
        # in every run one grid whose outer shells have r^2 w beyond 1e11 (Handy), with a function that is still alive out there
        kind, r, w = _real_rgrid(M, rng, kind="handy" if it == 0 else None)
        # envelope (measured on the pinned tree): a node at the trimmed end value 1e16 makes the last cubic piece 1e16 long — SciPy's evaluation of
        # the spline at that knot keeps no digit (values of order 1e8 where the data are 0); such nodes are outside what is asserted
        keepm = (w > 0) & np.isfinite(r) & np.isfinite(w) & np.concatenate([[True], np.diff(r) > 0]) & (r <= 1e5)
        r, w = r[keepm], w[keepm]
        method = rng.choice(["lebedev", "spherical", "maxdet"])
        pool = [d for d in DEGS[method] if d <= 9]
        degs = [rng.choice(pool) for _ in r]
        info = dict(n=len(r), method=method, degs=degs, zero="zero" if r[0] == 0.0 else "none", center=[0.0, 0.0, 0.0] if r[0] < 1e-3 else [0.5, -1.25, 2.0], rotate=rng.choice([0, 9]),
                    r=r.tolist(), w=w.tolist(), rgrid=kind)
        ctx.tagc("oracle:real-rgrid:" + kind)
        try:
            g = _build(M, info)
        except Exception as e:  # noqa: BLE001
            ctx.fail("oracle", "atomgrid.interpolate:raises", f"building an atomic grid on a {kind} radial grid raised {type(e).__name__}: {e}", witness=dict(info=info))
            continue
        _guarded(ctx, M, g, info, BandLimited(rng, int(min(degs)) // 2, smooth=True, rscale=rng.choice([1.0, 0.05, 30.0, 300.0]) if it else max(1.0, float(r[-1]) / 3.0)), budget, "real-rgrid:" + kind, derivs=False)


def _oracle_mol_extreme(ctx, M, budget):
    """class 19 for the molecular clause: nuclei 0.3 bohr apart and 40 bohr apart in one molecule (atom-in-molecule weights ~1e-16 .. 1 and
    exactly 0 / 1), heteronuclear, evaluation at every nucleus (the centre of one atomic interpolant, an ordinary point of the others)."""
    rng = ctx.rng
    mg, bk = M[4], M[5]
    for _ in range(1 if budget == "small" and not ctx.thorough else 4):
        cs = [np.zeros(3), np.array([rng.choice([0.3, 0.45]), 0.0, 0.0]), np.array([0.0, rng.choice([25.0, 40.0]), 1.0])]
        grids, infos = [], []
        for a, c in enumerate(cs):
            g, info = _agg_grid(ctx, M, method="lebedev", center=c) if a == 1 else _atom_grid(ctx, M, n=rng.choice([3, 4]), cap=9, zero_kind="none", center=c)
            grids.append(g)
            infos.append(info)
        ctx.tagc("oracle:mol:close-and-far-nuclei")
        try:
            _mol_case(ctx, M, grids, infos, [rng.choice([1, 3]), rng.choice([8, 17]), 1], extra_points=[c.tolist() for c in cs])
        except Exception as e:  # noqa: BLE001
            ctx.fail("oracle", "molgrid.interpolate:raises", f"MolGrid.interpolate with nuclei {[c.tolist() for c in cs]} raised {type(e).__name__}: {e}", witness=dict(infos=infos))


# ----------------------------------------------------------------------------------------------
# round 5: classes 21 (sizes past a block boundary), 22 (orders the code may assume), 23 (extended / reduced precision arguments given
# directly), 24 (evaluation far outside / deep inside the radial range), 25 (one array object modified in place between two requests /
# constructions), 26 (two instances differing in one hidden dependency — more pair kinds in _pair_infos)
# ----------------------------------------------------------------------------------------------
SNIP_BLOCKS = SNIP_HEAD + """
rs = np.random.default_rng({seed!r})
m = {m!r}
d = rs.normal(size=(m, 3)); d /= np.linalg.norm(d, axis=1)[:, None]
P = grid.center + d * (rs.uniform(0.05, 1.1, size=m) * grid.rgrid.points[-1])[:, None]
F = grid.interpolate(vals)
spl = grid.radial_component_splines(vals)
r, az, pol = angles(P - grid.center)
want = np.einsum('ij,ij->j', np.array([s(r) for s in spl]), real_harmonics(int(max(grid.degrees)) // 2, az, pol)[:len(spl)])
got = np.asarray(F(P), dtype=float)
assert got.shape == want.shape, (got.shape, want.shape)
bad = np.nonzero(~(np.abs(got - want) <= {tol!r}))[0]
assert bad.size == 0, (m, 'evaluation points; first wrong entries', bad[:5], got[bad[:5]], want[bad[:5]])
"""


def _oracle_blocks(ctx, M, budget):
    """class 21: counts that are not a multiple of any 2^k or {1, 2, 5} 10^k and lie just above such values. Evaluation points of the
    interpolant and of convert_cartesian_to_spherical (1025, 4097; thorough: 20001, 65537, 2^19 + 1) against the independent point-by-point
    reference and against the same request split in two; 1025 (thorough 4097) radial shells; 1025 functions stacked in func_vals."""
    rng = ctx.rng
    big = budget == "large" or ctx.thorough
    g, info = _atom_grid(ctx, M, n=3, method="lebedev", degs=[3, 5, 3], zero_kind="none", rotate=rng.choice([0, 2]))
    bl = BandLimited(rng, 1, smooth=True)
    vals = _grid_values(M, g, bl)
    F = g.interpolate(vals.copy())
    splines = g.radial_component_splines(vals.copy())
    rmax = float(g.rgrid.points[-1])
    Lc = int(max(g.degrees)) // 2
    for m in ([1025, 4097] + ([20001, 65537, 2 ** 19 + 1] if big else [])):
        seed = rng.randrange(10 ** 6)
        rs = np.random.default_rng(seed)
        d = rs.normal(size=(m, 3))
        d /= np.linalg.norm(d, axis=1)[:, None]
        P = g.center + d * (rs.uniform(0.05, 1.1, size=m) * rmax)[:, None]
        ctx.count(["oracle-blocks", "points", m, info], nontrivial=True, tag=f"oracle:blocks:points:{m}")
        rr, az, pol = _angles(P - g.center)
        S0 = np.array([sp(rr) for sp in splines])
        want = np.einsum("ij,ij->j", S0, real_harmonics(Lc, az, pol)[: len(splines)])
        tol = 1e-10 * (float(np.max(np.sum(np.abs(S0), axis=0))) + 1e-300)
        got = np.asarray(F(P), dtype=float)
        if got.shape != want.shape or not np.all(np.abs(got - want) <= tol):
            badi = np.nonzero(~(np.abs(got - want) <= tol))[0] if got.shape == want.shape else np.array([0])
            ctx.fail("oracle", "atomgrid.interpolate:blocks", f"{m} evaluation points: the interpolant differs from sum_lm spline_lm(r) Y_lm at {badi.size} of them (first index {int(badi[0])}, "
                     f"last {int(badi[-1])}); shape {got.shape}", witness=dict(info=info, function=bl.to_json(), npoints=m, seed=seed),
                     snippet=SNIP_BLOCKS.format(info=info, bl=bl.to_json(), seed=seed, m=m, tol=tol))
        sph = np.asarray(g.convert_cartesian_to_spherical(P), dtype=float)
        if sph.shape != (m, 3) or not (np.all(np.abs(sph[:, 0] - rr) <= 1e-13 * (1 + rr)) and np.all(np.abs(np.sin(sph[:, 1] - az)) <= 1e-12) and np.all(np.abs(sph[:, 2] - pol) <= 1e-12)):
            ctx.fail("oracle", "atomgrid.convert_cartesian_to_spherical:blocks", f"{m} points: the spherical coordinates differ from the point-by-point computation", witness=dict(info=info, npoints=m, seed=seed))
        k = 1000 if m < 5000 else m // 3 + 1
        for fl in [(0, False, False), (1, True, False), (2, False, True)] + ([(1, False, False)] if m <= 20001 else []):
            a = np.asarray(F(P, *fl), dtype=float)
            p1, p2 = np.asarray(F(P[:k].copy(), *fl), dtype=float), np.asarray(F(P[k:].copy(), *fl), dtype=float)
            if fl == (1, True, False):
                b = np.concatenate([np.concatenate([p1[c * k:(c + 1) * k], p2[c * (m - k):(c + 1) * (m - k)]]) for c in range(3)]) if p1.shape == (3 * k,) and p2.shape == (3 * (m - k),) else np.array([])
            else:
                b = np.concatenate([p1, p2])
            if a.shape != b.shape or not _cmp_arrays(a, b, 1e-12, scale=None, atol=1e-13 * (float(np.max(np.abs(vals))) + 1e-300)):
                ctx.fail("oracle", "atomgrid.interpolate:blocks", f"{m} evaluation points, deriv={fl[0]}, deriv_spherical={fl[1]}, only_radial_deriv={fl[2]}: the report for all points is not the one for the "
                         f"first {k} followed by the one for the other {m - k}", witness=dict(info=info, function=bl.to_json(), npoints=m, seed=seed, split=k))
    # many radial shells
    for n in ([1025] + ([4097] if big else [])):
        r = np.cumsum(np.array([rng.uniform(0.004, 0.012) for _ in range(n)])) * (1025.0 / n)
        w = np.array([rng.uniform(0.5, 1.5) for _ in range(n)]) * 0.008
        infon = dict(n=n, method="lebedev", degs=[(3, 5)[(i * 7 // 3) % 2] for i in range(n)], zero="none", center=[0.25, -0.5, 1.0], rotate=0, r=r.tolist(), w=w.tolist())
        gn = _build(M, infon)
        bln = BandLimited(rng, 1, smooth=True, rscale=2.0)
        vn = _grid_values(M, gn, bln)
        ctx.count(["oracle-blocks", "shells", n], nontrivial=True, tag=f"oracle:blocks:shells:{n}")
        for op in ("iac", "rcs", "interp"):
            msg = _clause(M, gn, bln.g(gn.rgrid.points), vn, vn.copy(), op)
            if msg:
                ctx.fail("oracle", f"atomgrid.{OPNAME[op]}:blocks", f"{n} radial shells (degrees 3 / 5 alternating irregularly): {msg}", witness=dict(n_shells=n, function=bln.to_json(), info=dict(infon, r="cumsum", w="…")),
                         snippet=SNIP_GENERIC.format(info=infon, bl=bln.to_json(), clause=f"{OPNAME[op]} on {n} shells", body=SNIP_CLAUSE + f"\nerr, tol = clause(grid, gfun(grid.rgrid.points), vals, vals.copy(), {op!r})\nassert err <= tol, (err, tol)"))
                break
    # many functions at once
    K = 1025
    base = np.array([_grid_values(M, g, BandLimited(rng, rng.choice([0, 1]), smooth=True)) for _ in range(3)])
    e3 = np.array([np.asarray(g.integrate_angular_coordinates(b.copy()), dtype=float) for b in base])
    C3 = ctx.np_rng.normal(size=(K, 3))
    A = np.asarray(g.integrate_angular_coordinates(C3 @ base), dtype=float)
    ctx.count(["oracle-blocks", "functions", K, info], nontrivial=True, tag=f"oracle:blocks:functions:{K}")
    if A.shape != (K, g.n_shells) or not np.all(np.abs(A - C3 @ e3) <= 1e-11 * (float(np.max(np.abs(e3))) * 3 + 1e-300) * 5):
        ctx.fail("oracle", "atomgrid.integrate_angular_coordinates:blocks", f"{K} functions (linear combinations of three band-limited ones) stacked in func_vals: the angular integrals {A.shape} are not the same "
                 "combinations of the three", witness=dict(info=info, nfunctions=K))


def _oracle_orders(ctx, M, budget):
    """class 22: radial nodes in descending and in shuffled order (and the descending grid the library itself makes with a decreasing map):
    the per-shell clauses refer to each shell on its own, so the order cannot matter; the spline-based entry points may reject such a grid
    (SciPy needs increasing knots) but must not answer wrongly. Evaluation points in descending-radius and shuffled order."""
    import importlib
    rng = ctx.rng
    big = budget == "large" or ctx.thorough
    for it in range(6 if big else 3):
        order = ["descending", "shuffled", "library-descending"][it % 3]
        # the descending grid always has its r = 0 node (now last)
        _, info = _atom_grid(ctx, M, n=rng.choice([3, 4, 5]), cap=9, mixed=True, zero_kind="zero" if order == "descending" else rng.choice(["none", "zero"]))
        n = info["n"]
        if order == "library-descending":
            od, rt = M[1], importlib.import_module("grid.rtransform")
            rg = rt.MultiExpRTransform(1e-3, 1.5).transform_1d_grid(od.GaussLegendre(n))
            r, w = np.array(rg.points, dtype=float), np.array(rg.weights, dtype=float)
            if not np.all(np.diff(r) < 0):
                order = "library-ascending"
            infop = dict(info, r=r.tolist(), w=w.tolist(), zero="none")
        else:
            perm = list(range(n))[::-1] if order == "descending" else rng.sample(range(n), n)
            if perm == sorted(perm):
                perm = perm[::-1]
            infop = dict(info, r=[info["r"][k] for k in perm], w=[info["w"][k] for k in perm], degs=[info["degs"][k] for k in perm])
        ctx.count(["oracle-orders", order, infop], nontrivial=True, tag="oracle:orders:radial:" + order)
        try:
            gp = _build(M, infop)
        except Exception as e:  # noqa: BLE001
            ctx.tagc(f"info:orders:{order}:constructor-rejects:{type(e).__name__}")
            continue
        bl = BandLimited(rng, int(min(gp.degrees)) // 2, smooth=True)
        vals = _grid_values(M, gp, bl)
        G = bl.g(gp.rgrid.points)
        wit = dict(info=infop, function=bl.to_json(), order=order)
        msg = _clause(M, gp, G, vals, vals.copy(), "iac")
        if msg:
            ctx.fail("oracle", "atomgrid.integrate_angular_coordinates:orders", f"radial nodes in {order} order {infop['r']}: {msg}", witness=wit,
                     snippet=SNIP_GENERIC.format(info=infop, bl=bl.to_json(), clause="angular integrals, radial nodes in " + order + " order",
                                                 body=SNIP_CLAUSE + "\nerr, tol = clause(grid, gfun(grid.rgrid.points), vals, vals.copy(), 'iac')\nassert err <= tol, (err, tol)"))
        A = np.asarray(gp.integrate_angular_coordinates(vals.copy()), dtype=float)
        rew, tot = float(np.sum(gp.rgrid.points ** 2 * gp.rgrid.weights * A)), float(gp.integrate(vals))
        if not close(rew, tot, rtol=1e-10, scale=float(np.sum(np.abs(vals * gp.weights))) + 1e-300):
            ctx.fail("oracle", "atomgrid.integrate_angular_coordinates:orders", f"radial nodes in {order} order: sum_i r_i^2 w_i A_i = {rew!r}, grid integral {tot!r}", witness=wit)
        for op in ("rcs", "interp", "avg"):
            try:
                msg = _clause(M, gp, G, vals, vals.copy(), op)
            except ValueError:
                ctx.tagc(f"info:orders:{order}:{op}:rejected")
                continue
            ctx.tagc(f"info:orders:{order}:{op}:accepted")
            if msg:
                ctx.fail("oracle", f"atomgrid.{OPNAME[op]}:orders", f"radial nodes in {order} order {infop['r']}: accepted, but {msg}", witness=wit)
    # evaluation points in another order
    g, info = _agg_grid(ctx, M, rotate=rng.choice([0, 6])) if rng.random() < 0.5 else _atom_grid(ctx, M, n=rng.choice([3, 4]), cap=9)
    f = ctx.np_rng.normal(size=g.size)
    F = g.interpolate(f.copy())
    P = _eval_points(rng, g, 9)
    rr = np.linalg.norm(P - g.center, axis=1)
    for name, perm in (("descending radius", np.argsort(-rr)), ("shuffled", np.array(rng.sample(range(len(P)), len(P)))), ("reversed", np.arange(len(P))[::-1])):
        ctx.count(["oracle-orders", "points", name, info], nontrivial=True, tag="oracle:orders:points:" + name.split()[0])
        for fl in FLAGS:
            a = np.asarray(F(P, *fl), dtype=float)
            b = np.asarray(F(P[perm].copy(), *fl), dtype=float)
            want = a.reshape(3, -1)[:, perm].reshape(-1) if fl == (1, True, False) else a[perm]
            if b.shape != want.shape or not _cmp_arrays(b, want, 1e-12, scale=None, atol=1e-12 * (float(np.max(np.abs(f))) + 1e-300)):
                ctx.fail("oracle", "atomgrid.interpolate:orders", f"evaluation points in {name} order, deriv={fl[0]}, deriv_spherical={fl[1]}, only_radial_deriv={fl[2]}: the report is not the permuted report "
                         "of the original order", witness=dict(info=info, points=P[perm], order=name))
                break


def _r5_precision(ctx, M):
    """class 23: points, centre and function values handed over directly as float16 / longdouble (float32 and integers: round 2): answers
    against those for the same values as float64 (1e-13; the values are exactly representable in the narrow type), the argument unchanged
    afterwards (dtype and bytes), a second request with the same object equal to the first."""
    rng = ctx.rng
    g, info = _agg_grid(ctx, M, rotate=rng.choice([0, 8])) if rng.random() < 0.5 else _atom_grid(ctx, M, n=rng.choice([2, 3, 4]), cap=9)
    N = g.size
    P64 = np.rint((_eval_points(rng, g, 4) - g.center) * 8) / 8 + np.rint(g.center * 8) / 8
    f64 = ctx.np_rng.normal(size=N).astype(np.float16).astype(np.float64)
    c64 = np.rint(np.array([rng.uniform(-2, 2) for _ in range(3)]) * 8) / 8
    for dt in (np.float16, np.longdouble):
        name = np.dtype(dt).name
        ctx.count(["precision", name, info], nontrivial=True, tag="precision:" + name)
        # float16: exactly representable values, float64 arithmetic inside; longdouble: the radius is formed in extended precision and rounded
        # once more (second radial derivatives of the splines amplify that last bit)
        ptol = 1e-12 if dt is np.float16 else 1e-9
        if dt is np.longdouble:
            # values that need all 53 bits (a detour through a narrower type would show)
            P64 = _eval_points(rng, g, 4)[:4]          # generic points (next to the polar axis arccos in extended precision resolves angles that float64 rounds to 0 / pi)
            f64 = ctx.np_rng.normal(size=N)
            c64 = np.array([rng.uniform(-2, 2) for _ in range(3)])
        P, f, c = P64.astype(dt), f64.astype(dt), c64.astype(dt)
        kp, kf, kc = P.copy(), f.copy(), c.copy()
        reqs = [("convert_cartesian_to_spherical(points)", lambda: g.convert_cartesian_to_spherical(P), lambda h: h.convert_cartesian_to_spherical(P64.copy())),
                ("convert_cartesian_to_spherical(points, center)", lambda: g.convert_cartesian_to_spherical(P, c), lambda h: h.convert_cartesian_to_spherical(P64.copy(), c64.copy())),
                ("integrate_angular_coordinates(func_vals)", lambda: g.integrate_angular_coordinates(f), lambda h: h.integrate_angular_coordinates(f64.copy()))]
        if g.n_shells >= 2:
            reqs += [("spherical_average(func_vals).c", lambda: g.spherical_average(f).c, lambda h: h.spherical_average(f64.copy()).c),
                     ("radial_component_splines(func_vals)", lambda: np.array([s.c for s in g.radial_component_splines(f)]), lambda h: np.array([s.c for s in h.radial_component_splines(f64.copy())]))]
            for fl in FLAGS:
                reqs.append((f"interpolate(func_vals)(points, {fl[0]}, {fl[1]}, {fl[2]})", lambda fl=fl: g.interpolate(f)(P, *fl), lambda h, fl=fl: h.interpolate(f64.copy())(P64.copy(), *fl)))
        for text, call, refcall in reqs:
            try:
                a = np.asarray(call())
                b = np.asarray(call())
            except TypeError as e:
                if dt is np.longdouble and "sph_harm_y" in str(e):
                    # pinned tree: the derivative harmonics go through SciPy's sph_harm_y, which has no extended-precision loop — a rejection
                    ctx.tagc("info:precision:longdouble-points:derivative-reports-rejected-by-scipy")
                    continue
                ctx.fail("corr", "atomgrid:precision", f"{text} with {name} arguments raised {type(e).__name__}: {e}", witness=dict(info=info, dtype=name, points=P64))
                continue
            except Exception as e:  # noqa: BLE001
                ctx.fail("corr", "atomgrid:precision", f"{text} with {name} arguments raised {type(e).__name__}: {e}", witness=dict(info=info, dtype=name, points=P64))
                continue
            want = np.asarray(refcall(_build(M, info)), dtype=float)
            af = np.asarray(a, dtype=float)
            if dt is np.float16 and "center)" in text:
                # points and centre both in half precision: the difference and the norm are formed in half precision (the precision the caller
                # chose): the radius to 5e-3, the angles are not compared
                if af.shape != want.shape or not np.all(np.abs(af[:, 0] - want[:, 0]) <= 5e-3 * (1 + np.abs(want[:, 0]))):
                    ctx.fail("corr", "atomgrid:precision", f"{text} with float16 arguments: radii differ from the float64 ones by more than half precision", witness=dict(info=info, dtype=name, points=P64))
                ctx.tagc("info:precision:float16-points-and-centre:half-precision-arithmetic")
            elif af.shape != want.shape or not _cmp_arrays(af, want, ptol, scale=None, atol=ptol * (1.0 + float(np.max(np.abs(want))) if want.size else 1.0)):
                ctx.fail("corr", "atomgrid:precision", f"{text} with {name} arguments differs from the answer for the same values as float64", witness=dict(info=info, dtype=name, points=P64))
            if not _same(a, b):
                ctx.fail("corr", "atomgrid:precision", f"{text} with {name} arguments: a second request with the same argument objects gives another answer", witness=dict(info=info, dtype=name, points=P64))
        if not (P.dtype == kp.dtype and f.dtype == kf.dtype and c.dtype == kc.dtype and _same(P, kp) and _same(f, kf) and _same(c, kc)):
            ctx.fail("corr", "atomgrid.interpolate:modifies-input", f"{name} arguments (points / func_vals / center) were changed by the requests", witness=dict(info=info, dtype=name))


def _r5_identity(ctx, M):
    """class 25: one func_vals buffer, one points buffer and one centre buffer, overwritten in place between requests (buf[:] = new, buf *= c);
    every answer against a newly built grid given a fresh copy of the new contents. One degrees array, one centre array and one OneDGrid
    overwritten in place between two constructions."""
    rng = ctx.rng
    ag, od = M[0], M[1]
    g, info = _agg_grid(ctx, M, rotate=rng.choice([0, 8])) if rng.random() < 0.5 else _atom_grid(ctx, M, n=rng.choice([2, 3, 4]), cap=9)
    N = g.size
    f1, f2 = ctx.np_rng.normal(size=N), ctx.np_rng.normal(size=N) * 0.5
    P1 = _eval_points(rng, g, 3)
    P2 = P1[::-1] * 0.75 + 0.125
    ops = ["iac"] + (["avg", "rcs", "interp"] if g.n_shells >= 2 else [])
    fbuf, pbuf = f1.copy(), P1.copy()
    stages = [("initial contents", f1, P1), ("buf[:] = new", f2, P2), ("buf *= 2.5", f2 * 2.5, P2 * 2.5), ("buf[:] = first contents", f1, P1)]
    ctx.count(["identity", info], nontrivial=True, tag="identity:requests")
    Fkeep = None
    for si, (what, fc, pc) in enumerate(stages):
        if si == 1:
            fbuf[:] = f2
            pbuf[:] = P2
        elif si == 2:
            fbuf *= 2.5
            pbuf *= 2.5
        elif si == 3:
            fbuf[...] = f1
            pbuf[...] = P1
        for op in ops:
            got = _run_op(g, op, fbuf, pbuf)
            want = _run_op(_build(M, info), op, fc.copy(), pc.copy())
            if not _same(got, want):
                ctx.fail("corr", f"atomgrid.{OPNAME[op]}:identity", f"{OPNAME[op]} with one func_vals / points buffer object overwritten in place ({[s[0] for s in stages[:si + 1]]}): the answer is not the one for a "
                         "fresh copy of the current contents", witness=dict(info=info, stage=what, points=pc))
                return
        s1 = np.asarray(g.convert_cartesian_to_spherical(pbuf))
        if not _same(s1, np.asarray(_build(M, info).convert_cartesian_to_spherical(pc.copy()))):
            ctx.fail("corr", "atomgrid.convert_cartesian_to_spherical:identity", f"one points buffer overwritten in place ({what}): the spherical coordinates are not those of the current contents",
                     witness=dict(info=info, stage=what, points=pc))
        if g.n_shells >= 2:
            # an interpolant made earlier keeps its function; its points buffer changes
            if Fkeep is None:
                Fkeep = g.interpolate(f1.copy())
            a = np.asarray(Fkeep(pbuf, 1))
            if not _same(a, np.asarray(_build(M, info).interpolate(f1.copy())(pc.copy(), 1))):
                ctx.fail("corr", "atomgrid.interpolate:identity", f"one interpolant, one points buffer overwritten in place ({what}): the report is not the one for the current contents",
                         witness=dict(info=info, stage=what, points=pc))
    cbuf = np.array([0.5, -0.25, 1.0])
    a = g.convert_cartesian_to_spherical(P1, center=cbuf)
    cbuf[:] = [-1.0, 0.75, 0.0]
    b = g.convert_cartesian_to_spherical(P1, center=cbuf)
    if not (_same(b, _build(M, info).convert_cartesian_to_spherical(P1.copy(), center=np.array([-1.0, 0.75, 0.0]))) and _same(a, _build(M, info).convert_cartesian_to_spherical(P1.copy(), center=np.array([0.5, -0.25, 1.0])))):
        ctx.fail("corr", "atomgrid.convert_cartesian_to_spherical:identity", "one centre buffer overwritten in place between two requests: the second answer is not the one for the new centre", witness=dict(info=info, points=P1))
    # constructions
    ctx.count(["identity", "constructions", info], nontrivial=True, tag="identity:constructions")
    rarr, warr = np.array(info["r"]), np.array(info["w"])
    dbuf, cbuf = np.array(info["degs"], dtype=np.int64), np.array(info["center"], dtype=float)
    kw = dict(rotate=int(info["rotate"]), method=info["method"])
    rg = od.OneDGrid(rarr, warr, (0, np.inf))
    gA = ag.AtomGrid(rg, degrees=dbuf, center=cbuf, **kw)
    fA = ctx.np_rng.normal(size=gA.size)
    refA = _run_op(gA, "iac", fA.copy(), P1)
    degs2 = list(info["degs"][1:]) + [info["degs"][0]]
    dbuf[:] = degs2
    cbuf += np.array([0.5, 0.0, -1.0])
    info2 = dict(info, degs=degs2, center=cbuf.tolist())
    gB = ag.AtomGrid(rg, degrees=dbuf, center=cbuf, **kw)
    ref = _build(M, info2)
    fB = ctx.np_rng.normal(size=ref.size)
    if gB.size != ref.size or not (_same(gB.points, ref.points) and _same(gB.weights, ref.weights) and _same(np.asarray(gB.indices), np.asarray(ref.indices))
                                   and all(_same(_run_op(gB, op, fB.copy(), P1), _run_op(ref, op, fB.copy(), P1)) for op in ops)):
        ctx.fail("corr", "atomgrid:identity-construction", "a second AtomGrid built from the same degrees / centre array objects after they were overwritten in place is not the grid of the new contents",
                 witness=dict(info=info2, first=info))
    ref_first = _build(M, dict(info))
    if not _same(np.asarray(gA.degrees), np.asarray(ref_first.degrees)) or not _same(_run_op(gA, "iac", fA.copy(), P1), refA):
        ctx.tagc("info:identity:first-grid-follows-later-edits-of-the-degrees-array")


def _corr_round5(ctx, M, add, parts):
    for _ in range(ctx.n(2, 12)):
        parts.run("atomgrid:precision", lambda: _r5_precision(ctx, M))
    for _ in range(ctx.n(2, 12)):
        parts.run("atomgrid:identity", lambda: _r5_identity(ctx, M))


# ----------------------------------------------------------------------------------------------
# follow-up to round 5 (eighth round of seeded changes): the molecular clause for 1, 2 and 3 atoms with every kind of atom-in-molecule
# weights the constructor accepts — the Becke callable, arrays that are not identically 1 (radial, signed, above one, zero on all but one
# atom) and a custom callable
# ----------------------------------------------------------------------------------------------
MOLW_SRC = '''
def molweights(kind, points, centers, indices):
    """atom-in-molecule weights that are, on the segment of each atom, a function of the distance to that atom's nucleus"""
    out = np.zeros(len(points))
    for a in range(len(centers)):
        s, e = int(indices[a]), int(indices[a + 1])
        r = np.linalg.norm(np.asarray(points)[s:e] - np.asarray(centers[a], dtype=float), axis=1)
        if kind in ("radial", "callable"):
            out[s:e] = 0.25 + np.exp(-0.4 * r * r)
        elif kind == "signed":
            out[s:e] = np.cos(1.3 * r + 0.2 * a)
        elif kind == "above-one":
            out[s:e] = 1.0 + 0.5 * r * r
        elif kind == "first-atom-only":
            out[s:e] = (0.25 + np.exp(-0.4 * r * r)) if a == 0 else 0.0
        else:
            raise ValueError(kind)
    return out
'''
exec(MOLW_SRC)

SNIP_MOLW = SNIP_DEFS + MOLW_SRC + """
from grid.molgrid import MolGrid
from grid.becke import BeckeWeights
infos = {infos!r}
kind = {kind!r}
bl = {bl!r}
pts = np.array({pts!r})
flags = {flags!r}
centers = [i['center'] for i in infos]
grids = [build(i) for i in infos]
idx = np.concatenate([[0], np.cumsum([g.size for g in grids])])
allp = np.vstack([g.points for g in grids])
if kind == 'becke':
    aim = BeckeWeights(order=3)
elif kind == 'callable':
    aim = lambda points, atcoords, atnums, indices: molweights('callable', points, atcoords, indices)
else:
    aim = molweights(kind, allp, centers, idx)
mol = MolGrid(np.array({atnums!r}), grids, aim, store=True)
gfun = make_g(bl)
def fun(p):          # band-limited about the first nucleus
    r, az, pol = angles(np.asarray(p, dtype=float) - np.array(centers[0]))
    return np.einsum('ij,ij->j', gfun(r), real_harmonics(bl['L'], az, pol))
f = fun(mol.points)
got = np.asarray(mol.interpolate(f)(pts, *flags), dtype=float)
fresh = [build(i) for i in infos]
w = np.asarray(mol.aim_weights, dtype=float)
want = sum(np.asarray(fresh[a].interpolate((w * f)[idx[a]:idx[a + 1]])(pts, *flags), dtype=float) for a in range(len(fresh)))
assert got.shape == np.shape(want) and np.all(np.abs(got - want) <= 1e-11 * (1 + np.max(np.abs(want)))), ('not the sum of the atomic interpolants of w_A f', float(np.max(np.abs(got - want))))
if flags == (0, False, False) and (len(infos) == 1 or kind == 'first-atom-only') and kind != 'becke':
    g0 = mol.points[:idx[1]]
    exact = w[:idx[1]] * f[:idx[1]]          # w(r) f is band-limited about the first nucleus: reproduced at its grid points
    v = np.asarray(mol.interpolate(f)(g0), dtype=float)
    assert np.all(np.abs(v - exact) <= {tolx!r}), ('interpolant at the grid points of the first atom is not w(r) f', float(np.max(np.abs(v - exact))))
"""

MOLW_FLAGS = FLAGS + [(1, False, True), (3, False, True)]


def _molw_case(ctx, M, nat, kind, infos=None):
    """the molecular clause on one molecule: values and every derivative report at arbitrary points, at grid points of the molecule and at
    the nuclei against sum_A atomgrid.interpolate((w_A f)[segment]) on atomic grids that were never part of a molecule; for weights that are
    radial about the owning nucleus and vanish on the other atoms (always so for one atom) also against the exact w(r) f."""
    mg, bk = M[4], M[5]
    rng = ctx.rng
    if infos is None:
        infos = []
        for a in range(nat):
            c = np.array([1.7 * a + rng.uniform(-0.2, 0.2), rng.uniform(-0.6, 0.6), rng.uniform(-0.6, 0.6)]) + np.array([0.5, -1.25, 2.0])
            if a == 0:
                _, info = _agg_grid(ctx, M, method=rng.choice(["lebedev", "spherical", "maxdet"]), center=c, rotate=rng.choice([0, 3, 37]))
            else:
                _, info = _atom_grid(ctx, M, n=rng.choice([2, 3]), cap=7, mixed=True, zero_kind="none", center=c, rotate=rng.choice([0, 11]))
            infos.append(info)
    nat = len(infos)
    centers = [i["center"] for i in infos]
    grids = [_build(M, i) for i in infos]
    idx = np.concatenate([[0], np.cumsum([g.size for g in grids])]).astype(int)
    allp = np.vstack([g.points for g in grids])
    if kind == "becke":
        aim = bk.BeckeWeights(order=3)
    elif kind == "callable":
        aim = lambda points, atcoords, atnums, indices: molweights("callable", points, atcoords, indices)      # noqa: E731
    else:
        aim = molweights(kind, allp, centers, idx)
    atnums = [rng.choice([1, 6, 8]) for _ in range(nat)]
    mol = mg.MolGrid(np.array(atnums), grids, aim, store=True)
    w = np.asarray(mol.aim_weights, dtype=float)
    bl = BandLimited(rng, min(int(min(grids[0].degrees)) // 2, 6), smooth=True)
    c0 = np.array(centers[0])

    def fun(p):
        r, az, pol = _angles(np.asarray(p, dtype=float) - c0)
        return bl.at(r, az, pol)
    f = fun(mol.points)
    keep = f.copy()
    rmax = float(infos[0]["r"][-1])
    sel = np.unique(np.linspace(0, mol.size - 1, 6).astype(int))
    pts = np.vstack([c0 + np.array([[rng.uniform(-1, 1) * rmax for _ in range(3)] for _ in range(4)]), mol.points[sel], np.array(centers), [c0 + np.array([0.0, 0.0, 0.4 * rmax])]])
    ctx.count(["oracle-molw", nat, kind, infos], nontrivial=True, tag=f"oracle:mol-weights:{nat}:{kind}")
    exact_ok = kind != "becke" and (nat == 1 or kind == "first-atom-only")
    nrows = (int(max(grids[0].degrees)) // 2 + 1) ** 2
    tolx = 1e-8 * (float(np.max(np.abs(w[: idx[1]] * f[: idx[1]]))) + 1e-300) * (1 + nrows)

    def snip(fl):
        return SNIP_MOLW.format(infos=infos, kind=kind, bl=bl.to_json(), pts=pts.tolist(), flags=tuple(fl), atnums=atnums, tolx=tolx)
    for fl in MOLW_FLAGS:
        try:
            got = np.asarray(mol.interpolate(f)(pts, *fl), dtype=float)
        except Exception as e:  # noqa: BLE001
            ctx.fail("oracle", "molgrid.interpolate:raises", f"{nat} atom(s), aim weights {kind}: MolGrid.interpolate(f)(points, {fl[0]}, {fl[1]}, {fl[2]}) raised {type(e).__name__}: {e}",
                     witness=dict(infos=infos, kind=kind, points=pts), snippet=snip(fl))
            continue
        fresh = [_build(M, i) for i in infos]
        want = sum(np.asarray(fresh[a].interpolate((w * keep)[idx[a]:idx[a + 1]])(pts, *fl), dtype=float) for a in range(nat))
        if got.shape != np.shape(want) or not np.all(np.abs(got - want) <= 1e-11 * (1 + float(np.max(np.abs(want))))):
            dev = float(np.max(np.abs(got - want))) if got.shape == np.shape(want) else None
            ctx.fail("oracle", "molgrid.interpolate:sum-of-atomic", f"{nat} atom(s), aim weights '{kind}' (min {float(np.min(w))!r}, max {float(np.max(w))!r}): MolGrid.interpolate(f)(points, deriv={fl[0]}, deriv_spherical={fl[1]}, "
                     f"only_radial_derivs={fl[2]}) is not the sum over the atoms of atomgrid.interpolate((w_A f)[segment]) (max deviation {dev!r})",
                     witness=dict(infos=infos, kind=kind, atnums=atnums, function=bl.to_json(), points=pts, flags=list(fl)), snippet=snip(fl))
    if exact_ok:
        g0 = mol.points[: idx[1]]
        exact = w[: idx[1]] * keep[: idx[1]]
        v = np.asarray(mol.interpolate(f)(g0), dtype=float)
        if v.shape != exact.shape or not np.all(np.abs(v - exact) <= tolx):
            j = int(np.argmax(np.abs(v - exact))) if v.shape == exact.shape else 0
            ctx.fail("oracle", "molgrid.interpolate:exact", f"{nat} atom(s), aim weights '{kind}' radial about the first nucleus: f band-limited about it, so w(r) f is; the molecular interpolant at grid point {j} of the "
                     f"first atom = {v.reshape(-1)[j]!r}, w(r) f = {exact[j]!r} (f = {keep[j]!r}, w = {w[j]!r})", witness=dict(infos=infos, kind=kind, atnums=atnums, function=bl.to_json()),
                     snippet=snip((0, False, False)))
        # on the spheres of the first atom's shells, away from its grid points
        i = rng.randrange(grids[0].n_shells)
        ri = float(grids[0].rgrid.points[i])
        d = ctx.np_rng.normal(size=(4, 3))
        d /= np.linalg.norm(d, axis=1)[:, None]
        P = c0 + ri * d
        wv = molweights(kind if kind != "callable" else "radial", P, [centers[0]], [0, len(P)])
        v = np.asarray(mol.interpolate(f)(P), dtype=float)
        if not np.all(np.abs(v - wv * fun(P)) <= tolx):
            ctx.fail("oracle", "molgrid.interpolate:exact", f"{nat} atom(s), aim weights '{kind}': on the sphere of shell {i} of the first atom (r = {ri!r}) the molecular interpolant {v.tolist()} is not "
                     f"w(r) f = {(wv * fun(P)).tolist()}", witness=dict(infos=infos, kind=kind, atnums=atnums, function=bl.to_json(), points=P))
    if not _same(f, keep):
        ctx.fail("oracle", "molgrid.interpolate:modifies-input", "MolGrid.interpolate changed the function values handed in", witness=dict(infos=infos, kind=kind))


def _oracle_mol_weights(ctx, M, budget):
    rng = ctx.rng
    big = budget == "large" or ctx.thorough
    kinds = ["radial", "signed", "above-one", "callable", "becke", "first-atom-only"]
    # in every run: one atom with each kind that is not identically 1 there; two and three atoms with a rotating choice
    plan = [(1, "radial"), (1, "signed"), (1, "above-one"), (1, "callable"), (2, "becke"), (2, rng.choice(["radial", "signed", "first-atom-only"])),
            (3, rng.choice(["callable", "above-one", "first-atom-only"]))]
    if big:
        plan += [(n, k) for n in (1, 2, 3) for k in kinds if (n, k) not in plan]
    for nat, kind in plan:
        try:
            _molw_case(ctx, M, nat, kind)
        except Exception as e:  # noqa: BLE001
            if not _lib_raised(e, M):
                raise
            import traceback
            ctx.fail("oracle", "molgrid.interpolate:raises", f"{nat} atom(s), aim weights {kind}: the library raised {type(e).__name__}: {e}", witness=dict(traceback=traceback.format_exc()[-1200:]))


def oracle(ctx: Ctx, budget: str):
    M = _mods()
    rng = ctx.rng
    parts = _Parts(ctx, M, "oracle")          # round 4: independent parts, an exception in one never hides what the others find
    try:
        _replay_findings(ctx, M)
    except Exception as e:  # noqa: BLE001
        ctx.fail("oracle", "atomgrid.interpolate:raises", f"interpolation of x exp(-r^2) on a uniform degree-10 grid raised {type(e).__name__}: {e}",
                 snippet=SNIP_FIXED.format(comp="x", p=[0.3, 0.2, 0.5], mode="cartesian"))
    big = budget == "large" or ctx.thorough
    plans = []
    # every method, uniform and mixed degrees, with and without a node at r = 0, rotated and centred
    for method in METHODS:
        cap = {"lebedev": 11, "spherical": 11, "maxdet": 10, "ahrens_beylkin": 19}[method]
        plans.append(dict(method=method, mixed=False, zero_kind="zero", cap=cap, n=rng.choice([4, 5])))
        plans.append(dict(method=method, mixed=True, zero_kind=rng.choice(["none", "zero", "both"]), cap=cap, n=rng.choice([4, 5, 6])))
    if True:
        for _ in range(40 if big else 8):
            method = rng.choice(METHODS)
            plans.append(dict(method=method, mixed=rng.random() < 0.6, zero_kind=rng.choice(["none", "zero", "tiny", "both"]),
                              cap=None if method != "ahrens_beylkin" else 23, n=rng.choice([3, 4, 6, 8])))
    # round 2: a rotated grid with a shell at r = 0 (smooth and canonical functions: the angles of that shell are those of the
    # UNROTATED angular grid), radial nodes at 9.99e-9, 1e-8, 1.01e-8 (both sides of the hard-coded threshold), larger degrees
    m = rng.choice(["lebedev", "spherical", "maxdet"])
    plans.append(dict(method=m, mixed=True, zero_kind="zero", cap=9, n=4, rotate=rng.choice([1, 37, 123456]), canonical=True))
    plans.append(dict(method=rng.choice(METHODS), mixed=False, zero_kind="zero", cap=19, n=4, rotate=rng.randrange(1, 10**6), canonical=True))
    plans.append(dict(method=rng.choice(["lebedev", "spherical", "maxdet"]), mixed=True, zero_kind="edge", cap=9, n=6, rotate=rng.choice([0, 5])))
    plans.append(dict(method=rng.choice(["lebedev", "spherical", "maxdet"]), mixed=rng.random() < 0.5, zero_kind="zero-edge", cap=9, n=7))
    plans.append(dict(method="lebedev", degs=[rng.choice([17, 19, 21, 23])], zero_kind="none", n=3))
    # round 3 (class 7): radial nodes a factor 100 on either side of the 1e-8 threshold, rotated
    plans.append(dict(method=rng.choice(["lebedev", "spherical", "maxdet"]), mixed=True, zero_kind="far-edge", cap=9, n=5, rotate=rng.choice([0, 11])))
    # round 4 (class 20), in every run: non-monotone shell sizes whose total is n_shells times the size of one shell (Lebedev [9, 7, 11]:
    # 38 + 26 + 50 = 3 * 38, the mean-sized shell first; other orders; four shells; another method), with the stacked-shapes clauses
    agg = _aggregate_degs(M, "lebedev")
    plans.append(dict(method="lebedev", degs=[9, 7, 11], zero_kind="none", n=3, shapes=True))
    q = rng.choice([x for x in agg if len(x) == 3 and x != [9, 7, 11]])
    plans.append(dict(method="lebedev", degs=q, zero_kind="zero", n=3, rotate=rng.choice([0, 13]), shapes=True))
    q = rng.choice([x for x in agg if len(x) == 4])
    plans.append(dict(method="lebedev", degs=q, zero_kind="none", n=4))
    m2 = rng.choice(["spherical", "maxdet"])
    q = rng.choice(_aggregate_degs(M, m2))
    plans.append(dict(method=m2, degs=q, zero_kind=rng.choice(["none", "zero"]), n=len(q), shapes=True))
    plans.append(dict(method="lebedev", degs=[rng.choice([3, 5, 7]), rng.choice([9, 11])], zero_kind="none", n=2, shapes=True))
    if big:
        plans.append(dict(method="lebedev", degs=[41], zero_kind="zero", n=4, Lcap=14, rotate=rng.choice([0, 7])))
        plans.append(dict(method="lebedev", degs=[29, 59, 41], zero_kind="none", n=4, Lcap=14))
        plans.append(dict(method="spherical", degs=[rng.choice([21, 25, 31])], zero_kind="zero", n=4, Lcap=12))
        plans.append(dict(method="maxdet", degs=[rng.choice([20, 30])], zero_kind="none", n=3, Lcap=12))
    def one_plan(ip, kw):
        Lcap = kw.pop("Lcap", 9)
        shapes = kw.pop("shapes", False)
        canonical = kw.pop("canonical", False)
        if kw["zero_kind"] in ("tiny", "both", "edge", "zero-edge", "far-edge"):
            # the points of a shell of radius 1e-9 about a centre of size 1 are rounded at the 1e-7 level relative to the
            # radius; the property is about the exact points, so such shells are examined about the origin
            kw["center"] = np.zeros(3)
        g, info = _atom_grid(ctx, M, **kw)
        # the array handed out by `points` is the caller's: shifting it in place (distances to another atom, …) before the first
        # decomposition must leave the grid, hence the harmonic basis built from it later, untouched
        P0 = np.array(g.points, dtype=float, copy=True)
        try:
            q = g.points
            q -= np.array([0.7, -0.4, 1.1])
        except ValueError:
            pass
        ctx.tagc("oracle:points-handed-out")
        if not np.array_equal(np.asarray(g.points, dtype=float), P0):
            ctx.fail("oracle", "atomgrid.points:handed-out", "an in-place edit of the array returned by AtomGrid.points (before the first decomposition) changed the points of the grid "
                     f"(centre {info['center']}): the harmonic basis and every spline built afterwards belong to other points", witness=dict(info=info),
                     snippet=SNIP_POINTS.format(center=info["center"]))
            return
        dmin = int(min(g.degrees))
        Lmax = dmin // 2
        L = Lmax if ip % 2 == 0 else rng.randrange(0, Lmax + 1)
        L = min(L, Lcap)
        _guarded(ctx, M, g, info, BandLimited(rng, L, smooth=True), budget, "smooth")
        if info["zero"] in ("zero", "both", "zero-edge") and (ip % 2 == 1 or canonical):
            # g_lm(0) != 0: the function values on the r = 0 shell are taken at the documented canonical angles
            g2, info2 = _atom_grid(ctx, M, **kw)
            _guarded(ctx, M, g2, info2, BandLimited(rng, min(int(min(g2.degrees)) // 2, 9), smooth=False), budget, "canonical")
        if shapes:
            g3, info3 = _atom_grid(ctx, M, **kw)
            _oracle_shapes(ctx, M, g3, info3)
    for ip, kw in enumerate(plans):
        parts.run("atomgrid.interpolate", lambda ip=ip, kw=kw: one_plan(ip, dict(kw)), witness=kw)
    # round 2: alternative construction routes (from_pruned with degrees / sizes, from_preset with a custom radial grid, sizes=)
    def one_route(route=None):
        try:
            g, info = _route_info(ctx, M, route)
        except Exception as e:  # noqa: BLE001
            ctx.fail("oracle", "atomgrid.interpolate:raises", f"building an atomic grid through an alternative route ({route}) raised {type(e).__name__}: {e}")
            return
        if info["route"] in ("both", "pruned-both"):
            want = set(info["sizes"] if info["route"] == "both" else info["s_sectors"])
            got = [int(x) for x in np.diff(g.indices)]
            if (info["route"] == "both" and got != list(info["sizes"])) or not set(got) <= want:
                ctx.fail("oracle", "atomgrid:route:sizes-win", f"route {info['route']}: sizes {sorted(want)} and degrees {info.get('ignored_degs', info.get('ignored_d_sectors'))} given at once; the documentation "
                         f"says the sizes are used, the shells have {got} points", witness=dict(info=info))
        _guarded(ctx, M, g, info, BandLimited(rng, min(int(min(g.degrees)) // 2, 9), smooth=True), budget, "route:" + info["route"])
    for _ in range(12 if big else 3):
        parts.run("atomgrid.interpolate:route", one_route)
    # round 4 (class 15): both alternative arguments at once (sizes win over degrees, s_sectors over d_sectors), one degree / size for all shells
    for route in (["both", "pruned-both", "one-degree", "one-size"] if big else ["both", rng.choice(["pruned-both", "one-degree", "one-size"])]):
        parts.run("atomgrid.interpolate:route", lambda route=route: one_route(route))
    for name, fn in [("atomgrid.interpolate:history", _oracle_state), ("atomgrid.interpolate:dtype", _oracle_dtype), ("molgrid.interpolate", _oracle_mol),
                     # round 3
                     ("atomgrid.interpolate:scaled", _oracle_scaled), ("atomgrid.interpolate:translated", _oracle_translated), ("atomgrid.handed-out", _oracle_handed_out),
                     ("atomgrid.interpolate:single-shell", _oracle_single_shell),
                     # round 4
                     ("atomgrid.interpolate:object-kinds", _oracle_object_kinds), ("atomgrid.interpolate:value-kinds", _oracle_complex),
                     ("atomgrid.interpolate:real-rgrid", _oracle_real_rgrids), ("molgrid.interpolate:extreme", _oracle_mol_extreme),
                     # round 5
                     ("atomgrid.interpolate:blocks", _oracle_blocks), ("atomgrid.interpolate:orders", _oracle_orders),
                     ("molgrid.interpolate:aim-weights", _oracle_mol_weights)]:
        parts.run(name, lambda fn=fn: fn(ctx, M, budget))
    parts.finish()


SNIP_PTS = SNIP_HEAD + """
arr = np.array({arr!r})
F = grid.interpolate(vals)
spl = grid.radial_component_splines(vals)
r, az, pol = angles(arr.reshape(-1, 3) - grid.center)
Y = real_harmonics(int(max(grid.degrees)) // 2, az, pol)
want = np.einsum('ij,ij->j', np.array([s(r) for s in spl]), Y[:len(spl)])
got = np.asarray(F(arr), dtype=float)
assert got.shape == want.shape and np.all(np.abs(got - want) <= {tol!r}), (got, want)
"""


def _points_scenario(ctx, M, g, info, arr):
    """the value clause at the very evaluation points of a correspondence disagreement, in the container shape they were handed over in
    ((M, 3), or flat (3 k,)), and the derivative reports for that shape against those for the (M, 3) form"""
    rng = ctx.rng
    if arr.size == 0 or arr.size % 3 != 0 or arr.ndim > 2 or (arr.ndim == 2 and arr.shape[1] != 3):
        return
    try:
        bl = BandLimited(rng, min(int(min(g.degrees)) // 2, 9), smooth=True)
        vals = _grid_values(M, g, bl)
        F = g.interpolate(vals.copy())
        splines = g.radial_component_splines(vals.copy())
        P = arr.reshape(-1, 3)
        rr, az, pol = _angles(P - g.center)
        Y = real_harmonics(int(max(g.degrees)) // 2, az, pol)[: len(splines)]
        S0 = np.array([sp(rr) for sp in splines])
        want = np.einsum("ij,ij->j", S0[: Y.shape[0]], Y)
        tol = 1e-10 * (float(np.max(np.sum(np.abs(S0), axis=0))) + 1e-300)
        ctx.count(["oracle-points", info, list(arr.shape)], nontrivial=True, tag="oracle:at-corr-disagreement:points")
        got = np.asarray(F(arr), dtype=float)
        if got.shape != want.shape or not np.all(np.abs(got - want) <= tol):
            ctx.fail("oracle", "atomgrid.interpolate:is-sum", f"points handed over with shape {arr.shape}: interpolant {got.tolist()}, sum_lm spline_lm(r) Y_lm {want.tolist()}",
                     witness=dict(info=info, function=bl.to_json(), points=arr), snippet=SNIP_PTS.format(info=info, bl=bl.to_json(), arr=arr.tolist(), tol=tol))
        for fl in FLAGS[1:]:
            a = np.asarray(F(arr, *fl), dtype=float)
            b = np.asarray(F(P.copy(), *fl), dtype=float)
            if not _same(a, b):
                ctx.fail("oracle", "atomgrid.interpolate:points-shape", f"points handed over with shape {arr.shape}, deriv={fl[0]}, deriv_spherical={fl[1]}, only_radial_deriv={fl[2]}: the report differs "
                         "from the one for the same points as an (M, 3) array", witness=dict(info=info, points=arr))
    except Exception as e:  # noqa: BLE001
        ctx.fail("oracle", "atomgrid.interpolate:raises", f"the interpolant raised {type(e).__name__}: {e} for points of shape {arr.shape}", witness=dict(info=info, points=arr))


_INFO_KEYS = {"r", "w", "degs", "center", "rotate", "method"}


def oracle_at(ctx: Ctx, failure):
    """a correspondence disagreement -> the property itself on the very grid(s) of that case: the recorded parameter sets are rebuilt
    (same radial nodes and weights, degrees, centre, rotation seed, method, construction route) and every clause is evaluated there
    for band-limited functions (top band limit min_i d_i // 2, a lower one, and, with a shell at r = 0, a function with g_lm(0) != 0
    at the canonical angles); cases that came from a call history, from two grids alive at once or from another dtype are replayed in
    that form too. Keys are those of the oracle."""
    w = failure.witness
    if not isinstance(w, dict):
        return
    # the witness is the parameter set itself, or holds it / them under info, infoA + infoB, infos (possibly one level down)
    cands = [w, w.get("info"), w.get("infoA"), w.get("infoB")] + (w["infos"] if isinstance(w.get("infos"), list) else [])
    for v in list(cands):
        if isinstance(v, dict) and not _INFO_KEYS <= set(v):
            cands += [v.get("info"), v.get("infoA"), v.get("infoB")]
    infos = []
    for v in cands:
        if isinstance(v, dict) and _INFO_KEYS <= set(v) and v not in infos:
            infos.append(dict(v))
    if not infos:
        return
    M = _mods()
    rng = ctx.rng
    if failure.key.startswith("molgrid"):
        grids = [_build(M, i) for i in infos]
        try:
            _molw_case(ctx, M, len(infos), "radial", infos=[dict(i) for i in infos])
            _molw_case(ctx, M, len(infos), "callable", infos=[dict(i) for i in infos])
            _mol_case(ctx, M, grids, infos, [1] * len(grids))
        except Exception as e:  # noqa: BLE001
            ctx.fail("oracle", "molgrid.interpolate:raises", f"MolGrid.interpolate of a smooth molecular function raised {type(e).__name__}: {e}", witness=dict(infos=infos))
        return
    for info in infos[:2]:
        if any(0.0 < x < 1e-6 for x in info["r"]) and any(c != 0.0 for c in info["center"]):
            # shells of radius ~1e-8 about a centre of size 1 are rounded at the 1e-7 level relative to the radius; the property is
            # about the exact points, so (as in oracle) such grids are examined about the origin
            info["center"] = [0.0, 0.0, 0.0]
        try:
            g = _build(M, info)
        except Exception as e:  # noqa: BLE001
            ctx.fail("oracle", "atomgrid.interpolate:raises", f"rebuilding the grid of a correspondence disagreement raised {type(e).__name__}: {e}", witness=dict(info=info))
            continue
        info.setdefault("zero", "zero" if 0.0 in info["r"] else "none")
        Lmax = min(int(min(g.degrees)) // 2, 12)
        for L in sorted({Lmax, rng.randrange(0, Lmax + 1)}, reverse=True):
            _guarded(ctx, M, _build(M, info), info, BandLimited(rng, L, smooth=True), "large", "at-corr-disagreement")
        if 0.0 in info["r"] and g.n_shells >= 2:
            _guarded(ctx, M, _build(M, info), info, BandLimited(rng, min(Lmax, 9), smooth=False), "large", "at-corr-disagreement:canonical")
        if any(t in failure.key for t in (":dtype", ":modifies-input")) and g.n_shells >= 2:
            _dtype_scenario(ctx, M, _build(M, info), info)
        if w.get("points") is not None and g.n_shells >= 2:
            _points_scenario(ctx, M, _build(M, info), info, np.asarray(w["points"], dtype=float))
    if ":shapes" in failure.key:
        for info in infos[:1]:
            _oracle_shapes(ctx, M, _build(M, info), info)
    if any(t in failure.key for t in (":history", ":two-grids", ":basis-cache", ":modifies-input", ":after-rejected-call", ":same-object", ":options")):
        same = len(infos) >= 2 and len(infos[0]["r"]) == len(infos[1]["r"])
        if all(len(i["r"]) >= 2 for i in infos[:2]):
            _state_scenario(ctx, M, "at-corr-disagreement", infos[:2] if same else infos[:1])

"""C09 — harmonic decomposition / interpolation on atomic grids is exact when band-limited."""
import importlib
import math

import numpy as np

from ..common import Ctx, Tokens, close, driver_batch, f2b, fmat, fvec, vec

LEVEL = "proof"
LEVEL_TEXT = (
    "Lean theorems over the reals about the hand model of integrate_angular_coordinates, radial_component_splines, "
    "interpolate (values; radial-only, spherical and Cartesian derivatives), spherical_average and MolGrid.interpolate, "
    "for every number of shells, every radial grid (incl. nodes with r < 1e-8 and r = 0), every table of shell degrees "
    "(uniform or mixed), every band limit L <= min_i d_i // 2 and every family of coefficient functions g_lm: the "
    "re-weighted angular integrals sum to the grid integral (pure index algebra, no hypothesis on the function); under H1 "
    "the per-shell angular integral is sqrt(4 pi) g_00(r_i), the radial components after the zeroing rule of coarser "
    "shells are g_lm(r_i) on every row, hence under H2 the interpolant reproduces the function at every grid point; at "
    "arbitrary points the reported value is sum_lm spline_lm(r) Y_lm(theta, phi); the radial-only report of any order and "
    "the three spherical-coordinate reports are the r-, theta- and phi-derivatives of that interpolant; the Cartesian "
    "report is the gradient whenever |r| >= 1e-10, |phi| >= 1e-10 and sin(phi) != 0 (the matrix of "
    "convert_derivative_from_spherical_to_cartesian is the inverse transposed Jacobian of the spherical parametrisation); "
    "the spherical average integrates back to the grid integral; the molecular interpolant is the sum of the atomic "
    "interpolants of w_A f. CONDITIONAL on named hypotheses that are NOT proved here: H1 = every shell integrates the "
    "products Y_a Y_b of the rows concerned exactly (this is property C02, exactness of the shipped angular grids, "
    "together with the closure of degree-<=l harmonics under products and rotations; Mathlib has no spherical-harmonic "
    "theory); H2 = SciPy's CubicSpline interpolates its data and spline(x, nu+1) is the derivative of spline(x, nu) "
    "(everywhere for nu <= 1, off the knots above); H3 = the rows handed over as dY/dtheta, dY/dphi are the derivatives of "
    "the rows Y (property C08). The code as it is violates the derivative clause on the polar axis and at the centre "
    "(theorems cart_deriv_fails_on_pos_z_axis, cart_deriv_fails_at_centre: the y-component reported there is 0 for "
    "every input); these are replayed on the implementation by the oracle and listed as findings. Tie to the code: hand "
    "model compared with the implementation on random (not band-limited) inputs; the property itself is evaluated on the "
    "implementation for random band-limited functions with harmonics from scipy.special.sph_harm_y."
)
TECHNIQUE = "Lean 4 proof (conditional on H1/H2/H3) of the hand model + differential correspondence + oracle with independent harmonics and finite differences"
GEN = []
LEAN_MODULES = ["GridVerif.Props.C09", "GridVerif.Props.C09.Example"]
THEOREMS = [
    "GridVerif.C09.reweighted_sum_is_integral",
    "GridVerif.C09.angular_integral_exact",
    "GridVerif.C09.components_recovered",
    "GridVerif.C09.interpolant_is_sum",
    "GridVerif.C09.splines_through_components",
    "GridVerif.C09.interpolant_reproduces_grid_values",
    "GridVerif.C09.interpolant_at_centre_shell",
    "GridVerif.C09.derivs_consistent_radial",
    "GridVerif.C09.derivs_consistent_spherical",
    "GridVerif.C09.jacobian_inverse_transpose",
    "GridVerif.C09.derivs_consistent_cartesian_partial",
    "GridVerif.C09.cart_deriv_fails_on_pos_z_axis",
    "GridVerif.C09.cart_deriv_fails_at_centre",
    "GridVerif.C09.higher_deriv_rejected",
    "GridVerif.C09.average_integrates_back",
    "GridVerif.C09.mol_interp_is_sum",
    "GridVerif.C09.spline_contract_satisfiable",
    "GridVerif.C09.ex_H1",
]
RULE = (
    "correspondence: atomic grids with 1..7 shells, radial nodes incl. r = 0, 0 < r < 1e-8 and ordinary ones, random positive "
    "radial weights, uniform and mixed shell degrees of all four methods, centres, rotation seeds; random (not band-limited) "
    "function values, 1-D and 2-D; ops: integrate_angular_coordinates (+ re-weighted sum, grid integral), spherical_average "
    "node values, radial components after the zeroing rule (given the library's basis array), convert_cartesian_to_spherical "
    "with and without argument (canonical angles of r = 0 shells), the assembly of interpolate_low for deriv 0..3 and every "
    "flag combination at random points, the centre and the polar axis (given spline and harmonic tables), MolGrid's summation; "
    "non-trivial = >=2 distinct shell degrees, or a shell with r < 1e-8, or a rotation seed, or a derivative request"
)
TRUSTED_BASE = [
    "Lean 4.33 kernel; axioms propext, Classical.choice, Quot.sound only (audited per theorem)",
    "hand model Model/AtomInterp.lean of the NumPy array code (arrays as index functions, slices as index ranges), tied by correspondence",
    "Elem instance of the reals (sqrt, sin, cos, arccos, arctan2 = Complex.arg, pi)",
    "NumPy slicing / einsum / hstack / broadcasting semantics as modelled",
]
ASSUMPTIONS = [
    "H1 (not proved): on every shell sum_k omega_ik Y_a(u_ik) Y_b(u_ik) = delta_ab for a < (d_i//2+1)^2, b < (L+1)^2 "
    "(C02 + closure of harmonics under products and rotations); checked numerically by the oracle only",
    "H2 (not proved): scipy.interpolate.CubicSpline interpolates its data, spline(x, nu+1) is the derivative of spline(x, nu)",
    "H3 (not proved here, C08): the derivative rows of generate_derivative_real_spherical_harmonics are the derivatives of the rows "
    "of generate_real_spherical_harmonics; Y_00 = 1/sqrt(4 pi)",
    "grid structure (C05): weights[j] = omega_ik * w_i * r_i^2, indices monotone from 0, the rebuilt AngularGrid has the same weights",
    "radial weights non-zero on shells with r >= 1e-8 (the code divides by r_i^2 w_i); radial nodes strictly increasing (CubicSpline rejects others)",
    "exact real arithmetic in the theorems; rounding only through the tolerances of correspondence and oracle; nan inputs are outside the model",
]

METHODS = ["lebedev", "spherical", "maxdet", "ahrens_beylkin"]
# small supported degrees per method (requests equal to table entries, so degrees == request)
DEGS = {
    "lebedev": [3, 5, 7, 9, 11, 13, 15],
    "spherical": [1, 3, 5, 7, 9, 11, 13],
    "maxdet": [1, 2, 3, 4, 5, 6, 7, 8, 9, 10, 11, 12],
    "ahrens_beylkin": [14, 19, 23],
}


def _mods():
    return (importlib.import_module("grid.atomgrid"), importlib.import_module("grid.onedgrid"),
            importlib.import_module("grid.angular"), importlib.import_module("grid.utils"),
            importlib.import_module("grid.molgrid"), importlib.import_module("grid.becke"))


# ----------------------------------------------------------------------------------------------
# input generation
# ----------------------------------------------------------------------------------------------
def _radial(rng, n, zero_kind):
    """n strictly increasing nodes; zero_kind: 'none' | 'zero' | 'tiny' | 'both'."""
    r = []
    x = 0.0
    if zero_kind in ("zero", "both"):
        r.append(0.0)
    if zero_kind in ("tiny", "both"):
        r.append(rng.choice([1e-9, 3e-9, 9.9e-9]))
        x = 0.0
    while len(r) < n:
        x += rng.uniform(0.15, 0.9)
        r.append(round(x, 3) if rng.random() < 0.3 else x)
    r = r[:n]
    w = [rng.uniform(0.05, 1.2) for _ in range(n)]
    return np.array(r, dtype=float), np.array(w, dtype=float)


def _degrees(rng, method, n, mixed, cap=None):
    pool = [d for d in DEGS[method] if cap is None or d <= cap] or DEGS[method][:2]
    if not mixed or n == 1:
        return [rng.choice(pool)] * n
    k = rng.choice([2, 2, 3])
    ds = rng.sample(pool, k=min(k, len(pool)))
    out = [rng.choice(ds) for _ in range(n)]
    if len(set(out)) == 1 and len(ds) > 1:
        out[rng.randrange(n)] = next(d for d in ds if d != out[0])
    return out


def _atom_grid(ctx, M, n=None, method=None, mixed=None, zero_kind=None, cap=None, center=None, rotate=None):
    ag, od = M[0], M[1]
    rng = ctx.rng
    n = n if n is not None else rng.choice([1, 2, 2, 3, 3, 4, 5, 7])
    method = method or rng.choice(METHODS)
    mixed = rng.random() < 0.5 if mixed is None else mixed
    zero_kind = zero_kind or rng.choice(["none", "none", "zero", "tiny", "both"])
    if n == 1 and zero_kind == "both":
        zero_kind = "zero"
    r, w = _radial(rng, n, zero_kind)
    degs = _degrees(rng, method, n, mixed, cap)
    if center is None:
        center = rng.choice([np.zeros(3), np.array([rng.uniform(-2, 2) for _ in range(3)]), np.array([0.5, -1.25, 2.0])])
    if rotate is None:
        rotate = rng.choice([0, 0, 1, 37, rng.randrange(1, 10**6)])
    rg = od.OneDGrid(r, w, (0, np.inf))
    g = ag.AtomGrid(rg, degrees=list(degs), center=np.array(center, dtype=float), rotate=int(rotate), method=method)
    return g, dict(n=n, method=method, degs=list(degs), zero=zero_kind, center=list(map(float, center)), rotate=int(rotate),
                   r=r.tolist(), w=w.tolist())


class _SplineSpy:
    """records the (x, y) handed to scipy's CubicSpline by grid.atomgrid while active (the arrays are the exact
    radial components; reading them back through the spline would round the last node)."""

    def __init__(self, ag):
        self.ag = ag
        self.calls = []

    def __enter__(self):
        self.orig = self.ag.CubicSpline

        def spy(*a, **k):
            x = k.get("x", a[0] if a else None)
            y = k.get("y", a[1] if len(a) > 1 else None)
            self.calls.append((np.array(x, dtype=float), np.array(y, dtype=float)))
            return self.orig(*a, **k)
        self.ag.CubicSpline = spy
        return self

    def __exit__(self, *exc):
        self.ag.CubicSpline = self.orig


def _regen_w(M, g):
    ang = M[2]
    return np.concatenate([ang.AngularGrid(degree=int(d), method=g.method).weights for d in g.degrees])


def _regen_pts(M, g):
    ang = M[2]
    return np.vstack([ang.AngularGrid(degree=int(d), method=g.method).points for d in g.degrees])


def _grid_tokens(M, g):
    return " ".join([str(g.n_shells), fvec(g.rgrid.points), fvec(g.rgrid.weights), vec([int(d) for d in g.degrees]),
                     vec([int(i) for i in g.indices]), fvec(g.weights), fvec(_regen_w(M, g))])


def _eval_points(rng, g, m):
    """random points about the centre, plus the centre, both polar half-axes, a grid point."""
    c = g.center
    rmax = float(g.rgrid.points[-1]) if g.rgrid.points[-1] > 0 else 1.0
    pts = []
    for _ in range(m):
        d = np.array([rng.gauss(0, 1) for _ in range(3)])
        d /= np.linalg.norm(d)
        pts.append(c + d * rng.uniform(0.05, 1.1) * rmax)
    pts += [c.copy(), c + np.array([0, 0, 0.37 * rmax]), c + np.array([0, 0, -0.61 * rmax]), c + np.array([0.4 * rmax, 0, 0]),
            g.points[rng.randrange(g.size)].copy()]
    return np.array(pts)


def _cmp_arrays(a, b, rtol, scale=None, atol=0.0):
    a = np.asarray(a, dtype=float).reshape(-1)
    b = np.asarray(b, dtype=float).reshape(-1)
    if a.shape != b.shape:
        return False
    if scale is None:
        scale = max(1e-300, float(np.max(np.abs(a))) if a.size else 0.0, float(np.max(np.abs(b))) if b.size else 0.0)
    return all(close(float(x), float(y), rtol=rtol, scale=scale, atol=atol) for x, y in zip(a, b))


def _nontrivial(info, extra=False):
    return len(set(info["degs"])) >= 2 or info["zero"] != "none" or info["rotate"] != 0 or extra


# ----------------------------------------------------------------------------------------------
# correspondence
# ----------------------------------------------------------------------------------------------
def corr(ctx: Ctx):
    M = _mods()
    ut = M[3]
    rng = ctx.rng
    ncase = ctx.n(90, 700)
    lines, checks = [], []

    def add(line, fn):
        lines.append(line)
        checks.append(fn)

    # fixed small cases first (mutations show at small sizes), then random ones
    fixed = [dict(n=2, method="lebedev", mixed=True, zero_kind="zero"), dict(n=3, method="maxdet", mixed=True, zero_kind="none"),
             dict(n=2, method="spherical", mixed=False, zero_kind="tiny"), dict(n=3, method="lebedev", mixed=True, zero_kind="both"),
             dict(n=2, method="ahrens_beylkin", mixed=True, zero_kind="none", cap=19)]
    for ic in range(ncase):
        kw = fixed[ic] if ic < len(fixed) else dict(cap=11 if rng.random() < 0.8 else None)
        g, info = _atom_grid(ctx, M, **kw)
        N = g.size
        gt = _grid_tokens(M, g)
        # ---- integrate_angular_coordinates on random values (1-D and one 2-D call)
        f = ctx.np_rng.normal(size=N) * 10 ** rng.uniform(-2, 2)
        impl = g.integrate_angular_coordinates(f.copy())
        tot = g.integrate(f)
        rew = float(np.sum(g.rgrid.points ** 2 * g.rgrid.weights * impl))

        def chk_int(ans, impl=impl, tot=tot, rew=rew, info=info, g=g, f=f):
            ctx.count(["integrate", info], nontrivial=_nontrivial(info), tag="integrate:" + info["zero"] + (":mixed" if len(set(info["degs"])) > 1 else ":uniform"))
            if not ans.startswith("ok"):
                return ctx.fail("corr", "atomgrid.integrate_angular_coordinates", f"model answered {ans[:60]}", witness=info)
            t = Tokens(ans); t.tok()
            mv = t.fvec(); mrew = t.flt(); mtot = t.flt()
            sc = float(np.max(np.abs(f))) * 4 * math.pi
            if not _cmp_arrays(impl, mv, 1e-10, scale=sc):
                ctx.fail("corr", "atomgrid.integrate_angular_coordinates", "per-shell angular integrals differ from the model",
                         witness=dict(info=info, impl=impl, model=mv))
            s2 = float(np.sum(np.abs(f * g.weights))) + 1e-300
            if not close(tot, mtot, rtol=1e-11, scale=s2) or not close(rew, mrew, rtol=1e-9, scale=s2 + abs(rew)):
                ctx.fail("corr", "atomgrid.integrate_angular_coordinates:reweighted", "grid integral / re-weighted sum differ from the model",
                         witness=dict(info=info, impl=[tot, rew], model=[mtot, mrew]))
        add(f"C09.integrate {gt} {fvec(f)}", chk_int)
        if ic % 4 == 0:
            f2 = ctx.np_rng.normal(size=(2, N))
            impl2 = g.integrate_angular_coordinates(f2.copy())
            for row in range(2):
                def chk2(ans, want=impl2[row], info=info):
                    ctx.count(["integrate2d", info], nontrivial=_nontrivial(info), tag="integrate:2d")
                    t = Tokens(ans); t.tok()
                    if not ans.startswith("ok") or not _cmp_arrays(want, t.fvec(), 1e-10, scale=20.0):
                        ctx.fail("corr", "atomgrid.integrate_angular_coordinates:2d", "row of a 2-D func_vals differs from the model", witness=info)
                add(f"C09.integrate {gt} {fvec(f2[row])}", chk2)
        try:
            # ---- spherical_average node values
            if g.n_shells >= 2:
                with _SplineSpy(M[0]) as spy:
                    spl = g.spherical_average(f.copy())
                av = spy.calls[-1][1] if spy.calls and spy.calls[-1][1].shape == (g.n_shells,) else spl(g.rgrid.points)

                def chk_av(ans, av=av, info=info, f=f):
                    ctx.count(["average", info], nontrivial=_nontrivial(info), tag="average")
                    t = Tokens(ans); t.tok()
                    if not ans.startswith("ok") or not _cmp_arrays(av, t.fvec(), 1e-9, scale=float(np.max(np.abs(f)))):
                        ctx.fail("corr", "atomgrid.spherical_average", "node values of the spherical average differ from the model", witness=info)
                add(f"C09.average {gt} {fvec(f)}", chk_av)
            # ---- radial components incl. the l_max // 2 rule and the zeroing rule
            if g.n_shells >= 2:
                gg = g
                with _SplineSpy(M[0]) as spy:
                    spl = gg.radial_component_splines(f.copy())
                comps = np.array([y for (_, y) in spy.calls])
                if comps.shape != (len(spl), gg.n_shells):
                    comps = np.array([s(gg.rgrid.points) for s in spl])
                basis = np.asarray(gg._basis, dtype=float)

                def chk_comp(ans, comps=comps, info=info, g=gg, f=f):
                    ctx.count(["components", info], nontrivial=_nontrivial(info), tag="components" + (":mixed" if len(set(info["degs"])) > 1 else ":uniform"))
                    if ans.startswith("shape-mismatch"):
                        return ctx.fail("corr", "atomgrid.radial_component_splines:l_max", f"basis has {comps.shape[0]} rows, the model expects {ans.split()[1]} = (l_max // 2 + 1)^2",
                                        witness=info)
                    if not ans.startswith("ok"):
                        return ctx.fail("corr", "atomgrid.radial_component_splines", f"model answered {ans[:60]}", witness=info)
                    t = Tokens(ans); t.tok()
                    lmax = t.nat()
                    mm = np.array(t.fmat())
                    if lmax != int(g.l_max) or mm.shape != comps.shape:
                        return ctx.fail("corr", "atomgrid.radial_component_splines:l_max", f"l_max {g.l_max} / shape {comps.shape} vs model {lmax} / {mm.shape}", witness=info)
                    sc = float(np.max(np.abs(f))) * 4 * math.pi
                    zero_impl = comps == 0.0
                    zero_model = mm == 0.0
                    if not np.array_equal(zero_impl, zero_model):
                        bad = np.argwhere(zero_impl != zero_model)[0]
                        return ctx.fail("corr", "atomgrid.radial_component_splines:zeroing",
                                        f"zeroed entries differ at row {bad[0]}, shell {bad[1]} (degrees {info['degs']}): implementation {comps[bad[0], bad[1]]}, model {mm[bad[0], bad[1]]}",
                                        witness=dict(info=info, row=int(bad[0]), shell=int(bad[1])))
                    if not _cmp_arrays(comps, mm, 1e-9, scale=sc):
                        ctx.fail("corr", "atomgrid.radial_component_splines", "radial components differ from the model", witness=info)
                add(f"C09.components {gt} {fmat(basis)} {fvec(f)}", chk_comp)
            # ---- convert_cartesian_to_spherical, with and without argument
            pts = _eval_points(rng, g, 4)
            sph = g.convert_cartesian_to_spherical(pts)

            def chk_sph(ans, sph=sph, info=info, pts=pts):
                ctx.count(["cart_to_sph", info], nontrivial=True, tag="cart_to_sph")
                t = Tokens(ans); t.tok()
                if not ans.startswith("ok") or not _cmp_arrays(sph, np.array(t.fmat()), 1e-13, scale=max(1.0, float(np.max(np.abs(sph)))), atol=1e-15):
                    ctx.fail("corr", "atomgrid.convert_cartesian_to_spherical", "spherical coordinates differ from the model",
                             witness=dict(info=info, points=pts))
            add(f"C09.cart_to_sph {' '.join(f2b(x) for x in g.center)} {fmat(pts)}", chk_sph)
            if ic % 2 == 0:
                ang_impl = g.convert_cartesian_to_spherical()[:, 1:]

                def chk_ga(ans, want=ang_impl, info=info):
                    ctx.count(["grid_angles", info], nontrivial=_nontrivial(info), tag="grid_angles:" + info["zero"])
                    t = Tokens(ans); t.tok()
                    if not ans.startswith("ok") or not _cmp_arrays(want, np.array(t.fmat()), 1e-13, scale=4.0, atol=1e-15):
                        ctx.fail("corr", "atomgrid.convert_cartesian_to_spherical:r=0", "angles of the atomic grid points (canonical angles of r = 0 shells) differ from the model",
                                 witness=info)
                add(f"C09.grid_angles {g.n_shells} {fvec(g.rgrid.points)} {vec([int(i) for i in g.indices])} "
                    f"{' '.join(f2b(x) for x in g.center)} {fmat(g.points)} {fmat(_regen_pts(M, g))}", chk_ga)
            # ---- assembly of interpolate_low
            if g.n_shells >= 2:
                try:
                    interp = g.interpolate(f.copy())
                    interp(pts[:2])
                except Exception as e:  # noqa: BLE001
                    ctx.fail("corr", "atomgrid.interpolate:raises", f"interpolate raised {type(e).__name__}: {e}", witness=info)
                    continue
                splines = g.radial_component_splines(f.copy())
                L = int(g.l_max) // 2
                nrows = len(splines)
                r_p, th, ph = sph.T
                Y = np.asarray(ut.generate_real_spherical_harmonics(L, th, ph), dtype=float)
                dY = np.asarray(ut.generate_derivative_real_spherical_harmonics(L, th, ph), dtype=float)
                s0 = np.array([s(r_p, 0) for s in splines])
                combos = [(0, 0, 0), (1, 0, 0), (1, 1, 0), (1, 0, 1), (2, 0, 1), (3, 0, 1), (2, 0, 0), (0, 1, 0), (1, 1, 1), (0, 0, 1), (3, 1, 0)]
                for (dv, dsph, orad) in (combos if ic < 8 else rng.sample(combos, 4)):
                    try:
                        out = interp(pts, deriv=dv, deriv_spherical=bool(dsph), only_radial_deriv=bool(orad))
                        impl = ("ok", list(out.shape), np.asarray(out, dtype=float).reshape(-1))
                    except ValueError:
                        impl = ("value-error", None, None)
                    sN = np.array([s(r_p, dv) for s in splines])

                    def chk_as(ans, impl=impl, info=info, dv=dv, dsph=dsph, orad=orad, pts=pts, s0=s0, sN=sN):
                        ctx.count(["assemble", info, dv, dsph, orad], nontrivial=_nontrivial(info, dv != 0), tag=f"assemble:deriv={dv}:sph={dsph}:rad={orad}")
                        key = "atomgrid.interpolate:" + ("values" if dv == 0 else "radial-deriv" if orad else "deriv-spherical" if dsph else "deriv-cartesian" if dv == 1 else "deriv-order")
                        if impl[0] != "ok" or not ans.startswith("ok"):
                            if impl[0] != ans.strip():
                                ctx.fail("corr", key, f"deriv={dv}, deriv_spherical={bool(dsph)}, only_radial_deriv={bool(orad)}: implementation {impl[0]}, model {ans[:40]}", witness=info)
                            return
                        t = Tokens(ans); t.tok()
                        shape = t.vec(); data = np.array(t.fvec())
                        sc = float(np.sum(np.abs(sN)) + np.sum(np.abs(s0))) / max(1, len(pts)) + 1e-300
                        # Cartesian: entries are divided by r and r sin(phi); the comparison is relative to the entries themselves
                        if shape != impl[1]:
                            return ctx.fail("corr", key, f"shape {impl[1]} vs model {shape}", witness=info)
                        if dv == 1 and not dsph and not orad:
                            ok = _cmp_arrays(impl[2], data, 1e-9, scale=None, atol=1e-9 * sc)
                        else:
                            ok = _cmp_arrays(impl[2], data, 1e-10, scale=sc)
                        if not ok:
                            ctx.fail("corr", key, f"deriv={dv}, deriv_spherical={bool(dsph)}, only_radial_deriv={bool(orad)}: output differs from the model's assembly",
                                     witness=dict(info=info, points=pts, impl=impl[2], model=data))
                    add(f"C09.assemble {nrows} {dv} {dsph} {orad} {fmat(sph)} {fmat(sN)} {fmat(s0)} {fmat(Y)} {fmat(dY[0])} {fmat(dY[1])}", chk_as)
        except Exception as e:  # noqa: BLE001  (the library raised while the case was prepared)
            import traceback
            ctx.fail("corr", "atomgrid:raises", f"the implementation raised {type(e).__name__}: {e}", witness=dict(info=info, traceback=traceback.format_exc()[-1500:]))
    # ---- MolGrid summation
    mg, bk = M[4], M[5]
    for im in range(ctx.n(3, 30)):
        nat = rng.choice([1, 2, 3])
        grids = []
        for a in range(nat):
            g, info = _atom_grid(ctx, M, n=rng.choice([2, 3]), cap=7, zero_kind="none",
                                 center=np.array([1.7 * a + rng.uniform(-0.2, 0.2), rng.uniform(-0.5, 0.5), rng.uniform(-0.5, 0.5)]))
            grids.append(g)
        mol = mg.MolGrid(np.array([1] * nat), grids, bk.BeckeWeights(), store=True)
        f = ctx.np_rng.normal(size=mol.size)
        pts = np.array([[rng.uniform(-1, 1.7 * nat) for _ in range(3)] for _ in range(4)])
        for (dv, dsph, orad) in [(0, 0, 0), (1, 0, 0), (1, 1, 0), (2, 0, 1)]:
            try:
                out = np.asarray(mol.interpolate(f.copy())(pts, dv, bool(dsph), bool(orad)), dtype=float)
            except Exception as e:  # noqa: BLE001
                ctx.fail("corr", "molgrid.interpolate:raises", f"MolGrid.interpolate raised {type(e).__name__}: {e}")
                break
            parts = []
            for a in range(nat):
                s, e = mol.indices[a], mol.indices[a + 1]
                parts.append(np.asarray(grids[a].interpolate((f * mol.aim_weights)[s:e])(pts, dv, bool(dsph), bool(orad)), dtype=float).reshape(-1))

            def chk_mol(ans, out=out, nat=nat, dv=dv):
                ctx.count(["mol", nat, dv], nontrivial=nat >= 2, tag=f"mol:{nat}")
                t = Tokens(ans); t.tok(); t.vec()
                if not ans.startswith("ok") or not _cmp_arrays(out.reshape(-1), np.array(t.fvec()), 1e-12, atol=1e-13):
                    ctx.fail("corr", "molgrid.interpolate", f"MolGrid.interpolate (deriv={dv}) differs from the model's sum over the atomic interpolants", witness=dict(natom=nat))
            add(f"C09.mol_combine {nat} " + " ".join(fvec(p) for p in parts), chk_mol)
    answers = driver_batch(lines)
    for ans, fn in zip(answers, checks):
        fn(ans)


# ----------------------------------------------------------------------------------------------
# oracle
# ----------------------------------------------------------------------------------------------
def real_harmonics(L, az, pol):
    """Real spherical harmonics in the row order (l; m = 0, 1, -1, 2, -2, ...) from scipy.special.sph_harm_y,
    Condon-Shortley phase removed: Y_{l,m>0} = sqrt2 (-1)^m Re Y_l^m, Y_{l,-m} = sqrt2 (-1)^m Im Y_l^m."""
    from scipy.special import sph_harm_y

    az = np.asarray(az, dtype=float)
    pol = np.asarray(pol, dtype=float)
    rows = []
    for l in range(L + 1):
        rows.append(sph_harm_y(l, 0, pol, az).real)
        for m in range(1, l + 1):
            c = sph_harm_y(l, m, pol, az) * (math.sqrt(2.0) * (-1) ** m)
            rows.append(c.real)
            rows.append(c.imag)
    return np.array(rows)


def _angles(vecs):
    """(azimuth, polar) of non-zero vectors; zero vectors get (0, 0)."""
    vecs = np.asarray(vecs, dtype=float)
    r = np.linalg.norm(vecs, axis=1)
    with np.errstate(all="ignore"):
        pol = np.arccos(np.clip(np.where(r > 0, vecs[:, 2] / np.where(r > 0, r, 1.0), 1.0), -1, 1))
    az = np.arctan2(vecs[:, 1], vecs[:, 0])
    return r, az, pol


class BandLimited:
    """f = sum_{l <= L} g_lm(r) Y_lm with g_lm(r) = r^p (a0 + a1 r + a2 r^2) exp(-alpha r^2);
    smooth: p = l and a1 = 0 (a smooth function of space, single-valued at the centre); canonical: p = 0, any a1."""

    def __init__(self, rng, L, smooth=True):
        self.L = L
        self.smooth = smooth
        self.nrows = (L + 1) ** 2
        self.ls = [l for l in range(L + 1) for _ in range(2 * l + 1)]
        self.a = np.array([[rng.uniform(-1, 1) for _ in range(3)] for _ in range(self.nrows)])
        self.alpha = np.array([rng.uniform(0.2, 0.8) for _ in range(self.nrows)])
        self.a[0, 0] = rng.choice([1.0, -0.7]) * rng.uniform(0.5, 1.5)
        if smooth:
            self.a[:, 1] = 0.0      # r^l times an even function of r: smooth at the centre

    def g(self, r):
        """-> (nrows, len(r))"""
        r = np.asarray(r, dtype=float)
        out = []
        for row in range(self.nrows):
            p = self.ls[row] if self.smooth else 0
            out.append(r ** p * (self.a[row, 0] + self.a[row, 1] * r + self.a[row, 2] * r * r) * np.exp(-self.alpha[row] * r * r))
        return np.array(out)

    def at(self, r, az, pol):
        return np.einsum("ij,ij->j", self.g(r), real_harmonics(self.L, az, pol))

    def to_json(self):
        return dict(L=self.L, smooth=self.smooth, a=self.a.tolist(), alpha=self.alpha.tolist())


def _grid_values(M, g, bl):
    """values of bl on the points of g; on shells with r = 0 the angles are the documented canonical ones
    (those of the unrotated angular grid of that degree)."""
    ang = M[2]
    vals = np.zeros(g.size)
    for i in range(g.n_shells):
        s, e = g.indices[i], g.indices[i + 1]
        ri = float(g.rgrid.points[i])
        if ri == 0.0:
            _, az, pol = _angles(ang.AngularGrid(degree=int(g.degrees[i]), method=g.method).points)
        else:
            _, az, pol = _angles(g.points[s:e] - g.center)
        vals[s:e] = bl.at(np.full(e - s, ri), az, pol)
    return vals


def _fd(fun, h, order):
    """central differences of a scalar function at 0: order 1 (6th-order accurate stencil), 2, 3 (5-point stencils)."""
    if order == 1:
        return (-fun(-3 * h) + 9 * fun(-2 * h) - 45 * fun(-h) + 45 * fun(h) - 9 * fun(2 * h) + fun(3 * h)) / (60 * h)
    if order == 2:
        return (-fun(-2 * h) + 16 * fun(-h) - 30 * fun(0.0) + 16 * fun(h) - fun(2 * h)) / (12 * h * h)
    return (-fun(-2 * h) + 2 * fun(-h) - 2 * fun(h) + fun(2 * h)) / (2 * h ** 3)


SNIP_HEAD = """import warnings; warnings.filterwarnings('ignore')
import math
import numpy as np
from scipy.special import sph_harm_y
from grid.onedgrid import OneDGrid
from grid.atomgrid import AtomGrid
from grid.angular import AngularGrid

def real_harmonics(L, az, pol):
    rows = []
    for l in range(L + 1):
        rows.append(sph_harm_y(l, 0, pol, az).real)
        for m in range(1, l + 1):
            c = sph_harm_y(l, m, pol, az) * (math.sqrt(2.0) * (-1) ** m)
            rows += [c.real, c.imag]
    return np.array(rows)

def angles(v):
    r = np.linalg.norm(v, axis=1)
    with np.errstate(all='ignore'):
        pol = np.arccos(np.clip(np.where(r > 0, v[:, 2] / np.where(r > 0, r, 1.0), 1.0), -1, 1))
    return r, np.arctan2(v[:, 1], v[:, 0]), pol

info = {info!r}
bl = {bl!r}
L, smooth, a, alpha = bl['L'], bl['smooth'], np.array(bl['a']), np.array(bl['alpha'])
ls = [l for l in range(L + 1) for _ in range(2 * l + 1)]
def gfun(r):
    r = np.asarray(r, dtype=float)
    return np.array([r ** (ls[k] if smooth else 0) * (a[k, 0] + a[k, 1] * r + a[k, 2] * r * r) * np.exp(-alpha[k] * r * r) for k in range(len(ls))])
grid = AtomGrid(OneDGrid(np.array(info['r']), np.array(info['w']), (0, np.inf)), degrees=info['degs'],
                center=np.array(info['center']), rotate=info['rotate'], method=info['method'])
vals = np.zeros(grid.size)
for i in range(grid.n_shells):
    s, e = grid.indices[i], grid.indices[i + 1]
    ri = float(grid.rgrid.points[i])
    v = AngularGrid(degree=int(grid.degrees[i]), method=grid.method).points if ri == 0.0 else grid.points[s:e] - grid.center
    _, az, pol = angles(v)
    vals[s:e] = np.einsum('ij,ij->j', gfun(np.full(e - s, ri)), real_harmonics(L, az, pol))
"""

SNIP_DERIV = SNIP_HEAD + """
F = grid.interpolate(vals)
c = grid.center
p = np.array({p!r})
h = {h!r}
def fd(k):
    e = np.zeros(3); e[k] = 1.0
    v = lambda t: float(F(np.array([p + t * e]))[0])
    return (-v(-3*h) + 9*v(-2*h) - 45*v(-h) + 45*v(h) - 9*v(2*h) + v(3*h)) / (60 * h)
want = np.array([fd(0), fd(1), fd(2)])          # gradient of the interpolant itself by central differences
got = F(np.array([p]), deriv=1)[0]
assert np.allclose(got, want, rtol=0, atol={tol!r}), f'reported Cartesian derivative {{got}}, finite differences of the same interpolant {{want}}'
"""

SNIP_SPH = SNIP_HEAD + """
F = grid.interpolate(vals)
c = grid.center
r, th, ph = {q!r}
h = 2e-3
def at(r_, t_, p_):
    return float(F(np.array([c + r_ * np.array([math.sin(p_) * math.cos(t_), math.sin(p_) * math.sin(t_), math.cos(p_)])]))[0])
def fd(v):
    return (-v(-3*h) + 9*v(-2*h) - 45*v(-h) + 45*v(h) - 9*v(2*h) + v(3*h)) / (60 * h)
want_phi = fd(lambda t: at(r, th, ph + t))      # derivative of the interpolant along the meridian theta = th
p = c + r * np.array([math.sin(ph) * math.cos(th), math.sin(ph) * math.sin(th), math.cos(ph)])
got = F(np.array([p]), deriv=1, deriv_spherical=True)
assert abs(got[2] - want_phi) <= {tol!r}, f'reported d/dphi {{got[2]}}, finite differences of the same interpolant {{want_phi}}'
"""

SNIP_GENERIC = SNIP_HEAD + """
# clause {clause}
{body}
"""


def _oracle_atom(ctx, M, g, info, bl, budget, label):
    """every clause of the property on one grid and one band-limited function."""
    ag, od, ang, ut = M[0], M[1], M[2], M[3]
    rng = ctx.rng
    L = bl.L
    vals = _grid_values(M, g, bl)
    r_nodes = g.rgrid.points
    G = bl.g(r_nodes)                      # (rows_f, n)
    gscale = float(np.max(np.abs(G))) + 1e-300
    wit = dict(info=info, function=bl.to_json())

    def snip(clause, body):
        return SNIP_GENERIC.format(info=info, bl=bl.to_json(), clause=clause, body=body)

    ctx.count(["oracle", label, info, L, bl.smooth], nontrivial=_nontrivial(info), tag=f"oracle:{info['method']}:{label}")
    # (1) angular integral per shell = sqrt(4 pi) g_00(r_i)
    A = g.integrate_angular_coordinates(vals.copy())
    want = math.sqrt(4 * math.pi) * G[0]
    if not _cmp_arrays(A, want, 2e-10, scale=gscale * 4):
        i = int(np.nanargmax(np.abs(np.nan_to_num(A - want, nan=np.inf))))
        ctx.fail("oracle", "atomgrid.integrate_angular_coordinates:exact",
                 f"angular integral on shell {i} (r = {r_nodes[i]!r}, degree {g.degrees[i]}): {A[i]!r}, sqrt(4 pi) g_00(r_i) = {want[i]!r}",
                 witness=wit, snippet=snip("angular integral per shell",
                 "A = grid.integrate_angular_coordinates(vals.copy())\nwant = math.sqrt(4 * math.pi) * gfun(grid.rgrid.points)[0]\n"
                 "assert np.allclose(A, want, rtol=0, atol=2e-10 * 4 * np.max(np.abs(gfun(grid.rgrid.points)))), (A, want)"))
    # (2) re-weighted sum = full grid integral
    tot = float(g.integrate(vals))
    rew = float(np.sum(r_nodes ** 2 * g.rgrid.weights * A))
    if not close(rew, tot, rtol=1e-10, scale=float(np.sum(np.abs(vals * g.weights))) + 1e-300):
        ctx.fail("oracle", "atomgrid.integrate_angular_coordinates:reweighted", f"sum_i r_i^2 w_i A_i = {rew!r}, grid integral = {tot!r}", witness=wit,
                 snippet=snip("re-weighted sum", "A = grid.integrate_angular_coordinates(vals.copy())\nrew = np.sum(grid.rgrid.points**2 * grid.rgrid.weights * A)\n"
                              "assert abs(rew - grid.integrate(vals)) <= 1e-10 * np.sum(np.abs(vals * grid.weights)), (rew, grid.integrate(vals))"))
    if g.n_shells < 2:
        return
    # (3) splines pass through g_lm(r_i); rows above the band limit are zero
    with _SplineSpy(ag) as spy:
        splines = g.radial_component_splines(vals.copy())
    nrows = (int(max(g.degrees)) // 2 + 1) ** 2
    if len(splines) != nrows:
        ctx.fail("oracle", "atomgrid.radial_component_splines:l_max", f"{len(splines)} radial components, (l_max // 2 + 1)^2 = {nrows}", witness=wit,
                 snippet=snip("number of components", f"assert len(grid.radial_component_splines(vals)) == {nrows}"))
    comps = np.array([s(r_nodes) for s in splines])
    handed = np.array([y for (_, y) in spy.calls])
    if info["zero"] in ("tiny", "both") and handed.shape == comps.shape:
        # knots 1e-9 apart: reading a cubic piece back at its right end rounds at the size of its coefficients;
        # the clause is examined on the arrays the splines are built from
        comps = handed
    wantc = np.zeros_like(comps)
    k = min(bl.nrows, comps.shape[0])
    wantc[:k] = G[:k]
    if not _cmp_arrays(comps, wantc, 1e-9, scale=gscale * 4):
        d = np.abs(np.nan_to_num(comps - wantc, nan=np.inf))
        row, i = np.unravel_index(int(np.argmax(d)), d.shape)
        above = row >= (int(g.degrees[i]) // 2 + 1) ** 2
        key = "atomgrid.radial_component_splines:zeroing" if above else "atomgrid.radial_component_splines:components"
        ctx.fail("oracle", key, f"radial component row {row} at shell {i} (r = {r_nodes[i]!r}, degree {g.degrees[i]}, degrees {info['degs']}): spline value {comps[row, i]!r}, g_lm(r_i) = {wantc[row, i]!r}",
                 witness=wit, snippet=snip("splines through g_lm(r_i)",
                 f"spl = grid.radial_component_splines(vals)\ngot = float(spl[{int(row)}](grid.rgrid.points[{int(i)}]))\nwant = {float(wantc[row, i])!r}\n"
                 f"assert abs(got - want) <= {1e-9 * gscale * 4!r}, (got, want)"))
    # (4) interpolant = f at every grid point (shells with r = 0: only for functions single-valued at the centre)
    F = g.interpolate(vals.copy())
    mask = np.ones(g.size, dtype=bool)
    if not bl.smooth:
        for i in range(g.n_shells):
            if r_nodes[i] == 0.0:
                mask[g.indices[i]:g.indices[i + 1]] = False
    fv = np.asarray(F(g.points), dtype=float)
    fscale = float(np.max(np.abs(vals))) + 1e-300
    bad = np.abs(np.nan_to_num(fv - vals, nan=np.inf)) > 1e-8 * fscale * (1 + comps.shape[0])
    bad &= mask
    if bad.any():
        j = int(np.argmax(bad))
        ctx.fail("oracle", "atomgrid.interpolate:grid-values", f"interpolant at grid point {j} = {fv[j]!r}, function value {vals[j]!r}", witness=wit,
                 snippet=snip("interpolant at grid points", f"F = grid.interpolate(vals)\ngot = float(F(grid.points[{j}:{j}+1])[0])\nassert abs(got - vals[{j}]) <= {1e-8 * fscale * (1 + comps.shape[0])!r}, (got, vals[{j}])"))
    # (5) at arbitrary points: interpolant = sum spline * Y (independent harmonics and angles)
    rmax = float(r_nodes[-1])
    c = g.center
    npt = 6 if budget == "small" else 25
    dirs = ctx.np_rng.normal(size=(npt, 3))
    dirs /= np.linalg.norm(dirs, axis=1)[:, None]
    radii = np.array([rng.uniform(0.05, 1.0) * rmax for _ in range(npt)])
    special = np.array([[0, 0, 0.0], [0, 0, 0.43 * rmax], [0, 0, -0.71 * rmax], [0.3 * rmax, 0, 0], [0, -0.55 * rmax, 0]])
    rel = np.vstack([dirs * radii[:, None], special])
    pts = c + rel
    rr, az, pol = _angles(rel)
    Lc = int(max(g.degrees)) // 2
    Yind = real_harmonics(Lc, az, pol)[: len(splines)]
    S0 = np.array([s(rr) for s in splines])
    want = np.einsum("ij,ij->j", S0[: Yind.shape[0]], Yind)
    got = np.asarray(F(pts), dtype=float)
    sscale = float(np.max(np.sum(np.abs(S0), axis=0))) + 1e-300
    if got.shape != want.shape or not _cmp_arrays(got, want, 1e-10, scale=sscale):
        j = int(np.argmax(np.abs(np.nan_to_num(got - want, nan=np.inf)))) if got.shape == want.shape else 0
        ctx.fail("oracle", "atomgrid.interpolate:is-sum", f"interpolant at {pts[j].tolist()} = {got.reshape(-1)[j]!r}, sum_lm spline_lm(r) Y_lm = {want[j]!r}", witness=dict(wit, point=pts[j]),
                 snippet=snip("interpolant = sum spline * Y", f"p = np.array({pts[j].tolist()!r})\nF = grid.interpolate(vals)\nspl = grid.radial_component_splines(vals)\n"
                              f"r, az, pol = angles(np.array([p - grid.center]))\nY = real_harmonics(int(max(grid.degrees)) // 2, az, pol)\n"
                              f"want = sum(float(spl[k](r[0])) * Y[k, 0] for k in range(len(spl)))\nassert abs(float(F(np.array([p]))[0]) - want) <= {1e-10 * sscale!r}"))
    # (6) derivatives against finite differences of the interpolant itself
    _oracle_derivs(ctx, g, info, bl, F, splines, wit, budget)
    # (7) spherical average integrates back
    avg = g.spherical_average(vals.copy())
    back = float(g.rgrid.integrate(4 * math.pi * r_nodes ** 2 * avg(r_nodes)))
    if not close(back, tot, rtol=1e-9, scale=float(np.sum(np.abs(vals * g.weights))) + 1e-300):
        ctx.fail("oracle", "atomgrid.spherical_average:integrates-back", f"radial integral of 4 pi r^2 f_avg = {back!r}, grid integral {tot!r}", witness=wit,
                 snippet=snip("spherical average integrates back", "avg = grid.spherical_average(vals.copy())\nr = grid.rgrid.points\nback = grid.rgrid.integrate(4 * math.pi * r**2 * avg(r))\n"
                              "assert abs(back - grid.integrate(vals)) <= 1e-9 * np.sum(np.abs(vals * grid.weights)), (back, grid.integrate(vals))"))
    # (8) the cached basis does not change later results: a second function on the same grid object
    bl2 = BandLimited(rng, L, smooth=True)
    v2 = _grid_values(M, g, bl2)
    c2 = np.array([s(r_nodes) for s in g.radial_component_splines(v2.copy())])
    w2 = np.zeros_like(c2)
    w2[: min(bl2.nrows, c2.shape[0])] = bl2.g(r_nodes)[: c2.shape[0]]
    if not _cmp_arrays(c2, w2, 1e-9, scale=float(np.max(np.abs(w2))) * 4 + 1e-300):
        ctx.fail("oracle", "atomgrid.radial_component_splines:basis-cache", "second decomposition on the same grid object (cached basis) does not recover its g_lm(r_i)", witness=wit)


def _oracle_derivs(ctx, g, info, bl, F, splines, wit, budget):
    rng = ctx.rng
    r_nodes = g.rgrid.points
    c = g.center
    n = g.n_shells
    Lc = int(max(g.degrees)) // 2

    def val(p):
        return float(F(np.array([p]))[0])

    def cart(r, th, ph):
        return c + r * np.array([math.sin(ph) * math.cos(th), math.sin(ph) * math.sin(th), math.cos(ph)])

    def interval():
        """a radius strictly inside a knot interval and the distance to the nearest knot"""
        i = rng.choice([k for k in range(n - 1) if r_nodes[k + 1] - r_nodes[k] >= 0.05])
        a, b = float(r_nodes[i]), float(r_nodes[i + 1])
        t = rng.uniform(0.3, 0.7)
        r = a + t * (b - a)
        return r, min(r - a, b - r)

    def snip_d(p, h, tol):
        return SNIP_DERIV.format(info=info, bl=bl.to_json(), p=[float(x) for x in p], h=float(h), tol=float(tol))

    def snip_s(q, tol):
        return SNIP_SPH.format(info=info, bl=bl.to_json(), q=[float(x) for x in q], tol=float(tol))

    ngen = 3 if budget == "small" else 12
    cases = []
    for _ in range(ngen):
        r, dist = interval()
        th = rng.uniform(-math.pi, math.pi)
        ph = rng.uniform(0.35, math.pi - 0.35)
        cases.append(("generic", r, dist, th, ph))
    r, dist = interval()
    cases.append(("z-axis", r, dist, 0.0, 0.0))          # positive polar axis: convert_cart_to_sph gives theta = 0, phi = 0
    r, dist = interval()
    cases.append(("z-axis", r, dist, 0.0, math.pi))      # negative polar axis
    for (kind, r, dist, th, ph) in cases:
        p = c + np.array([0.0, 0.0, r if ph == 0.0 else -r]) if kind == "z-axis" else cart(r, th, ph)
        # magnitude of the interpolant's ingredients at this radius (tolerances are relative to it)
        S0 = np.array([float(s(r)) for s in splines])
        S1 = np.array([float(s(r, 1)) for s in splines])
        mag = float(np.sum(np.abs(S0))) + 1e-300
        mag1 = float(np.sum(np.abs(S1))) + mag / max(r, 1e-3)
        # -- radial-only derivatives of order 1, 2, 3: along the ray the interpolant is one cubic polynomial between two knots,
        #    so the stencils below are exact up to rounding eps * mag / h^order (h = dist / 4)
        u = (p - c) / np.linalg.norm(p - c)
        h = dist / 4
        for nu in (1, 2, 3):
            got = float(F(np.array([p]), deriv=nu, only_radial_deriv=True)[0])
            want = _fd(lambda t: val(c + (r + t) * u), h, nu)
            tol = 1e-9 * mag1 + 4e-13 * mag / h ** nu + 1e-9 * abs(want)
            if not abs(got - want) <= tol:
                ctx.fail("oracle", "atomgrid.interpolate:radial-deriv", f"only_radial_deriv, deriv={nu} at {p.tolist()}: reported {got!r}, finite differences of the interpolant along the ray {want!r}",
                         witness=dict(wit, point=p, order=nu))
        # -- spherical-coordinate derivatives: 6th-order central differences in r (exact on a cubic), theta and phi
        #    (step 2e-3: truncation h^6 Lc^7 / 140 <= 1e-11 mag for Lc <= 12, rounding 1e-13 mag)
        hs = 2e-3
        got = np.asarray(F(np.array([p]), deriv=1, deriv_spherical=True), dtype=float).reshape(-1)
        q = ut_sph(g, p)
        want = np.array([_fd(lambda t: val(cart(q[0] + t, q[1], q[2])), h, 1),
                         _fd(lambda t: val(cart(q[0], q[1] + t, q[2])), hs, 1),
                         _fd(lambda t: val(cart(q[0], q[1], q[2] + t)), hs, 1)])
        tols = np.array([1e-9 * mag1 + 4e-13 * mag / h, 1e-8 * mag * (1 + Lc), 1e-8 * mag * (1 + Lc)])
        if got.shape != (3,) or not np.all(np.abs(got - want) <= tols):
            key = "atomgrid.interpolate:deriv-spherical" + (":z-axis" if kind == "z-axis" else "")
            ctx.fail("oracle", key, f"deriv_spherical at {p.tolist()} (r, theta, phi = {[float(x) for x in q]}): reported (d/dr, d/dtheta, d/dphi) = {got.tolist()}, "
                     f"finite differences of the same interpolant {want.tolist()}", witness=dict(wit, point=p), snippet=snip_s(q, float(tols[2])))
        # -- Cartesian gradient: 6th-order central differences with step hc << distance to the knots and to the centre
        hc = min(1e-3, dist / 8, r / 50)
        got = np.asarray(F(np.array([p]), deriv=1), dtype=float).reshape(-1)
        want = np.array([_fd(lambda t, k=k: val(p + t * np.eye(3)[k]), hc, 1) for k in range(3)])
        tol = 1e-8 * (mag1 + mag * (1 + Lc) / r) + 4e-13 * mag / hc
        if got.shape != (3,) or not np.all(np.abs(got - want) <= tol):
            key = "atomgrid.interpolate:deriv-cartesian" + (":z-axis" if kind == "z-axis" else "")
            ctx.fail("oracle", key, f"deriv=1 (Cartesian) at {p.tolist()}: reported gradient {got.tolist()}, finite differences of the same interpolant {want.tolist()}",
                     witness=dict(wit, point=p), snippet=snip_d(p, hc, tol))
    # -- the centre: the interpolant is a function of the direction there unless its l > 0 splines vanish at r = 0; where its one-sided
    #    directional derivatives along +e_k and -e_k are opposite it is differentiable along that axis and the k-th entry must be that slope
    if float(r_nodes[0]) == 0.0 and bl.smooth:
        dist = float(r_nodes[1])
        h = dist / 8

        def onesided(u):      # 4-point forward difference, exact on a cubic
            v = lambda t: val(c + t * u)
            return (-11 * v(0.0) + 18 * v(h) - 9 * v(2 * h) + 2 * v(3 * h)) / (6 * h)
        got = np.asarray(F(np.array([c]), deriv=1), dtype=float).reshape(-1)
        S1 = np.array([float(s(0.0, 1)) for s in splines])
        mag1 = float(np.sum(np.abs(S1))) + 1e-300
        for k in range(3):
            e = np.eye(3)[k]
            dp, dm = onesided(e), onesided(-e)
            # differentiable along axis k (up to the spline's own error in the slopes at r = 0): opposite one-sided slopes
            if abs(dp + dm) <= 0.02 * (abs(dp) + abs(dm)) and abs(dp) > 0.05 * mag1:
                want = 0.5 * (dp - dm)
                if not abs(got[k] - want) <= 0.1 * abs(want):
                    ctx.fail("oracle", "atomgrid.interpolate:deriv-cartesian:centre",
                             f"deriv=1 (Cartesian) at the centre {c.tolist()}: entry {k} reported {got[k]!r}; the interpolant has opposite one-sided slopes "
                             f"{dp!r}, {dm!r} along axis {k} there, i.e. the derivative {want!r}", witness=dict(wit, point=c, axis=k),
                             snippet=snip_d(c, h / 4, 0.1 * abs(want)))
        # radial-only derivative at the centre = slope along the ray theta = phi = 0 (+z)
        got_r = float(F(np.array([c]), deriv=1, only_radial_deriv=True)[0])
        want_r = onesided(np.array([0.0, 0.0, 1.0]))
        if not abs(got_r - want_r) <= 1e-8 * mag1 + 1e-12 / h:
            ctx.fail("oracle", "atomgrid.interpolate:radial-deriv", f"only_radial_deriv at the centre: reported {got_r!r}, one-sided slope along +z {want_r!r}", witness=dict(wit, point=c))


def ut_sph(g, p):
    """(r, theta, phi) of p about the centre, with the code's own convention on the polar axis (theta = arctan2(0, 0))."""
    d = np.asarray(p, dtype=float) - g.center
    r = float(np.linalg.norm(d))
    return np.array([r, math.atan2(d[1], d[0]), math.acos(max(-1.0, min(1.0, d[2] / r))) if r > 0 else 0.0])


def _oracle_mol(ctx, M, budget):
    try:
        _oracle_mol_inner(ctx, M, budget)
    except Exception as e:  # noqa: BLE001
        ctx.fail("oracle", "molgrid.interpolate:raises", f"MolGrid.interpolate of a smooth molecular function raised {type(e).__name__}: {e}")


def _oracle_mol_inner(ctx, M, budget):
    mg, bk = M[4], M[5]
    rng = ctx.rng
    for _ in range(2 if budget == "small" else 10):
        nat = rng.choice([2, 3])
        grids, infos = [], []
        for a in range(nat):
            g, info = _atom_grid(ctx, M, n=rng.choice([3, 4]), cap=9, zero_kind="none",
                                 center=np.array([1.6 * a + rng.uniform(-0.2, 0.2), rng.uniform(-0.5, 0.5), rng.uniform(-0.5, 0.5)]))
            grids.append(g)
            infos.append(info)
        mol = mg.MolGrid(np.array([rng.choice([1, 6, 8]) for _ in range(nat)]), grids, bk.BeckeWeights(order=3), store=True)
        # a smooth molecular function: sum of Gaussians times low polynomials on the nuclei
        cs = [g.center for g in grids]
        co = [(rng.uniform(0.5, 1.5), rng.uniform(0.4, 1.2), np.array([rng.uniform(-1, 1) for _ in range(3)])) for _ in cs]

        def fun(p):
            out = np.zeros(len(p))
            for c0, (a0, al, v) in zip(cs, co):
                d = p - c0
                out += (a0 + d @ v) * np.exp(-al * np.sum(d * d, axis=1))
            return out
        f = fun(mol.points)
        pts = np.array([[rng.uniform(-1.5, 1.6 * nat) for _ in range(3)] for _ in range(5)] + [cs[0].tolist(), (cs[-1] + np.array([0, 0, 0.4])).tolist()])
        ctx.count(["oracle-mol", infos], nontrivial=True, tag=f"oracle:mol:{nat}")
        for (dv, dsph, orad) in [(0, False, False), (1, False, False), (1, True, False), (1, False, True)]:
            got = np.asarray(mol.interpolate(f.copy())(pts, dv, dsph, orad), dtype=float)
            want = 0.0
            for a in range(nat):
                s, e = mol.indices[a], mol.indices[a + 1]
                want = want + np.asarray(grids[a].interpolate(f[s:e] * mol.aim_weights[s:e])(pts, dv, dsph, orad), dtype=float)
            if got.shape != np.shape(want) or not _cmp_arrays(got, want, 1e-11, atol=1e-13):
                ctx.fail("oracle", "molgrid.interpolate:sum-of-atomic", f"MolGrid.interpolate(deriv={dv}, deriv_spherical={dsph}, only_radial_derivs={orad}) is not the sum of the atomic interpolants of w_A f",
                         witness=dict(infos=infos, points=pts))


SNIP_FIXED = """import warnings; warnings.filterwarnings('ignore')
import numpy as np
from grid.onedgrid import OneDGrid
from grid.atomgrid import AtomGrid
grid = AtomGrid(OneDGrid(np.linspace(0, 4, 41), np.full(41, 0.1), (0, np.inf)), degrees=[10])
x, y, z = grid.points.T
f = {{'x': x, 'y': y}}[{comp!r}] * np.exp(-(x * x + y * y + z * z))
F = grid.interpolate(f)
p = np.array({p!r})
h = 1e-3
def fd(g):
    return (-g(-3*h) + 9*g(-2*h) - 45*g(-h) + 45*g(h) - 9*g(2*h) + g(3*h)) / (60 * h)
if {mode!r} == 'cartesian':
    want = np.array([fd(lambda t, k=k: float(F(np.array([p + t * np.eye(3)[k]]))[0])) for k in range(3)])
    got = F(np.array([p]), deriv=1)[0]
    assert np.allclose(got, want, rtol=0, atol=1e-6), f'reported gradient {{got}}, central differences of the same interpolant {{want}}'
else:
    r = float(np.linalg.norm(p)); ph0 = 0.0 if p[2] > 0 else np.pi
    at = lambda ph: float(F(np.array([[r * np.sin(ph), 0.0, r * np.cos(ph)]]))[0])
    want = fd(lambda t: at(ph0 + t))
    got = F(np.array([p]), deriv=1, deriv_spherical=True)[2]
    assert abs(got - want) <= 1e-6, f'reported d/dphi {{got}}, central differences of the same interpolant along the meridian theta = 0: {{want}}'
"""


def _replay_findings(ctx, M):
    """fixed witnesses of the listed findings (smooth functions x e^{-r^2}, y e^{-r^2} on a 41-shell grid of degree 10):
    reported derivatives against central differences of the interpolant itself."""
    ag, od = M[0], M[1]
    grid = ag.AtomGrid(od.OneDGrid(np.linspace(0, 4, 41), np.full(41, 0.1), (0, np.inf)), degrees=[10])
    x, y, z = grid.points.T
    h = 1e-3

    def fd(g):
        return (-g(-3 * h) + 9 * g(-2 * h) - 45 * g(-h) + 45 * g(h) - 9 * g(2 * h) + g(3 * h)) / (60 * h)
    for comp, arr in (("x", x), ("y", y)):
        F = grid.interpolate(arr * np.exp(-(x * x + y * y + z * z)))
        for label, p in (("z-axis", [0.0, 0.0, 0.73]), ("z-axis", [0.0, 0.0, -0.73]), ("centre", [0.0, 0.0, 0.0])):
            p = np.array(p)
            ctx.count(["replay", comp, label, p.tolist()], nontrivial=True, tag="oracle:replay-findings")
            want = np.array([fd(lambda t, k=k: float(F(np.array([p + t * np.eye(3)[k]]))[0])) for k in range(3)])
            got = np.asarray(F(np.array([p]), deriv=1)[0], dtype=float)
            if not np.allclose(got, want, rtol=0, atol=1e-6):
                ctx.fail("oracle", f"atomgrid.interpolate:deriv-cartesian:{label}",
                         f"f = {comp} exp(-r^2), 41 shells r = 0..4, degree 10, p = {p.tolist()}: reported gradient {got.tolist()}, central differences of the same interpolant {want.tolist()}",
                         witness=dict(function=f"{comp} exp(-r^2)", point=p), snippet=SNIP_FIXED.format(comp=comp, p=p.tolist(), mode="cartesian"))
            if label == "z-axis":
                r = float(np.linalg.norm(p))
                ph0 = 0.0 if p[2] > 0 else math.pi
                want_phi = fd(lambda t: float(F(np.array([[r * math.sin(ph0 + t), 0.0, r * math.cos(ph0 + t)]]))[0]))
                got_phi = float(F(np.array([p]), deriv=1, deriv_spherical=True)[2])
                if not abs(got_phi - want_phi) <= 1e-6:
                    ctx.fail("oracle", "atomgrid.interpolate:deriv-spherical:z-axis",
                             f"f = {comp} exp(-r^2), p = {p.tolist()}: reported d/dphi {got_phi!r}, central differences of the same interpolant along the meridian theta = 0: {want_phi!r}",
                             witness=dict(function=f"{comp} exp(-r^2)", point=p), snippet=SNIP_FIXED.format(comp=comp, p=p.tolist(), mode="spherical"))


def _guarded(ctx, M, g, info, bl, budget, label):
    """an exception out of the library while the clauses are evaluated is a failing input of its own"""
    import traceback
    try:
        _oracle_atom(ctx, M, g, info, bl, budget, label)
    except Exception as e:  # noqa: BLE001
        ctx.fail("oracle", "atomgrid.interpolate:raises",
                 f"decomposition / interpolation of a band-limited function raised {type(e).__name__}: {e} (degrees {info['degs']}, method {info['method']})",
                 witness=dict(info=info, function=bl.to_json(), traceback=traceback.format_exc()[-1200:]),
                 snippet=SNIP_GENERIC.format(info=info, bl=bl.to_json(), clause="no exception",
                                             body="F = grid.interpolate(vals)\nF(grid.points[:3])\nF(grid.points[:3], deriv=1)\nF(grid.points[:3], deriv=1, deriv_spherical=True)\n"
                                                  "F(grid.points[:3], deriv=2, only_radial_deriv=True)\ngrid.spherical_average(vals)"))


def oracle(ctx: Ctx, budget: str):
    M = _mods()
    rng = ctx.rng
    try:
        _replay_findings(ctx, M)
    except Exception as e:  # noqa: BLE001
        ctx.fail("oracle", "atomgrid.interpolate:raises", f"interpolation of x exp(-r^2) on a uniform degree-10 grid raised {type(e).__name__}: {e}",
                 snippet=SNIP_FIXED.format(comp="x", p=[0.3, 0.2, 0.5], mode="cartesian"))
    big = budget == "large" or ctx.thorough
    plans = []
    # every method, uniform and mixed degrees, with and without a node at r = 0, rotated and centred
    for method in METHODS:
        cap = {"lebedev": 11, "spherical": 11, "maxdet": 10, "ahrens_beylkin": 19}[method]
        plans.append(dict(method=method, mixed=False, zero_kind="zero", cap=cap, n=rng.choice([4, 5])))
        plans.append(dict(method=method, mixed=True, zero_kind=rng.choice(["none", "zero", "both"]), cap=cap, n=rng.choice([4, 5, 6])))
    if True:
        for _ in range(40 if big else 8):
            method = rng.choice(METHODS)
            plans.append(dict(method=method, mixed=rng.random() < 0.6, zero_kind=rng.choice(["none", "zero", "tiny", "both"]),
                              cap=None if method != "ahrens_beylkin" else 23, n=rng.choice([3, 4, 6, 8])))
    for ip, kw in enumerate(plans):
        if kw["zero_kind"] in ("tiny", "both"):
            # the points of a shell of radius 1e-9 about a centre of size 1 are rounded at the 1e-7 level relative to the
            # radius; the property is about the exact points, so such shells are examined about the origin
            kw["center"] = np.zeros(3)
        g, info = _atom_grid(ctx, M, **kw)
        dmin = int(min(g.degrees))
        Lmax = dmin // 2
        L = Lmax if ip % 2 == 0 else rng.randrange(0, Lmax + 1)
        L = min(L, 9)
        _guarded(ctx, M, g, info, BandLimited(rng, L, smooth=True), budget, "smooth")
        if info["zero"] in ("zero", "both") and ip % 2 == 1:
            # g_lm(0) != 0: the function values on the r = 0 shell are taken at the documented canonical angles
            g2, info2 = _atom_grid(ctx, M, **kw)
            _guarded(ctx, M, g2, info2, BandLimited(rng, min(int(min(g2.degrees)) // 2, 9), smooth=False), budget, "canonical")
    _oracle_mol(ctx, M, budget)

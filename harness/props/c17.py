"""C17 — closed-form Coulomb potentials of Gaussian densities are exact everywhere."""
import importlib
import json
import math
from decimal import Decimal

import numpy as np

from ..common import SRC, Ctx, DriverError, Tokens, close, driver_batch, f2b, fmat, fvec, vec

LEVEL = "proof"
LEVEL_TEXT = (
    "Lean theorems over the reals, for every exponent alpha > 0 and every radius, about definitions regenerated "
    "(AST -> Lean, statement by statement) from coulomb.py on every run; erf is its integral definition. s-type: "
    "(r V)'' = -4 pi r rho_s above the small-r switch, r V -> 1 = total charge, the branch value is the r->0 limit with the "
    "quantitative bound |erf(sqrt(a) r)/r - 2 sqrt(a/pi)| <= 2/(3 sqrt(pi)) a^{3/2} r^2 (jump across the switch), the closed form "
    "equals the Coulomb integral (1/r) int_0^r 4 pi s^2 rho + int_r^inf 4 pi s rho, unnormalised factor. p-type: the same set of "
    "theorems for a hand-written corrected formula (p_correct*), and for the code as it is the negation at concrete witnesses "
    "(p_code_ne_correct, p_code_fails_poisson) -- known finding. coulomb_potential is GENERATED too (shape guards, all-or-none "
    "p arguments, the two zip loops, which closed form with which `normalized`, V += c*...): on arrays with explicit shapes it is "
    "proved to raise ValueError for every malformed shape class and for partial p arguments, and otherwise to be rejected iff "
    "some exponent <= 0 and else equal to the coefficient-weighted sum of the generated closed forms (multi_centre_is_sum_gen, "
    "via a proved bridge to the hand model; total characterisation multi_centre_total). load_atomic_gaussian_params is GENERATED "
    "as a state-passing computation over the module-level cache (isinstance branches, .strip().title(), sym2num / num2sym.get, "
    "try/except around the file read and the KeyError, which JSON key goes to which returned component): proved equal to the "
    "hand model for every argument object, element table, file content and cache state (loader_gen_eq_model); unknown "
    "symbols/numbers -> ValueError, non-str/non-int -> TypeError, result independent of the cache state, cache = file after "
    "every call that passes the argument checks; the facts about the shipped table (equal lengths, positive exponents, loading "
    "by symbol and number for all 118 elements) are decided by the kernel on the generated loader and the regenerated table. "
    "Round 3, about the generated coulomb_potential over the reals: the outcome is invariant under a common translation of all points and all "
    "centres (potential_translation_invariant on lists of points / Gaussians, potential_translation_invariant_arrays on arbitrary argument arrays "
    "whose data fit their shapes, malformed ones included), no centres -> zeros of shape (N,), all coefficients zero -> zeros, m coincident "
    "identical functions -> m times one, a point on the centre of an s function in any frame -> c 2 sqrt(alpha/pi). "
    "Round 6: linear in the coefficients (potential_homogeneous: every coefficient times k, any real k, gives k times every value), additive over a split of the "
    "function list (potential_additive_split), no coefficient skipped (potential_no_coefficient_skipped); the translator carries leading `if <test>: continue` guards "
    "of a loop body and np.isclose(c, 0.0), so a loop that drops small coefficients is regenerated (not refused) and the bridge potential_gen_eq_model fails on it. "
    "Hand-written: the NumPy/Python primitives (Model/CoulombPy.lean), the corrected p formula, the documented densities; "
    "tied by correspondence; every generated definition is also run at Float by the driver and compared with the function it came from."
)
TECHNIQUE = "Lean 4 + Mathlib proof about AST-regenerated closed forms, multi-centre routine and loader (FTC, Gaussian integral, monadic do-block semantics) + differential correspondence + mpmath Coulomb-integral oracle"
GEN = ["coulomb"]
LEAN_MODULES = ["GridVerif.Props.C17"]
THEOREMS = [
    "GridVerif.C17.s_solves_poisson",
    "GridVerif.C17.s_far",
    "GridVerif.C17.s_total_charge",
    "GridVerif.C17.s_origin",
    "GridVerif.C17.s_switch_below_rounding",
    "GridVerif.C17.s_code_vs_closed_form",
    "GridVerif.C17.s_closed_form_is_coulomb_integral",
    "GridVerif.C17.s_origin_is_coulomb_integral",
    "GridVerif.C17.s_unnormalised_factor",
    "GridVerif.C17.s_unnormalised_solves_poisson",
    "GridVerif.C17.p_correct",
    "GridVerif.C17.p_correct_far",
    "GridVerif.C17.p_correct_origin",
    "GridVerif.C17.p_correct_is_coulomb_integral",
    "GridVerif.C17.p_code_ne_correct",
    "GridVerif.C17.p_code_fails_poisson",
    "GridVerif.C17.p_code_minus_correct",
    "GridVerif.C17.p_code_consistent",
    "GridVerif.C17.p_unnormalised_factor",
    "GridVerif.C17.multi_centre_is_sum",
    "GridVerif.C17.potential_gen_eq_model",
    "GridVerif.C17.multi_centre_is_sum_gen",
    "GridVerif.C17.multi_centre_s_only",
    "GridVerif.C17.shape_guards_reject",
    "GridVerif.C17.partial_p_rejected",
    "GridVerif.C17.multi_centre_total",
    "GridVerif.C17.multi_centre_never_unmodelled",
    "GridVerif.C17.table_ok",
    "GridVerif.C17.alphas_positive",
    "GridVerif.C17.loader_gen_eq_model",
    "GridVerif.C17.load_every_element",
    "GridVerif.C17.load_normalises",
    "GridVerif.C17.load_unknown_rejected",
    "GridVerif.C17.load_type_error",
    "GridVerif.C17.load_cache_independent",
    "GridVerif.C17.load_unreadable_file",
    "GridVerif.C17.model_load_every_element",
    "GridVerif.C17.model_load_normalises",
    "GridVerif.C17.model_load_unknown_rejected",
    # round 3: common translation of points and centres; special inputs of the multi-centre clause
    "GridVerif.C17.dist3_translate",
    "GridVerif.C17.potential_translation_invariant",
    "GridVerif.C17.potential_translation_invariant_arrays",
    "GridVerif.C17.potential_no_centres",
    "GridVerif.C17.potential_zero_coefficients",
    "GridVerif.C17.potential_coincident_centres",
    "GridVerif.C17.potential_at_centre",
    # round 6: linear in the coefficients, additive over the functions, no coefficient skipped
    "GridVerif.C17.potential_homogeneous",
    "GridVerif.C17.potential_additive_split",
    "GridVerif.C17.potential_no_coefficient_skipped",
]
RULE = (
    "correspondence: coulomb_gaussian_s / coulomb_gaussian_p x normalized in {True, False} on (alpha, r) with alpha "
    "log-uniform over 1e-6..1e6 plus structured values (table exponents, powers of ten, extremes), r in {0, -0.0, denormal, 1e-20, "
    "threshold -/+ 1 ulp, threshold, 2x threshold, x/sqrt(alpha) for x log-uniform 1e-3..30, small integers, 1e3, 1e8, 1e150, inf} "
    "and rejected inputs (alpha <= 0, r < 0); the same functions on every container kind of r (list, tuple, int / float32 / 2-D / "
    "0-d / Fortran / strided / read-only arrays, Python and NumPy scalars) and of alpha (int, np.int64, np.float32, 0-d array), "
    "`normalized` positional / keyword / omitted, against the float64 call on the same values (shape of np.atleast_1d, dtype, "
    "inputs untouched); the GENERATED coulomb_potential through the driver on arrays with explicit shapes: random centre/coefficient "
    "sets (0..5 s, none or 0..4 p functions, 0..6 points incl. points on a centre and one threshold away, tight Gaussians with "
    "alpha up to 1e14 next to the switch, mixed-sign coefficients, rejected exponents), every argument in a random container kind "
    "(float64 / float32 / int arrays, lists, tuples, strided, Fortran, read-only), the same array object for s and p parameters, "
    "every call repeated (identical result, inputs byte-identical), `normalized` and the p arguments positional or by keyword, and "
    "the malformed-shape stream (wrong ndim / last axis / lengths, every partial-None pattern, empty lists) with the error class "
    "compared; the GENERATED load_atomic_gaussian_params through the driver as a history: every symbol and number of num2sym with "
    "random case/padding, non-elements, out-of-range / huge / negative numbers, bool, NumPy integers of several widths, floats and "
    "other objects, in shuffled order with repeats, the module cache forced to None at random positions; per call the outcome, the "
    "arrays and the state of the cache afterwards are compared with the model started in the same cache state, the arrays also "
    "with the stateless JSON table, returned arrays are overwritten by the caller. Round 3: radii within factors 1.01 / 100 / 1 +- 2^-30 of "
    "the switch threshold on both sides, +-0.0 / smallest subnormal / smallest normal exponents at the guards, exponents 5e-324 .. 1.8e308 "
    "(unnormalised variants where their prefactor is inside the double range, UNNORMALISED_ENVELOPE); coulomb_potential on molecules in frames "
    "shifted by up to 1.5 x 2^20 per axis with all offsets on the dyadic grid 2^(e-50) (exactly representable; tight exponents 1e4..1e14, points at "
    "sqrt(alpha) r = 1e-3..10, on the centres, on the old origin; the unshifted molecule too), coefficients scaled by 2^-900 .. 2^900 / 1e-50 .. 1e12, "
    "special inputs (no s / no p / no functions at all, no points, one point on the one centre, all points on centres, coincident centres with equal / "
    "different exponents / cancelling coefficients, zero coefficients, a zero coefficient on a rejected exponent, points one threshold away along an axis). "
    "Round 3b: one float64 radial array object (r[0] = 0, radii below the switch, ordinary radii; plain / read-only / strided / slice of a larger array / "
    "2-D C and Fortran / reversed view / column of a matrix) through a sequence of coulomb_gaussian_s / _p calls with several exponents, every answer "
    "against the generated closed form at the ORIGINAL radii, array and owner unchanged; the oracle does the same against the mpmath closed form and for "
    "the points / centres / coefficient / exponent arrays of coulomb_potential over several calls. "
    "Round 4 (every quick run): consecutive centres of coulomb_potential that are distinct but close -- R + delta e and R (1 + delta) for delta = 1e-12 .. 1e-3, "
    "two / three / four in a row with other coefficients and exponents, a p centre next to (and exactly on) the last s centre, finite-difference pairs R +- h/2 e "
    "with coefficients +-1/h for h = 1e-3, 1e-5, 1e-7 along every axis, evaluation points 3 and 30 delta from the centres, on them and far; N / Ks / Kp unequal, 0, 1, 2 and "
    "the (3, 3) cases with the first / last point on the first / last centre; arguments as negative-stride views, bool, float16; radii of shape (1,5) .. (3,1,2). "
    "Oracle only: arrays held by grid objects (UniformInteger int64 points, a transformed radial grid, the points of an off-centre AtomGrid, the loader's arrays), "
    "every documented way of handing over the arguments, one array through different entry points, rejected calls between accepted ones (and an unreadable resource "
    "on a cold start of the loader), sqrt(alpha) r where erf saturates / exp underflows, the shipped contractions along a ray from the nucleus. "
    "Round 5: 1025 (descending) and 4097 (shuffled) radii in one call with r = 0 / sub-switch radii right after every 2^k and {1,2,5} 10^k position, entry by entry; "
    "coulomb_potential on 1025 points and on 33 + 17 functions; radii as longdouble / float32 / float16 / int64 / uint8 / int16 arrays. Oracle only: 1025 / 4097 / 20001 radii "
    "(thorough: 31234, 65537, 2^19 + 1) in random / ascending / descending order and 1025 / 4097 points, 33 / 129 s functions (thorough: 65537 and 2^19 + 1 points, 1025 functions) "
    "against additivity over an unequal split (exact for points, to rounding for functions), single calls, shuffled / reversed inputs and the closed form on sampled entries; "
    "the descending points of MultiExp-transformed grids; every array argument as longdouble / float32 / float16 (float64 answer, argument unchanged, second call equal); the "
    "same array objects edited in place between calls (scale / re-assign / one entry; each of the seven arrays in turn, and the radii); a fixed battery in this process after "
    "everything else against a fresh interpreter (loader elements in the opposite order). "
    "Non-trivial = a scalar case with "
    "0 < sqrt(alpha) r < 6 (erf neither 0 nor saturated) or r within a factor 4 of the switch threshold; a multi-centre case with "
    ">= 2 functions and >= 1 point; a loader case whose text differs from the stored key or that starts from an empty cache"
)
TRUSTED_BASE = [
    "Lean 4.33 kernel, Mathlib; axioms propext, Classical.choice, Quot.sound only (audited per theorem)",
    "Elem R instance: erf := realErf (2/sqrt(pi) * integral_0^x exp(-t^2)), sqrt/exp/rpow/pi := Mathlib's",
    "documented densities rhoS/rhoP (from the docstrings) and the shell-theorem reading 'potential = (1/r) int_0^r 4 pi s^2 rho + int_r^inf 4 pi s rho'",
    "translators harness/translate/coulomb.py (closed forms: elementwise reading of np.divide(where=)/masked assignment) and coulomb_py.py (coulomb_potential, load_atomic_gaussian_params: statement by statement into do-blocks; typing context POT_SIG/LOAD_SIG); self-checked at Float against the source functions on every run",
    "hand-written primitives of Model/CoulombPy.lean (NdArg = shape + row-major data, iteration, the one broadcasting pattern points - row, norm over the last axis, array-level call of a closed form, zip, dict lookups, isinstance table incl. bool <: int, ASCII strip/title, LoadM = exceptions + module-level cache, file read as an environment function) -- what each NumPy/Python operation means; tied by correspondence",
    "Float instance of the model (floatErf series, libm) for the correspondence only",
]
ASSUMPTIONS = [
    "IEEE rounding not modelled: equality over the reals in the theorems, rtol 1e-10 in the correspondence",
    "theorems on the differential equation are stated for radii above the 1e-12 switch; below it the code returns the limit value and the deviation from the closed form is bounded by s_origin / s_code_vs_closed_form",
    "np.asarray(x, dtype=float) is the identity of the model: conversion of lists / tuples / integer and single-precision arrays to float64 arrays happens before the model starts (exercised by the container-kind cases); objects NumPy cannot convert (ragged lists, strings) are outside the model and only checked to raise ValueError",
    "NaN / infinite coordinates are outside the property; np.empty_like contents are never read for non-NaN radii",
    "loader model restricted to ASCII input; the JSON numbers are exact decimals in the model and the nearest doubles in Python (compared to 4e-16)",
    "round 3, measured on the pinned tree and kept outside the generators (information for the lead): (1) for 0 < r < 1e-12 the code returns the r -> 0 limit, "
    "exact to alpha r^2 / 3 (s_origin): a relative deviation above 1e-10 from the potential for alpha > ~3e14 (witness coulomb_gaussian_s(9e-13, 1e20): 2.7e-5; "
    "alpha = 1e26, r = 5e-13: factor 5.6) -- the oracle samples below the switch where alpha r^2 <= 3e-11; (2) the unnormalised prefactors (pi/alpha)**1.5 "
    "and alpha**2.5 leave the double range for alpha < ~1.1e-205 (s) and outside ~[1e-123, 1.7e123] (p): OverflowError / ZeroDivisionError for a Python float, "
    "inf / 0 for np.float64, where the potential itself is representable (e.g. s, alpha = 1e-250: 6.3e250) -- unnormalised variants are sampled inside "
    "UNNORMALISED_ENVELOPE",
    "the floating-point translation invariance is asserted for exactly representable shifts and offsets only (then points - centre is the same double array "
    "in both frames); for generic far-away coordinates the distance itself carries the rounding of the inputs, which is not the library's doing",
    "round 4, information: complex coefficient arrays are converted by np.asarray(..., dtype=float) with a ComplexWarning, the imaginary part is dropped (the documentation says "
    "real coefficients; class 17 has no callback here); close-centre cases below delta = 1e-10 use exponents <= 1e8 (radii reach the small-r switch, see the round-3 envelope)",
    "round 5, information: alpha given as an np.longdouble scalar (or 0-d longdouble array) makes both closed forms raise TypeError from scipy.special.erf (no long-double loop; "
    "alpha is never coerced; the documented type is float) -- recorded as a tag, not asserted; longdouble radii / points / centres / coefficients / exponent ARRAYS are coerced "
    "by np.asarray(..., dtype=float) and are asserted. Class 24 (parameters independent of the data) has no object here: alpha and r are sampled independently since round 1",
    "corr and oracle run as independent parts (_Parts): an exception raised by the library inside a part is recorded as `<part>:raises`, a driver / harness exception is "
    "re-raised after all parts have run",
    "alpha given as np.float32 is computed in single precision by NumPy (deviation ~3e-8, docstring says float): pinned with rtol 1e-6, information only",
]

RTOL = 1e-10


# ----------------------------------------------------------------------------
# helpers
# ----------------------------------------------------------------------------
def _impl_scalar(fn, r, alpha, normalized):
    try:
        with np.errstate(all="ignore"):
            v = fn(r, alpha, normalized=normalized)
        return ("ok", float(np.asarray(v).reshape(-1)[0]))
    except ValueError:
        return ("value-error", None)


def _ans(line):
    t = Tokens(line)
    tag = t.tok()
    if tag != "ok":
        return (tag, None)
    return ("ok", t)


def _alphas(ctx: Ctx, n, table_alphas):
    fixed = [1.0, 2.0, 0.5, 3.0, 1e-6, 1e6, 1e-3, 1e3, 10.0, 0.1, 7.5, 1e-12, 1e12, 1e-100, 1e100]
    out = list(fixed)
    out += [ctx.rng.choice(table_alphas) for _ in range(min(8, n // 8 + 1))]
    while len(out) < n:
        out.append(10.0 ** ctx.rng.uniform(-6, 6))
    return out[:max(n, len(fixed))]


def _radii(ctx: Ctx, alpha, thr, k):
    sa = math.sqrt(alpha) if alpha > 0 else 1.0
    rs = [0.0, -0.0, 1.0, 2.0, 3.0, 5e-324, 1e-300, 1e-20, 1e-13, float(np.nextafter(thr, 0.0)), thr, float(np.nextafter(thr, 1.0)),
          2 * thr, 3.7 * thr, 0.3 * thr, 1e-9, 1e3, 1e8, 1e150, float("inf")]
    for _ in range(k):
        x = 10.0 ** ctx.rng.uniform(-3, math.log10(30))
        rs.append(x / sa)
    rs.append(1.0 / sa)
    rs.append(5.999999 / sa)
    rs.append(6.0 / sa)
    # round 3, class 7: both sides of _R_ZERO_THRESHOLD within a factor 1.01 and 100
    rs += [thr / 1.01, thr * 1.01, thr / 100.0, thr * 100.0, thr * (1 - 2.0 ** -30), thr * (1 + 2.0 ** -30)]
    return rs


EXTREME_ALPHAS = [5e-324, 2.2250738585072014e-308, 1e-300, 1e-250, 1e-200, 1e-150, 1e-120, 1e-50, 1e-20, 1e20, 1e50, 1e120, 1e150, 1e200,
                  1e250, 1e300, 1.7976931348623157e308]
# Measured on the pinned tree (round 3): the prefactor of the unnormalised variants leaves the double range --
# s: (pi/alpha)**1.5 overflows for alpha < ~1.1e-205 (OverflowError for a Python float, inf for np.float64) although the
# potential 2 pi/alpha is representable down to alpha ~ 3.5e-308, and is subnormal for alpha > ~1e205;
# p: alpha**2.5 underflows / overflows for alpha < ~1e-123 / > ~1.7e123 (ZeroDivisionError / OverflowError / inf / 0).
# Reported to the lead as an information (exponents 100 orders of magnitude beyond anything physical); the generators
# stay inside.
UNNORMALISED_ENVELOPE = {"s": (1e-200, 1e200), "p": (1e-120, 1e120)}


def _unnormalised_in_range(kind, alpha):
    lo, hi = UNNORMALISED_ENVELOPE[kind]
    return not (alpha > 0) or lo <= alpha <= hi


def _nontrivial_scalar(r, alpha, thr):
    if not (alpha > 0) or not (r > 0) or math.isinf(r):
        return False
    x = math.sqrt(alpha) * r
    return (0 < x < 6) or (thr / 4 <= r <= 4 * thr)


def _json_tables():
    with open(SRC / "data" / "atomic_gauss_params.json", encoding="utf-8") as f:
        raw = json.load(f, parse_float=Decimal, parse_int=Decimal)
    return raw


# ----------------------------------------------------------------------------
# round 4: independent parts -- one part raising does not hide what the others find
# ----------------------------------------------------------------------------
def _raised_in_library(e) -> bool:
    import traceback
    src = str(SRC)
    return any(str(fr.filename).startswith(src) for fr in traceback.extract_tb(e.__traceback__))


class _Parts:
    """Runs the parts of `corr` / `oracle` one after the other.  An exception raised *by the library* (a frame of the tree
    under test is on the traceback) inside a part is a failure of that part, recorded as `<key>:raises`; any other exception
    (driver, harness) is kept and the first one is re-raised by `finish()` after every part has run."""

    def __init__(self, ctx, stage):
        self.ctx, self.stage, self.first = ctx, stage, None

    def run(self, key, fn, *args, **kw):
        import traceback
        try:
            return fn(*args, **kw)
        except DriverError as e:
            self.first = self.first or e
        except Exception as e:  # noqa: BLE001
            if _raised_in_library(e):
                self.ctx.fail(self.stage, key + ":raises", f"part '{key}' of the {self.stage}: the library raised {type(e).__name__}: {e} on an input inside the "
                              "sampled envelope (accepted by the unchanged tree)", witness=traceback.format_exc()[-2500:])
            else:
                self.first = self.first or e
        return None

    def finish(self):
        if self.first is not None:
            raise self.first


# ----------------------------------------------------------------------------
# correspondence
# ----------------------------------------------------------------------------
def corr(ctx: Ctx):
    cb = importlib.import_module("grid.coulomb")
    utils = importlib.import_module("grid.utils")
    raw = _json_tables()
    table_alphas = sorted({float(a) for e in raw.values() for a in e["alphas_s"]})
    thr = float(cb._R_ZERO_THRESHOLD)
    parts = _Parts(ctx, "corr")
    parts.run("coulomb_gaussian:scalar", _corr_scalar_forms, ctx, cb, table_alphas)
    parts.run("coulomb_gaussian:elementwise", _corr_elementwise, ctx, cb, thr)
    # -- container kinds / dtypes / call paths of the scalar functions -----------------------------
    parts.run("coulomb_gaussian:container", _corr_scalar_containers, ctx, cb, thr)
    # -- round 3b: one array object reused over a sequence of calls ------------------------------------
    parts.run("coulomb_gaussian:reuse", _corr_reuse, ctx, cb, thr)
    parts.run("pcorr-model", _corr_pcorr, ctx)
    # -- multi-centre ------------------------------------------------------------
    parts.run("coulomb_potential", _corr_multi, ctx, cb, thr)
    # -- loader --------------------------------------------------------------------
    parts.run("load_atomic_gaussian_params", _corr_loader, ctx, cb, utils, raw)
    # -- round 4 ---------------------------------------------------------------------
    parts.run("round4", _corr_round4, ctx, cb, utils, thr, parts)
    parts.run("round5", _corr_round5, ctx, cb, thr)
    parts.finish()


def _corr_scalar_forms(ctx: Ctx, cb, table_alphas):
    # -- threshold constant ----------------------------------------------------
    tag, t = _ans(driver_batch(["C17.thr"])[0])
    thr = float(cb._R_ZERO_THRESHOLD)
    ctx.count(["thr"], nontrivial=False, tag="threshold")
    if tag != "ok" or t.flt() != thr:
        ctx.fail("corr", "threshold", f"_R_ZERO_THRESHOLD = {thr!r}, generated constant differs")
    # -- scalar closed forms, all variants ------------------------------------
    fns = {"s": cb.coulomb_gaussian_s, "p": cb.coulomb_gaussian_p}
    cases = []
    for alpha in _alphas(ctx, ctx.n(110, 4000), table_alphas):
        for r in _radii(ctx, alpha, thr, ctx.n(8, 12)):
            cases.append((r, alpha))
    # rejected inputs
    bad = [(1.0, 0.0), (1.0, -1.0), (0.0, -1e-300), (-1.0, 1.0), (-1e-13, 2.0), (-5e-324, 2.0), (-1.0, -1.0),
           (0.0, 0.0), (float("inf"), 0.0)]
    cases += bad
    # round 3, class 7: both sides of the guards `alpha <= 0` / `r < 0` at the smallest magnitudes
    cases += [(1.0, -0.0), (1.0, 5e-324), (1.0, -5e-324), (0.0, 5e-324), (5e-324, 5e-324), (-0.0, 1.0), (-5e-324, 5e-324),
              (1.0, 2.2250738585072014e-308), (1.0, -2.2250738585072014e-308)]
    lines, meta = [], []
    for r, alpha in cases:
        for kind in ("s", "p"):
            for nz in (True, False):
                if not nz and not _unnormalised_in_range(kind, alpha):
                    continue
                lines.append(f"C17.{kind} {f2b(r)} {f2b(alpha)} {int(nz)}")
                meta.append((kind, r, alpha, nz))
    # round 3, class 8: exponents of extreme magnitude (1e-300 .. 1e300, the smallest / largest doubles); the unnormalised
    # variants only where their prefactor is inside the double range (see UNNORMALISED_ENVELOPE)
    for alpha in EXTREME_ALPHAS:
        for r in _radii(ctx, alpha, thr, 3):
            for kind in ("s", "p"):
                for nz in (True, False):
                    if not nz and not _unnormalised_in_range(kind, alpha):
                        continue
                    lines.append(f"C17.{kind} {f2b(r)} {f2b(alpha)} {int(nz)}")
                    meta.append((kind, r, alpha, nz))
    answers = driver_batch(lines)
    # implementation: scalar calls (the function is elementwise; array calls are cross-checked below)
    for (kind, r, alpha, nz), line in zip(meta, answers):
        itag, iv = _impl_scalar(fns[kind], r, alpha, nz)
        mtag, t = _ans(line)
        branch = ("reject" if itag != "ok" else "r=0" if r == 0 else "below-switch" if r < thr else
                  "near-switch" if r <= 4 * thr else "saturated" if math.sqrt(alpha) * r >= 6 else "bulk")
        ctx.count([kind, r, alpha, nz], nontrivial=_nontrivial_scalar(r, alpha, thr), tag=f"{kind}:{'n' if nz else 'u'}:{branch}")
        if itag != mtag:
            ctx.fail("corr", f"coulomb_gaussian_{kind}", f"coulomb_gaussian_{kind}(r={r!r}, alpha={alpha!r}, normalized={nz}): "
                     f"implementation {itag}, model {mtag}", witness={"r": r, "alpha": alpha, "normalized": nz})
            continue
        if itag == "ok":
            mv = t.flt()
            if not close(iv, mv, rtol=RTOL):
                ctx.fail("corr", f"coulomb_gaussian_{kind}", f"coulomb_gaussian_{kind}(r={r!r}, alpha={alpha!r}, normalized={nz}): "
                         f"implementation {iv!r}, generated model {mv!r}",
                         witness={"r": r, "alpha": alpha, "normalized": nz, "impl": iv, "model": mv})


def _corr_elementwise(ctx: Ctx, cb, thr):
    # array call == scalar calls (elementwise reading of the translator)
    fns = {"s": cb.coulomb_gaussian_s, "p": cb.coulomb_gaussian_p}
    for kind in ("s", "p"):
        for nz in (True, False):
            alpha = 10.0 ** ctx.rng.uniform(-3, 3)
            rs = np.array(_radii(ctx, alpha, thr, 6))
            ctx.rng.shuffle(rs)
            with np.errstate(all="ignore"):
                arr = fns[kind](rs, alpha, normalized=nz)
                single = [float(fns[kind](float(x), alpha, normalized=nz)[0]) for x in rs]
            ctx.count([kind, "array", alpha, nz], nontrivial=True, tag=f"{kind}:array")
            if arr.shape != rs.shape or not all(close(float(a), b, rtol=0) for a, b in zip(arr, single)):
                ctx.fail("corr", f"coulomb_gaussian_{kind}:elementwise", f"coulomb_gaussian_{kind} on an array differs from the "
                         f"calls on its elements (alpha={alpha!r})", witness={"r": rs.tolist(), "alpha": alpha})


def _corr_pcorr(ctx: Ctx):
    # -- the hand-written corrected p formula is what mpmath's Coulomb integral gives ------
    pts = [(0.0, 1.0), (0.0, 3.0), (0.5, 3.0), (2.0, 3.0), (1.0, 1.0), (0.1, 7.5), (3.0, 0.3), (1e-13, 2.0),
           (10.0 ** ctx.rng.uniform(-2, 1), 10.0 ** ctx.rng.uniform(-2, 2))]
    ans = driver_batch([f"C17.pcorr {f2b(r)} {f2b(a)} {int(nz)}" for r, a in pts for nz in (True, False)])
    i = 0
    for r, a in pts:
        for nz in (True, False):
            tag, t = _ans(ans[i]); i += 1
            ref = float(_ref_potential("p", a, r, nz))
            ctx.count(["pcorr", r, a, nz], nontrivial=r > 0, tag="pcorr-vs-mpmath")
            if tag != "ok" or not close(t.flt(), ref, rtol=1e-9):
                ctx.fail("corr", "pcorr-model", f"hand-written corrected p formula at r={r!r}, alpha={a!r}, normalized={nz} "
                         f"is not the Coulomb integral of the documented density ({ref!r})")



def _rand_gaussians(ctx: Ctx, k, bad_alpha=False):
    centers = [[round(ctx.rng.uniform(-2, 2), 3) for _ in range(3)] for _ in range(k)]
    coeffs = [ctx.rng.choice([1.0, -1.0, 0.5, 2.0, ctx.rng.uniform(-3, 3), 0.0]) for _ in range(k)]
    alphas = [10.0 ** ctx.rng.uniform(-3, 3) for _ in range(k)]
    if bad_alpha and k:
        alphas[ctx.rng.randrange(k)] = ctx.rng.choice([0.0, -1.0, -1e-9])
    return centers, coeffs, alphas


# ---- container kinds -------------------------------------------------------------------------
KINDS = ("f64", "list", "tuple", "f32", "strided", "fortran", "readonly", "int", "int32")


def _as_kind(x, kind):
    """The float array `x` as another container / dtype / memory layout (values may be rounded:
    the reference is always np.asarray(result, dtype=float))."""
    x = np.array(x, dtype=float)
    if kind == "f64":
        return x
    if kind == "list":
        return x.tolist()
    if kind == "tuple":
        return tuple(map(tuple, x.tolist())) if x.ndim == 2 else tuple(x.tolist())
    if kind == "f32":
        return x.astype(np.float32)
    if kind == "int":
        return np.rint(x).astype(np.int64)
    if kind == "int32":
        return np.rint(x).astype(np.int32)
    if kind == "strided":
        big = np.full((2 * x.shape[0] + 1,) + x.shape[1:], 7.25)
        big[1::2] = x
        return big[1::2]
    if kind == "fortran":
        return np.asfortranarray(x)
    if kind == "readonly":
        y = x.copy()
        y.setflags(write=False)
        return y
    if kind == "negstride":  # round 4: a reversed view of reversed data (negative stride along axis 0)
        return x[::-1].copy()[::-1]
    if kind == "bool":
        return np.rint(x).astype(bool)
    if kind == "f16":
        return x.astype(np.float16)
    raise KeyError(kind)


def _snapshot(objs):
    return [(o.tobytes(), o.dtype.str, o.shape) if isinstance(o, np.ndarray) else repr(o) for o in objs]


def _corr_scalar_containers(ctx: Ctx, cb, thr):
    """r / alpha in every container kind and dtype, `normalized` by every route: equal to the float64
    call on the same values; shape = np.atleast_1d(r).shape; float64 result; inputs untouched."""
    fns = {"s": cb.coulomb_gaussian_s, "p": cb.coulomb_gaussian_p}
    for kind in ("s", "p"):
        fn = fns[kind]
        for nz in (True, False):
            alpha = ctx.rng.choice([2.0, 3.0, 1.0, 7.0, float(int(10.0 ** ctx.rng.uniform(0, 4)))])  # integer-valued: int kinds are exact
            sa = math.sqrt(alpha)
            base = np.array([0.0, -0.0, 5e-324, thr / 2, float(np.nextafter(thr, 0)), thr, 2 * thr, 0.3 / sa, 1.0, 2.0, 1 / sa,
                             2.5 / sa, 7 / sa, ctx.rng.uniform(0, 3) / sa, 1e3, 3.0])
            with np.errstate(all="ignore"):
                def ref_of(values):
                    return fn(np.array(values, dtype=float).ravel().copy(), float(alpha), normalized=nz)

                variants = []
                for k in KINDS:
                    variants.append((k, _as_kind(base, k), float(alpha)))
                variants.append(("2d", base.reshape(4, 4), float(alpha)))
                variants.append(("2d-f32-fortran", np.asfortranarray(base.reshape(2, 8).astype(np.float32)), float(alpha)))
                variants.append(("3d", base.reshape(2, 2, 4), float(alpha)))
                variants.append(("nested-list", base.reshape(4, 4).tolist(), float(alpha)))
                variants.append(("empty", np.array([]), float(alpha)))
                for x in (0.0, -0.0, 5e-324, thr, 1 / sa, 2.0):
                    variants.append(("0d", np.array(x), float(alpha)))
                    variants.append(("pyfloat", float(x), float(alpha)))
                    variants.append(("np.float64", np.float64(x), float(alpha)))
                    variants.append(("np.float32", np.float32(x), float(alpha)))
                    variants.append(("one-element", np.array([x]), float(alpha)))
                for x in (0, 1, 3):
                    variants.append(("pyint", x, float(alpha)))
                    variants.append(("np.int64", np.int64(x), float(alpha)))
                    variants.append(("bool", bool(x), float(alpha)))
                variants.append(("int-array-with-0", np.array([0, 3, 0, 1]), float(alpha)))
                for ak, av in (("alpha:int", int(alpha)), ("alpha:np.int64", np.int64(int(alpha))), ("alpha:np.int32", np.int32(int(alpha))),
                               ("alpha:np.float64", np.float64(alpha)), ("alpha:0d", np.array(float(alpha))),
                               ("alpha:np.float32", np.float32(alpha))):
                    variants.append((ak, base, av))
                for name, robj, aobj in variants:
                    snap = _snapshot([robj, aobj])
                    want_shape = np.atleast_1d(np.asarray(robj)).shape
                    vals = np.asarray(robj, dtype=float)
                    ref = ref_of(vals)
                    routes = [("kw", lambda: fn(robj, aobj, normalized=nz)), ("pos", lambda: fn(robj, aobj, nz)),
                              ("allkw", lambda: fn(r=robj, alpha=aobj, normalized=nz))]
                    if nz:
                        routes.append(("default", lambda: fn(robj, aobj)))
                    for route, call in routes:
                        ctx.count([kind, "container", name, route, nz, alpha], nontrivial=False, tag=f"{kind}:container:{name.split(':')[0]}")
                        try:
                            got = call()
                            again = call()
                        except Exception as e:  # noqa: BLE001
                            ctx.fail("corr", f"coulomb_gaussian_{kind}:container", f"coulomb_gaussian_{kind}(r as {name}, alpha={aobj!r} "
                                     f"[{type(aobj).__name__}], normalized={nz} via {route}) raised {type(e).__name__}: {e}; the float64 call on the same values succeeds",
                                     witness={"r": vals.ravel().tolist(), "alpha": float(alpha), "normalized": nz, "container": name, "route": route})
                            continue
                        rtol = 1e-6 if name == "alpha:np.float32" else 1e-13
                        ok = isinstance(got, np.ndarray) and got.shape == want_shape and got.dtype == np.float64 \
                            and all(close(float(a), float(b), rtol=rtol) for a, b in zip(got.ravel(), ref)) \
                            and np.array_equal(got, again, equal_nan=True) and _snapshot([robj, aobj]) == snap \
                            and not (isinstance(robj, np.ndarray) and np.shares_memory(got, robj))
                        if not ok:
                            bad = [i for i, (a, b) in enumerate(zip(np.asarray(got).ravel(), ref)) if not close(float(a), float(b), rtol=rtol)]
                            w = {"r": float(vals.ravel()[bad[0]]) if bad else vals.ravel().tolist()[:6], "alpha": float(alpha), "normalized": nz,
                                 "container": name, "route": route, "got_shape": list(np.shape(got)), "want_shape": list(want_shape),
                                 "got": np.asarray(got).ravel().tolist()[:8], "float64_call": ref.tolist()[:8]}
                            ctx.fail("corr", f"coulomb_gaussian_{kind}:container", f"coulomb_gaussian_{kind}(r as {name}, alpha as "
                                     f"{type(aobj).__name__}, normalized={nz} via {route}) differs from the float64 call on the same values "
                                     f"(or wrong shape/dtype, second call different, input modified, result aliasing the input)", witness=w)
                        if name == "alpha:np.float32" and not all(close(float(a), float(b), rtol=1e-10) for a, b in zip(got.ravel(), ref)):
                            ctx.tagc(f"{kind}:info:alpha-float32-single-precision")


# ---- coulomb_potential -----------------------------------------------------------------------
def _nd(a) -> str:
    a = np.asarray(a, dtype=float)
    return vec(a.shape) + " " + fvec(a.ravel(order="C"))


def _optnd(a) -> str:
    return "0" if a is None else "1 " + _nd(a)


POT_NAMES = ("points", "centers_s", "coeffs_s", "alphas_s", "centers_p", "coeffs_p", "alphas_p")


def _pot_line(call):
    """Driver line of a call (dict of the seven array arguments as handed to the implementation +
    normalized); None if NumPy cannot even convert an argument (outside the model)."""
    try:
        parts = [_nd(call[n]) for n in POT_NAMES[:4]] + [_optnd(call.get(n)) for n in POT_NAMES[4:]]
    except (ValueError, TypeError):
        return None
    return f"C17.pot {int(bool(call.get('normalized', True)))} " + " ".join(parts)


def _pot_invoke(cb, call, route):
    a = [call[n] for n in POT_NAMES[:4]]
    p = {n: call[n] for n in POT_NAMES[4:] if n in call}
    nz = call.get("normalized", True)
    if route == "kw":
        return cb.coulomb_potential(*a, normalized=nz, **p)
    if route == "pos":
        return cb.coulomb_potential(*a, call.get("centers_p"), call.get("coeffs_p"), call.get("alphas_p"), nz)
    if route == "allkw":
        return cb.coulomb_potential(**{n: call[n] for n in POT_NAMES[:4]}, normalized=nz, **p)
    if route == "default":  # only used when normalized is True
        return cb.coulomb_potential(*a, **p)
    raise KeyError(route)


def _impl_pot(cb, call, route="kw"):
    try:
        with np.errstate(all="ignore"):
            v = _pot_invoke(cb, call, route)
        return "ok", v
    except ValueError:
        return "value-error", None
    except TypeError:
        return "type-error", None
    except IndexError:
        return "index-error", None
    except AttributeError:
        return "attribute-error", None


def _call_witness(call):
    w = {}
    for n in POT_NAMES:
        if n in call:
            v = call[n]
            try:
                w[n] = None if v is None else np.asarray(v, dtype=float).tolist()
            except (ValueError, TypeError):
                w[n] = repr(v)
            w[n + ":kind"] = type(v).__name__ + (f"[{v.dtype},{'C' if v.flags.c_contiguous else 'strided/F'},{'rw' if v.flags.writeable else 'ro'}]"
                                                 if isinstance(v, np.ndarray) else "")
    w["normalized"] = bool(call.get("normalized", True))
    return w


def _pot_scale(cb, call):
    """sum of |c| |V_k| per point: magnitude of the intermediates of the accumulation"""
    P = np.asarray(call["points"], dtype=float)
    scale = np.zeros(len(P))
    nz = bool(call.get("normalized", True))
    with np.errstate(all="ignore"):
        for kind, fn in (("s", cb.coulomb_gaussian_s), ("p", cb.coulomb_gaussian_p)):
            if call.get("coeffs_" + kind) is None:
                continue
            for c, a, ctr in zip(np.asarray(call["coeffs_" + kind], float), np.asarray(call["alphas_" + kind], float),
                                 np.asarray(call["centers_" + kind], float)):
                try:
                    scale += abs(c) * np.abs(fn(np.linalg.norm(P - ctr, axis=-1), a, normalized=nz))
                except ValueError:
                    pass  # the model and the implementation are compared on the tag first
    return scale


def _gen_pot_cases(ctx: Ctx, thr, n):
    cases = []

    def gaussians(k, bad=False, tight=False, integer=False):
        if integer:
            centers = [[float(ctx.rng.randint(-2, 2)) for _ in range(3)] for _ in range(k)]
            coeffs = [float(ctx.rng.choice([1, -1, 2, 3, 0])) for _ in range(k)]
            alphas = [float(ctx.rng.choice([1, 2, 3, 10, 1000])) for _ in range(k)]
        else:
            centers, coeffs, alphas = _rand_gaussians(ctx, k)
            if tight:
                alphas = [10.0 ** ctx.rng.uniform(6, 14) for _ in range(k)]
            elif ctx.rng.random() < 0.2:
                alphas = [10.0 ** ctx.rng.uniform(-12, 12) for _ in range(k)]
        if bad and k:
            alphas[ctx.rng.randrange(k)] = ctx.rng.choice([0.0, -1.0, -1e-9, -0.0])
        return centers, coeffs, alphas

    for i in range(n):
        integer = ctx.rng.random() < 0.15
        tight = (not integer) and ctx.rng.random() < 0.15
        ks = ctx.rng.choice([0, 1, 1, 2, 3, 5])
        havep = ctx.rng.random() < 0.6
        kp = ctx.rng.choice([0, 1, 2, 4]) if havep else 0
        cs, ks_, as_ = gaussians(ks, bad=ctx.rng.random() < 0.08, tight=tight, integer=integer)
        cp, kp_, ap_ = gaussians(kp, bad=havep and ctx.rng.random() < 0.06, tight=tight, integer=integer)
        npt = ctx.rng.choice([0, 1, 2, 3, 6])
        points, allc = [], cs + cp
        for _ in range(npt):
            u = ctx.rng.random()
            if allc and u < 0.25:
                points.append(list(ctx.rng.choice(allc)))  # on a nucleus: r = 0
            elif allc and u < (0.8 if tight else 0.45) and not integer:
                c = list(ctx.rng.choice(allc))
                c[ctx.rng.randrange(3)] += ctx.rng.choice([thr, 0.5 * thr, 2 * thr, -thr, 1e-9, 1.0000001 * thr, 3 * thr, 17 * thr, 1e-11])
                points.append(c)
            elif integer:
                points.append([float(ctx.rng.randint(-3, 3)) for _ in range(3)])
            else:
                points.append([ctx.rng.uniform(-4, 4) for _ in range(3)])
        kinds = ["f64"] * 7 if ctx.rng.random() < 0.35 else [ctx.rng.choice(KINDS[:7] + (("int", "int32") if integer else ())) for _ in range(7)]
        arrs = [np.array(points, dtype=float).reshape(-1, 3), np.array(cs, dtype=float).reshape(-1, 3), np.array(ks_, dtype=float),
                np.array(as_, dtype=float), np.array(cp, dtype=float).reshape(-1, 3), np.array(kp_, dtype=float), np.array(ap_, dtype=float)]
        call = {nme: _as_kind(a, k) for nme, a, k in zip(POT_NAMES, arrs, kinds)}
        if not havep:
            for nme in POT_NAMES[4:]:
                del call[nme]
            if ctx.rng.random() < 0.3:
                for nme in POT_NAMES[4:]:
                    call[nme] = None  # explicit None
        call["normalized"] = ctx.rng.random() < 0.6
        route = ctx.rng.choice(["kw", "kw", "pos", "allkw"] + (["default"] if call["normalized"] else []))
        cases.append((call, route, ("f64" if set(kinds) == {"f64"} else "mixed:" + "+".join(sorted(set(kinds)))) + (":tight" if tight else "") + (":int" if integer else "")))
    # the same array objects for the s and the p parameters / for several parameters
    for _ in range(max(4, n // 20)):
        k = ctx.rng.choice([1, 2, 3])
        cs, ks_, as_ = _rand_gaussians(ctx, k)
        C, Kc, A = np.array(cs).reshape(-1, 3), np.array(ks_), np.array(as_)
        pts = np.array(cs + [[ctx.rng.uniform(-2, 2) for _ in range(3)]])
        cases.append((dict(points=pts, centers_s=C, coeffs_s=Kc, alphas_s=A, centers_p=C, coeffs_p=Kc, alphas_p=A,
                           normalized=ctx.rng.random() < 0.5), "kw", "same-object-s-p"))
        cases.append((dict(points=C, centers_s=C, coeffs_s=A, alphas_s=A, normalized=ctx.rng.random() < 0.5), "pos", "same-object-points-centres"))
    return cases


def _malformed_pot_calls():
    P = np.zeros((2, 3)); S = np.zeros((1, 3)); one = [1.0]
    ok = dict(points=P, centers_s=S, coeffs_s=one, alphas_s=one)
    out = [
        dict(ok, points=np.zeros((2, 2))), dict(ok, points=np.zeros(3)), dict(ok, points=np.zeros((2, 3, 1))), dict(ok, points=np.float64(1.0)),
        dict(ok, points=np.zeros((3, 2)).T[:, :2]), dict(ok, points=[]), dict(ok, points=[[]]), dict(ok, points=np.zeros((0, 2))),
        dict(ok, points=np.zeros((2, 4))), dict(ok, points=[0.0, 0.0, 0.0]),
        dict(ok, centers_s=np.zeros((1, 2))), dict(ok, centers_s=np.zeros(3)), dict(ok, centers_s=np.zeros((1, 3, 1))), dict(ok, centers_s=[]),
        dict(ok, centers_s=np.zeros((2, 3))), dict(ok, centers_s=np.zeros((0, 3))), dict(ok, centers_s=np.zeros((3, 1))),
        dict(ok, coeffs_s=[1.0, 2.0]), dict(ok, coeffs_s=[]), dict(ok, coeffs_s=1.0), dict(ok, coeffs_s=[[1.0]]), dict(ok, coeffs_s=np.zeros((1, 1))),
        dict(ok, alphas_s=[1.0, 2.0]), dict(ok, alphas_s=[]), dict(ok, alphas_s=1.0), dict(ok, alphas_s=[[1.0]]),
        dict(ok, alphas_s=[-1.0, 2.0]), dict(ok, points=np.zeros((2, 2)), alphas_s=[-1.0]),
        dict(ok, centers_s=np.zeros((0, 3)), coeffs_s=[], alphas_s=[1.0]), dict(ok, centers_s=np.zeros((0, 3)), coeffs_s=[1.0], alphas_s=[]),
    ]
    # every pattern of present / absent p arguments (present ones well-shaped)
    good = dict(centers_p=S, coeffs_p=one, alphas_p=one)
    for mask in range(8):
        d = dict(ok)
        for b, nme in enumerate(POT_NAMES[4:]):
            if mask >> b & 1:
                d[nme] = good[nme]
            elif mask & 4:
                d[nme] = None
        out.append(d)
    okp = dict(ok, **good)
    out += [
        dict(okp, coeffs_p=[1.0, 1.0]), dict(okp, alphas_p=[1.0, 3.0]), dict(okp, centers_p=np.zeros((1, 4))), dict(okp, centers_p=np.zeros(3)),
        dict(okp, centers_p=np.zeros((2, 3))), dict(okp, coeffs_p=[]), dict(okp, alphas_p=2.0), dict(okp, coeffs_p=[[1.0]]), dict(okp, centers_p=[]),
        dict(okp, centers_p=np.zeros((0, 3)), coeffs_p=[], alphas_p=[]), dict(okp, alphas_p=[0.0]), dict(okp, alphas_p=[-2.0], centers_p=np.zeros((1, 2))),
        dict(okp, points=np.zeros((0, 3)), alphas_p=[0.0]), dict(okp, points=np.zeros((0, 3))),
        # a well-shaped p set with malformed s arguments, and the other way round
        dict(okp, coeffs_s=[1.0, 2.0]), dict(okp, points=np.zeros(3), coeffs_p=None),
    ]
    return out


def _corr_multi(ctx: Ctx, cb, thr):
    cases = _gen_pot_cases(ctx, thr, ctx.n(220, 5000))
    cases += [(c, ctx.rng.choice(["kw", "pos", "allkw"]), "malformed") for c in _malformed_pot_calls()]
    cases += _gen_pot_cases_r3(ctx, thr, ctx.n(36, 1200))
    lines = [_pot_line(c) for c, _, _ in cases]
    if any(ln is None for ln in lines):
        raise RuntimeError("a generated coulomb_potential case cannot be converted by NumPy")
    answers = driver_batch(lines)
    for (call, route, label), line in zip(cases, answers):
        objs = [call.get(nme) for nme in POT_NAMES]
        snap = _snapshot(objs)
        itag, v = _impl_pot(cb, call, route)
        itag2, v2 = _impl_pot(cb, call, "kw" if route != "kw" else "allkw")  # second call, another route, same objects
        mtag, t = _ans(line)
        ns = len(np.asarray(call["coeffs_s"], dtype=float).reshape(-1))
        np_ = None if call.get("coeffs_p") is None else len(np.asarray(call["coeffs_p"], dtype=float).reshape(-1))
        npts = len(np.asarray(call["points"], dtype=float)) if np.ndim(call["points"]) else 0
        ctx.count(["pot", _call_witness(call), route], nontrivial=label != "malformed" and ns + (np_ or 0) >= 2 and npts > 0,
                  tag="pot:" + (label if label == "malformed" else "reject" if itag != "ok" else f"s{ns}p{'-' if np_ is None else np_}"))
        if label.startswith("mixed:"):
            for kd in label.split(":")[1].split("+"):
                ctx.tagc("pot:kind:" + kd)
        elif label != "malformed":
            ctx.tagc("pot:kind:" + label.split(":")[0])
        for extra in ("tight", "int", "far", "far-base", "scaled", "special"):
            if label.endswith(":" + extra):
                ctx.tagc("pot:class:" + extra)
        ctx.tagc("pot:route:" + route)
        w = dict(_call_witness(call), route=route)
        if itag != mtag:
            ctx.fail("corr", "coulomb_potential" + (":malformed" if label == "malformed" else ""),
                     f"coulomb_potential ({label}, via {route}): implementation {itag}, generated model {mtag or 'unmodelled'}", witness=w)
            continue
        if itag2 != itag or (itag == "ok" and not np.array_equal(v, v2, equal_nan=True)):
            ctx.fail("corr", "coulomb_potential:repeat", f"coulomb_potential called twice with the same objects ({label}; {route} then another route): "
                     f"{itag} {None if v is None else v.tolist()} then {itag2} {None if v2 is None else v2.tolist()}", witness=w)
        if _snapshot(objs) != snap:
            ctx.fail("corr", "coulomb_potential:inputs-modified", f"coulomb_potential modified one of its arguments ({label})", witness=w)
        if itag != "ok":
            continue
        mshape, mv = t.vec(), t.fvec()
        scale = _pot_scale(cb, call)
        ok = isinstance(v, np.ndarray) and v.dtype == np.float64 and list(v.shape) == mshape and len(mv) == len(v) \
            and all(close(float(a), b, rtol=RTOL, scale=max(float(sc), abs(b))) for a, b, sc in zip(v, mv, scale)) \
            and not any(isinstance(o, np.ndarray) and np.shares_memory(v, o) for o in objs)
        if not ok:
            ctx.fail("corr", "coulomb_potential", f"coulomb_potential ({label}, via {route}): implementation {v.tolist()} "
                     f"[{v.dtype}, shape {v.shape}], generated model {mv} [shape {mshape}]", witness=w)
    # outside the model: arguments NumPy cannot convert to a float array must raise ValueError / TypeError, never return
    P = np.zeros((2, 3)); S = np.zeros((1, 3))
    for kw in (dict(points=[[0, 0, 0], [1, 2]], centers_s=S, coeffs_s=[1.0], alphas_s=[1.0]),
               dict(points=P, centers_s=S, coeffs_s=["a"], alphas_s=[1.0]),
               dict(points=P, centers_s=S, coeffs_s=[1.0], alphas_s=["x"]),
               dict(points=P, centers_s=S, coeffs_s=[1.0], alphas_s=[1.0], centers_p=S, coeffs_p=[[1.0], [1.0, 2.0]], alphas_p=[1.0])):
        ctx.count(["pot-unconvertible", sorted(kw)], nontrivial=False, tag="pot:unconvertible")
        try:
            cb.coulomb_potential(**kw)
            ctx.fail("corr", "coulomb_potential:malformed", f"call with an argument NumPy cannot convert was not rejected: {sorted(kw)}")
        except (ValueError, TypeError):
            pass


# ---- round 3: far-away frames, scaled coefficients, special points ------------------------------
def _far_molecule(ctx: Ctx, thr, e=None):
    """A small set of s / p Gaussians and evaluation points around them on the dyadic grid u = 2^(e-50), |coordinates| <= 6,
    and a shift T with components in {0, +-2^(e-1), +-2^e, +-3*2^(e-1)} (e = 6..20): every coordinate of the shifted
    arrays is exactly representable and (point + T) - (centre + T) == point - centre bit for bit.  Tight exponents:
    the points sit at sqrt(alpha) r from 1e-3 to 10 (rounded to the grid), on the centres themselves, on the origin
    of the unshifted frame, and anywhere.  Returns dict(base=args, far=args, T=..., e=...), args as float lists."""
    e = e if e is not None else ctx.rng.randint(6, 20)
    u = 2.0 ** (e - 50)

    def dy(x):
        return round(x / u) * u

    def gset(k):
        centres = [[dy(ctx.rng.uniform(-2, 2)) for _ in range(3)] for _ in range(k)]
        if k >= 2 and ctx.rng.random() < 0.35:
            centres[1] = list(centres[0])  # coincident centres
        coeffs = [ctx.rng.choice([1.0, -1.0, 0.5, 2.0, ctx.rng.uniform(-3, 3), 0.0]) for _ in range(k)]
        alphas = [10.0 ** (ctx.rng.uniform(4, 14) if ctx.rng.random() < 0.75 else ctx.rng.uniform(-3, 3)) for _ in range(k)]
        return centres, coeffs, alphas

    ks = ctx.rng.choice([1, 1, 2, 3])
    kp = ctx.rng.choice([None, None, 0, 1, 2])
    cs, co, al = gset(ks)
    cp, cop, alp = gset(kp or 0)
    pts = []
    for ctr, a in list(zip(cs, al)) + list(zip(cp, alp)):
        for _ in range(ctx.rng.choice([1, 2])):
            rr = 10.0 ** ctx.rng.uniform(-3, 1) / math.sqrt(a)
            d = [ctx.rng.gauss(0, 1) for _ in range(3)]
            if ctx.rng.random() < 0.3:
                d[ctx.rng.randrange(3)] = 0.0
                d[ctx.rng.randrange(3)] = 0.0  # on an axis through the centre (or on the centre)
            nrm = math.sqrt(sum(x * x for x in d)) or 1.0
            d = [dy(rr * x / nrm) for x in d]
            r2 = sum(x * x for x in d)
            if 0 < r2 < (2 * thr) ** 2 and a * r2 > 1e-12:
                d = [0.0, 0.0, 0.0]  # below the switch the code returns the limit value: inside its accuracy envelope only
            pts.append([c + x for c, x in zip(ctr, d)])
        if ctx.rng.random() < 0.5:
            pts.append(list(ctr))  # exactly on the centre
    pts.append([0.0, 0.0, 0.0])  # origin of the unshifted frame
    pts.append([dy(ctx.rng.uniform(-4, 4)) for _ in range(3)])
    T = [ctx.rng.choice([0.0, 1.0, -1.0, 0.5, -0.5, 1.5, -1.5]) * 2.0 ** e for _ in range(3)]
    if not any(T):
        T[ctx.rng.randrange(3)] = 2.0 ** e
    sh = lambda rows: [[x + t for x, t in zip(row, T)] for row in rows]  # noqa: E731
    base = dict(points=pts, centers_s=cs, coeffs_s=co, alphas_s=al, centers_p=None, coeffs_p=None, alphas_p=None)
    far = dict(points=sh(pts), centers_s=sh(cs), coeffs_s=co, alphas_s=al, centers_p=None, coeffs_p=None, alphas_p=None)
    if kp is not None:
        base.update(centers_p=cp, coeffs_p=cop, alphas_p=alp)
        far.update(centers_p=sh(cp), coeffs_p=cop, alphas_p=alp)
    # the construction is exact: shifting back recovers every coordinate
    for k in ("points", "centers_s", "centers_p"):
        if base[k] is not None:
            assert [[x - t for x, t in zip(row, T)] for row in far[k]] == base[k], "far-frame construction is not exact"
    return dict(base=base, far=far, T=T, e=e)


def _args_to_call(args, normalized, kinds=None):
    call = {}
    for i, nme in enumerate(POT_NAMES):
        v = args.get(nme)
        if v is None:
            continue
        arr = np.array(v, dtype=float).reshape(-1, 3) if nme in ("points", "centers_s", "centers_p") else np.array(v, dtype=float).reshape(-1)
        call[nme] = _as_kind(arr, kinds[i]) if kinds else arr
    call["normalized"] = normalized
    return call


def _special_pot_args(ctx: Ctx, thr):
    """Class 12: special points / degenerate sets of the multi-centre routine (float lists; all exponents positive
    unless stated)."""
    a1, a2 = 10.0 ** ctx.rng.uniform(-2, 3), 10.0 ** ctx.rng.uniform(6, 12)
    R = [round(ctx.rng.uniform(-3, 3), 2) for _ in range(3)]
    Q = [round(ctx.rng.uniform(-3, 3), 2) for _ in range(3)]
    none_p = dict(centers_p=None, coeffs_p=None, alphas_p=None)
    empty_p = dict(centers_p=[], coeffs_p=[], alphas_p=[])
    P3_ = [R, Q, [0.0, 0.0, 0.0], [R[0], 0.0, 0.0], [0.0, R[1], R[2]]]
    out = [
        # empty centre sets: with / without points, p None / empty / given
        ("empty-s-none-p", dict(points=P3_, centers_s=[], coeffs_s=[], alphas_s=[], **none_p)),
        ("empty-s-empty-p", dict(points=P3_, centers_s=[], coeffs_s=[], alphas_s=[], **empty_p)),
        ("empty-s-some-p", dict(points=P3_, centers_s=[], coeffs_s=[], alphas_s=[], centers_p=[R], coeffs_p=[1.5], alphas_p=[a1])),
        ("some-s-empty-p", dict(points=P3_, centers_s=[R], coeffs_s=[1.5], alphas_s=[a1], **empty_p)),
        ("no-points", dict(points=[], centers_s=[R, Q], coeffs_s=[1.0, 2.0], alphas_s=[a1, a2], centers_p=[R], coeffs_p=[1.0], alphas_p=[a1])),
        ("nothing-at-all", dict(points=[], centers_s=[], coeffs_s=[], alphas_s=[], **empty_p)),
        # a single point exactly on the single centre, centre not at the origin; the origin when the centre is elsewhere
        ("point-on-centre", dict(points=[R], centers_s=[R], coeffs_s=[0.75], alphas_s=[a2], centers_p=[R], coeffs_p=[-0.5], alphas_p=[a2])),
        ("origin-centre-elsewhere", dict(points=[[0.0, 0.0, 0.0]], centers_s=[R], coeffs_s=[2.0], alphas_s=[a1], **none_p)),
        ("all-points-on-centres", dict(points=[R, Q, R, Q], centers_s=[R, Q], coeffs_s=[1.0, -2.0], alphas_s=[a1, a2], centers_p=[Q, R], coeffs_p=[0.5, 0.25], alphas_p=[a2, a1])),
        # several coincident centres (same and different exponents), also between the s and the p set
        ("coincident-3x-same", dict(points=P3_, centers_s=[R, R, R], coeffs_s=[0.5, 0.5, 0.5], alphas_s=[a1, a1, a1], **none_p)),
        ("coincident-different-alpha", dict(points=P3_, centers_s=[R, R, Q, R], coeffs_s=[1.0, -1.0, 2.0, 0.25], alphas_s=[a1, a2, a1, 3.0], centers_p=[R, R], coeffs_p=[1.0, 1.0], alphas_p=[a1, a2])),
        ("coincident-cancelling", dict(points=P3_, centers_s=[R, R], coeffs_s=[1.0, -1.0], alphas_s=[a1, a1], **none_p)),
        # zero coefficients: all, some, with tight exponents; -0.0
        ("zero-coefficients-all", dict(points=P3_, centers_s=[R, Q], coeffs_s=[0.0, 0.0], alphas_s=[a1, a2], centers_p=[Q], coeffs_p=[0.0], alphas_p=[a2])),
        ("zero-coefficients-some", dict(points=P3_, centers_s=[R, Q, R], coeffs_s=[0.0, 1.25, -0.0], alphas_s=[a2, a1, a1], centers_p=[Q, R], coeffs_p=[0.0, 2.0], alphas_p=[a1, a2])),
        # a zero coefficient does not excuse a rejected exponent (ValueError: the clause has no instance, the tag is compared)
        ("zero-coefficient-bad-alpha", dict(points=P3_, centers_s=[R, Q], coeffs_s=[1.0, 0.0], alphas_s=[a1, -1.0], **none_p)),
        ("zero-coefficient-bad-alpha-p", dict(points=P3_, centers_s=[R], coeffs_s=[1.0], alphas_s=[a1], centers_p=[Q], coeffs_p=[0.0], alphas_p=[0.0])),
        ("no-points-bad-alpha", dict(points=[], centers_s=[R], coeffs_s=[1.0], alphas_s=[-2.0], **none_p)),
        # one point, one shell away: the radius equals the switch threshold along an axis (centre at the origin: exact)
        ("threshold-shell", dict(points=[[thr, 0.0, 0.0], [0.0, -thr, 0.0], [0.0, 0.0, thr * 1.01], [thr / 1.01, 0.0, 0.0], [100 * thr, 0, 0], [0, thr / 100, 0]],
                                 centers_s=[[0.0, 0.0, 0.0]], coeffs_s=[1.0], alphas_s=[a1], centers_p=[[0.0, 0.0, 0.0]], coeffs_p=[1.0], alphas_p=[a1])),
    ]
    return out


SCALES = [2.0 ** -900, 2.0 ** -166, 1e-50, 1e-12, 2.0 ** -40, 2.0 ** 40, 1e12, 2.0 ** 100, 2.0 ** 900]


def _gen_pot_cases_r3(ctx: Ctx, thr, n):
    """Round-3 classes for the correspondence of the GENERATED coulomb_potential: frames far from the origin (class 8),
    coefficients scaled over 1e-271 .. 1e271 (class 8), special points and degenerate sets (class 12)."""
    cases = []
    for i in range(n):
        nz = ctx.rng.random() < 0.6
        route = ctx.rng.choice(["kw", "pos", "allkw"])
        u = i % 3
        if u == 0:
            m = _far_molecule(ctx, thr, e=6 + (i // 3) % 15)
            kinds = None if ctx.rng.random() < 0.6 else [ctx.rng.choice(("f64", "list", "tuple", "strided", "fortran", "readonly")) for _ in range(7)]
            cases.append((_args_to_call(m["far"], nz, kinds), route, "f64:far"))
            cases.append((_args_to_call(m["base"], nz, kinds), route, "f64:far-base"))
        elif u == 1:
            ks, kp = ctx.rng.choice([1, 2, 3]), ctx.rng.choice([None, 1, 2])
            cs, co, al = _rand_gaussians(ctx, ks)
            if ctx.rng.random() < 0.5:
                al = [10.0 ** ctx.rng.uniform(-12, 12) for _ in al]
            k = ctx.rng.choice(SCALES)
            args = dict(points=[[ctx.rng.uniform(-3, 3) for _ in range(3)] for _ in range(3)] + [list(cs[0])], centers_s=cs,
                        coeffs_s=[(c or 1.0) * k for c in co], alphas_s=al, centers_p=None, coeffs_p=None, alphas_p=None)
            if kp:
                cp, cop, alp = _rand_gaussians(ctx, kp)
                args.update(centers_p=cp, coeffs_p=[(c or 1.0) * k for c in cop], alphas_p=alp)
            cases.append((_args_to_call(args, nz), route, "f64:scaled"))
    for nz in (True, False):
        for name, args in _special_pot_args(ctx, thr):
            cases.append((_args_to_call(args, nz), ctx.rng.choice(["kw", "pos", "allkw"]), "f64:special"))
    return cases


# ---- loader ----------------------------------------------------------------------------------
def _variants(ctx: Ctx, sym):
    pads = ["", " ", "  ", "\t", "\n", "\x0b", "\x0c", "\r", "\x1c", "\x1f", " \t "]
    out = {sym, sym.lower(), sym.upper(), sym.swapcase()}
    for _ in range(2):
        out.add(ctx.rng.choice(pads) + ctx.rng.choice([sym, sym.lower(), sym.upper()]) + ctx.rng.choice(pads))
    return sorted(out)


def _impl_load(cb, e):
    try:
        c, a = cb.load_atomic_gaussian_params(e)
        return ("ok", (c, a))
    except ValueError:
        return ("value-error", None)
    except TypeError:
        return ("type-error", None)
    except KeyError:
        return ("key-error", None)
    except AttributeError:
        return ("attribute-error", None)
    except OSError:
        return ("os-error", None)


def _expected_load(e, utils, raw_float):
    """The documented contract of load_atomic_gaussian_params, from the JSON file and grid.utils only:
    ('ok', coeffs, alphas) | ('value-error',) | ('type-error',)."""
    if isinstance(e, str):
        sym = e.strip().title()
        sym = sym if sym in utils.sym2num else None
    elif isinstance(e, (int, np.integer)):  # bool is an int
        sym = utils.num2sym.get(int(e))
    else:
        return ("type-error",)
    if sym is None or sym not in raw_float:
        return ("value-error",)
    return ("ok", np.array(raw_float[sym]["coeffs_s"], dtype=float), np.array(raw_float[sym]["alphas_s"], dtype=float))


def _py_expr(e):
    """Python source that rebuilds the object (for witnesses / snippets); None if not expressible."""
    if isinstance(e, (str, bool, int, float, type(None), bytes, complex)):
        return repr(e)
    if isinstance(e, np.generic):
        return f"np.{type(e).__name__}({e.item()!r})"
    if isinstance(e, (list, tuple)) and all(isinstance(x, (int, float, str)) for x in e):
        return repr(e)
    return None


def _load_line(e, cold):
    """Driver op for one loader call, or None when the object is outside the model (non-ASCII text)."""
    st = "cold" if cold else "warm"
    if isinstance(e, (bool, np.bool_)):
        return f"C17.load {st} bool {int(e)}" if isinstance(e, bool) else f"C17.load {st} other"
    if isinstance(e, str):
        if any(ord(ch) >= 128 for ch in e):
            return None
        return f"C17.load {st} str " + " ".join([str(len(e))] + [str(ord(ch)) for ch in e])
    if isinstance(e, int):
        return f"C17.load {st} int {e}"
    if isinstance(e, np.integer):
        return f"C17.load {st} npint {int(e)}"
    return f"C17.load {st} other"


def _cache_flag(cb, raw_float):
    c = cb._ATOMIC_GAUSS_PARAMS_CACHE
    if c is None:
        return 0
    return 1 if c == raw_float else 2


def _corr_loader(ctx: Ctx, cb, utils, raw):
    raw_float = {k: {kk: [float(x) for x in vv] for kk, vv in v.items()} for k, v in raw.items()}
    reqs = []
    np_ints = [np.int64, np.int32, np.uint8, np.int16, np.uint64, np.intp]
    for z, sym in utils.num2sym.items():
        reqs.append(int(z))
        if int(z) <= 20 or ctx.rng.random() < 0.15:
            reqs.append(ctx.rng.choice(np_ints)(int(z)))
        for v in _variants(ctx, sym):
            reqs.append(v)
    reqs += [0, -1, -17, 119, 120, 10**6, 2**70, -2**70, 10**30, np.int64(0), np.int64(-3), np.int64(119), np.uint8(200), np.int64(2**62),
             True, False, np.bool_(True), np.bool_(False),
             1.0, 2.0, np.float64(1.0), np.float32(6.0), None, [1], (1,), b"H", 1 + 0j, {"H": 1}, np.array(1), np.array([1]), np.array("H"), object()]
    reqs += [" h ", "HE", "he", "h", "H", " H", "H ", "cl", "CL", " cL\n", "Cl", "c", "C", " o", "N\t", "xe", "Xe", "og", "OG"]
    junk = ["", " ", "Xx", "Qq", "H2", "Hydrogen", "h e", "H-", "1", "cl1", "C l", "c\tl", "  ", "A", "zz", "He\x00", "\x1cO\x1d",
            "hE", "ClCl", "O.", "_N", "n_", "h\x00", "\x00h", "c-l", "C1", "1c"]
    for _ in range(ctx.n(40, 1500)):
        L = ctx.rng.randrange(0, 5)
        junk.append("".join(chr(ctx.rng.choice([32, 9, 10, 72, 104, 69, 101, 67, 99, 76, 108, 79, 111, 78, 110, 49, 45, 95,
                                                   ctx.rng.randrange(0, 128)])) for _ in range(L)))
    reqs += junk
    # history: shuffled, with repeats of the elements that have parameters, other elements in between
    stored = list(raw)
    for _ in range(ctx.n(60, 800)):
        s0 = ctx.rng.choice(stored)
        reqs.append(ctx.rng.choice([s0, s0.lower(), f" {s0.upper()} ", int(utils.sym2num[s0]), np.int64(utils.sym2num[s0])]))
    ctx.rng.shuffle(reqs)
    saved = cb._ATOMIC_GAUSS_PARAMS_CACHE
    try:
        # run the implementation as one history, recording the cache state before every call
        hist = []
        for k, e in enumerate(reqs):
            if k == 0 or ctx.rng.random() < 0.07:
                cb._ATOMIC_GAUSS_PARAMS_CACHE = None  # cold start
            cold = cb._ATOMIC_GAUSS_PARAMS_CACHE is None
            itag, iv = _impl_load(cb, e)
            res = None
            if itag == "ok":
                res = (np.array(iv[0], dtype=float, copy=True), np.array(iv[1], dtype=float, copy=True), iv[0].dtype, iv[1].dtype,
                       iv[0].ndim, iv[1].ndim, type(iv[0]), type(iv[1]))
                # the caller edits what it was given: must not leak into any later load
                for arr in iv:
                    if isinstance(arr, np.ndarray) and arr.flags.writeable:
                        arr[...] = -7.0
            hist.append((e, cold, itag, res, _cache_flag(cb, raw_float)))
    finally:
        cb._ATOMIC_GAUSS_PARAMS_CACHE = saved
    lines, idx = [], []
    for k, (e, cold, _, _, _) in enumerate(hist):
        ln = _load_line(e, cold)
        if ln is not None:
            idx.append(k)
            lines.append(ln)
    answers = dict(zip(idx, driver_batch(lines)))
    for k, (e, cold, itag, res, flag) in enumerate(hist):
        label = type(e).__name__
        is_key = isinstance(e, str) and e in raw
        ctx.count(["load", label, repr(e), cold], nontrivial=(not is_key) or cold, tag=f"load:{label}:{'cold' if cold else 'warm'}:{itag}")
        w = {"element": repr(e), "element_py": _py_expr(e), "type": label, "cache_before": "None" if cold else "filled", "position_in_history": k}
        # stateless reference: the JSON file and grid.utils
        exp = _expected_load(e, utils, raw_float)
        if exp[0] != itag:
            ctx.fail("corr", "load_atomic_gaussian_params:vs-file", f"load_atomic_gaussian_params({e!r}) [{label}] (call {k} of a history, cache "
                     f"{'empty' if cold else 'filled'} before): {itag}, the file and grid.utils say {exp[0]}", witness=w)
        elif itag == "ok":
            good = np.array_equal(res[0], exp[1]) and np.array_equal(res[1], exp[2]) \
                and res[2] == np.float64 and res[3] == np.float64 and res[4] == 1 and res[5] == 1 and res[6] is np.ndarray and res[7] is np.ndarray
            if not good:
                ctx.fail("corr", "load_atomic_gaussian_params:vs-file", f"load_atomic_gaussian_params({e!r}) (call {k} of a history, cache "
                         f"{'empty' if cold else 'filled'} before): returned arrays are not (coeffs_s, alphas_s) of the file entry", witness=w)
        if k not in answers:
            continue
        t = Tokens(answers[k])
        mtag = t.tok()
        if mtag == "ok":
            mc, ma = t.fvec(), t.fvec()
        mflag = int(t.tok()) if not t.done() else None
        if itag != mtag:
            ctx.fail("corr", "load_atomic_gaussian_params", f"load_atomic_gaussian_params({e!r}) [{label}], cache {'empty' if cold else 'filled'} "
                     f"before: implementation {itag}, generated model {mtag}", witness=w)
            continue
        if flag != mflag:
            ctx.fail("corr", "load_atomic_gaussian_params:cache", f"load_atomic_gaussian_params({e!r}) [{label}], cache {'empty' if cold else 'filled'} "
                     f"before: module cache afterwards is {['None', 'the file', 'something else'][flag]}, generated model says "
                     f"{['None', 'the file', 'something else'][mflag] if mflag is not None else '?'}", witness=w)
        if itag == "ok":
            if len(mc) != len(res[0]) or len(ma) != len(res[1]) or \
                    not all(close(float(a), b, rtol=4e-16) for a, b in zip(res[0], mc)) or \
                    not all(close(float(a), b, rtol=4e-16) for a, b in zip(res[1], ma)):
                ctx.fail("corr", "load_atomic_gaussian_params", f"load_atomic_gaussian_params({e!r}): arrays differ from the generated loader on the generated table",
                         witness=w)
    # non-ASCII text is outside the model: pinned on the Python side (never an element)
    for bad in ("ö", "ß", "ǅ", "ﬁ", "１", "Ｈ", "н", "H​", " H ", " C"):
        itag, iv = _impl_load(cb, bad)
        want = "ok" if bad.strip().title() in raw else "value-error"
        ctx.count(["load", "non-ascii", bad], nontrivial=False, tag="load:non-ascii")
        if itag != want:
            ctx.fail("corr", "load_atomic_gaussian_params:non-ascii", f"element={bad!r} answered {itag}, expected {want}")


# ----------------------------------------------------------------------------
# oracle: the property on the implementation against mpmath
# ----------------------------------------------------------------------------
def _mp():
    import mpmath as mp

    mp.mp.dps = 30
    return mp


def _density(mp, kind, a, normalized):
    """The *documented* densities (docstrings of coulomb_gaussian_s / coulomb_gaussian_p)."""
    if kind == "s":
        pre = (a / mp.pi) ** mp.mpf("1.5") if normalized else mp.mpf(1)
        return lambda s: pre * mp.exp(-a * s * s)
    pre = mp.mpf(2) / 3 * a ** mp.mpf("2.5") / mp.pi ** mp.mpf("1.5") if normalized else mp.mpf(1)
    return lambda s: pre * s * s * mp.exp(-a * s * s)


def _breaks(mp, lo, hi, L):
    pts = [lo]
    for k in (0.5, 1, 2, 3, 4, 6, 8, 12, 16):
        x = lo + k * L
        if x < hi:
            pts.append(x)
    pts.append(hi)
    return pts


def _ref_potential(kind, alpha, r, normalized):
    """Electrostatic potential of the documented spherical density at radius r:
    (1/r) int_0^r 4 pi s^2 rho ds + int_r^inf 4 pi s rho ds   (mpmath quadrature)."""
    mp = _mp()
    a, r = mp.mpf(alpha), mp.mpf(r)
    rho = _density(mp, kind, a, normalized)
    L = 1 / mp.sqrt(a)
    inner = mp.mpf(0)
    if r > 0:
        inner = mp.quad(lambda s: 4 * mp.pi * s * s * rho(s), _breaks(mp, mp.mpf(0), r, L)) / r
    outer = mp.quad(lambda s: 4 * mp.pi * s * rho(s), _breaks(mp, r, mp.inf, L))
    return inner + outer


def _total_charge(kind, alpha, normalized):
    mp = _mp()
    a = mp.mpf(alpha)
    rho = _density(mp, kind, a, normalized)
    return mp.quad(lambda s: 4 * mp.pi * s * s * rho(s), _breaks(mp, mp.mpf(0), mp.inf, 1 / mp.sqrt(a)))


SNIPPET_POT = """import warnings; warnings.filterwarnings('ignore')
import mpmath as mp
from grid.coulomb import coulomb_gaussian_{kind} as f
mp.mp.dps = 30
kind, alpha, r, normalized = {kind!r}, {alpha!r}, {r!r}, {normalized!r}
a, R = mp.mpf(alpha), mp.mpf(r)
if kind == 's':
    pre = (a / mp.pi) ** mp.mpf('1.5') if normalized else 1
    rho = lambda s: pre * mp.exp(-a * s * s)                     # documented density
else:
    pre = mp.mpf(2) / 3 * a ** mp.mpf('2.5') / mp.pi ** mp.mpf('1.5') if normalized else 1
    rho = lambda s: pre * s * s * mp.exp(-a * s * s)             # documented density
L = 1 / mp.sqrt(a)
inner = mp.quad(lambda s: 4 * mp.pi * s * s * rho(s), [0, min(R, L), R]) / R if R > 0 else 0
outer = mp.quad(lambda s: 4 * mp.pi * s * rho(s), [R, R + L, R + 4 * L, R + 12 * L, mp.inf])
ref = inner + outer                                             # Coulomb potential of that density
got = float(f(r, alpha, normalized=normalized)[0])
assert abs(got - ref) <= 1e-9 * abs(ref), f'coulomb_gaussian_{{kind}}(r={{r}}, alpha={{alpha}}, normalized={{normalized}}) = {{got}}, potential of the documented density = {{mp.nstr(ref, 17)}} (ratio {{mp.nstr(got / ref, 8)}})'
"""

SNIPPET_LOAD = """import warnings; warnings.filterwarnings('ignore')
import json, numpy as np
from importlib.resources import files
from grid.coulomb import load_atomic_gaussian_params
from grid.utils import num2sym
raw = json.load(open(files('grid.data').joinpath('atomic_gauss_params.json')))
for z, sym in num2sym.items():
    for e in (sym, z):
        try:
            c, a = load_atomic_gaussian_params(e); got = 'ok'
        except ValueError:
            got = 'ValueError'
        if sym in raw:
            assert got == 'ok' and len(c) == len(a) > 0 and np.all(a > 0), f'{{e!r}}: {{got}}'
            assert np.array_equal(c, np.array(raw[sym]['coeffs_s'], float)) and np.array_equal(a, np.array(raw[sym]['alphas_s'], float)), f'{{e!r}}: arrays differ from the file'
        else:
            assert got == 'ValueError', f'{{e!r}} has no parameters but was not rejected'
"""


SNIPPET_MULTI = """import warnings; warnings.filterwarnings('ignore')
import numpy as np
from grid.coulomb import coulomb_potential, coulomb_gaussian_s, coulomb_gaussian_p
conv = {conv}
args = {args!r}
normalized = {normalized!r}
shp = lambda k, x: x.reshape(-1, 3) if k in ('points', 'centers_s', 'centers_p') else x.reshape(-1)
A = {{k: (None if v is None else conv(k, shp(k, np.array(v, dtype=float)))) for k, v in args.items()}}
P = np.array(args['points'], dtype=float).reshape(-1, 3)
want = np.zeros(len(P))
for kind, f in (('s', coulomb_gaussian_s), ('p', coulomb_gaussian_p)):
    if args.get('coeffs_' + kind) is None:
        continue
    for c, a, ctr in zip(args['coeffs_' + kind], args['alphas_' + kind], args['centers_' + kind]):
        r = np.sqrt(((P - np.array(ctr, dtype=float)) ** 2).sum(axis=1))
        want = want + c * f(r, a, normalized=normalized)            # coefficient-weighted sum of the single-centre functions
got = coulomb_potential(**A, normalized=normalized)
again = coulomb_potential(**A, normalized=normalized)
scale = 1 + np.abs(want)
assert got.shape == (len(P),) and np.all(np.abs(got - want) <= 1e-9 * scale * (1 + sum(len(args[k]) for k in args if k.startswith('coeffs') and args[k] is not None))), f'coulomb_potential = {{got.tolist()}}, coefficient-weighted sum of the single-centre functions = {{want.tolist()}}'
assert np.array_equal(got, again), 'second call with the same arguments differs'
"""
CONVS = {
    "f64": "lambda k, x: x",
    "f32": "lambda k, x: x.astype(np.float32)",
    "list": "lambda k, x: x.tolist() if len(x) else x",   # an empty list cannot carry the shape (0, 3)
    "fortran-strided": "lambda k, x: np.asfortranarray(np.repeat(x, 2, axis=0))[::2]",
}


def _check_pot_property(ctx: Ctx, cb, args, normalized, where, mp_check=False):
    """The property clause 'the multi-centre routine is the coefficient-weighted sum of these over all s and p
    functions' at one input, with the arguments handed over in several container kinds. `args`: float lists / None."""
    P = np.array(args["points"], dtype=float).reshape(-1, 3)
    found = False
    for cname, csrc in CONVS.items():
        conv = eval(csrc)  # noqa: S307 - our own constant table
        vals = {k: (None if v is None else (np.array(v, dtype=float).reshape(-1, 3) if k in ("points", "centers_s", "centers_p")
                                             else np.array(v, dtype=float).reshape(-1))) for k, v in args.items()}
        if cname == "f32":  # the reference is evaluated on the values the implementation receives
            vals = {k: (None if v is None else v.astype(np.float32).astype(float)) for k, v in vals.items()}
            Pv = vals["points"].reshape(-1, 3)
        else:
            Pv = P
        want = np.zeros(len(Pv))
        nf = 1
        A = {k: (None if v is None else conv(k, v)) for k, v in vals.items()}
        with np.errstate(all="ignore"):
            try:
                for kind, f in (("s", cb.coulomb_gaussian_s), ("p", cb.coulomb_gaussian_p)):
                    if vals.get("coeffs_" + kind) is None:
                        continue
                    for c, a, ctr in zip(vals["coeffs_" + kind], vals["alphas_" + kind], vals["centers_" + kind]):
                        nf += 1
                        want = want + c * f(np.sqrt(((Pv - ctr) ** 2).sum(axis=1)), a, normalized=normalized)
            except ValueError:
                continue  # an exponent <= 0: not an instance of the clause
            try:
                got = cb.coulomb_potential(**A, normalized=normalized)
                again = cb.coulomb_potential(**A, normalized=normalized)
            except Exception as e:  # noqa: BLE001
                found = True
                ctx.fail("oracle", "coulomb.coulomb_potential",
                         f"coulomb_potential ({where}; arguments as {cname}) raised {type(e).__name__}: {e} on well-shaped arguments with positive exponents; "
                         f"the coefficient-weighted sum of the single-centre functions is {want.tolist()}",
                         witness={"args": {k: (None if v is None else np.asarray(v).tolist()) for k, v in vals.items()}, "normalized": normalized, "container": cname},
                         snippet=SNIPPET_MULTI.format(conv=csrc, args={k: (None if v is None else np.asarray(v).tolist()) for k, v in vals.items()},
                                                      normalized=normalized))
                break
        bad = got.shape != (len(Pv),) or bool(np.any(np.abs(got - want) > 1e-9 * (1 + np.abs(want)) * nf)) or not np.array_equal(got, again)
        if bad:
            found = True
            ctx.fail("oracle", "coulomb.coulomb_potential",
                     f"coulomb_potential ({where}; arguments as {cname}) = {np.asarray(got).tolist()}, but the coefficient-weighted sum of the "
                     f"single-centre functions over all s and p functions is {want.tolist()}" + ("" if np.array_equal(got, again) else " (and a second call differs)"),
                     witness={"args": {k: (None if v is None else np.asarray(v).tolist()) for k, v in vals.items()}, "normalized": normalized, "container": cname},
                     snippet=SNIPPET_MULTI.format(conv=csrc, args={k: (None if v is None else np.asarray(v).tolist()) for k, v in vals.items()},
                                                  normalized=normalized))
            break
    if mp_check and not found and args.get("coeffs_p") is None and len(args["coeffs_s"]):
        co, al, cs = args["coeffs_s"], args["alphas_s"], args["centers_s"]
        with np.errstate(all="ignore"):
            try:
                got = cb.coulomb_potential(P, np.array(cs, float).reshape(-1, 3), np.array(co, float), np.array(al, float), normalized=normalized)
            except ValueError:
                return found
        mp = _mp()
        refv = [sum(c * _ref_potential("s", a, float(np.linalg.norm(p - np.array(ctr))), normalized) for c, a, ctr in zip(co, al, cs)) for p in P]
        mag = [sum(abs(c) * abs(_ref_potential("s", a, float(np.linalg.norm(p - np.array(ctr))), normalized)) for c, a, ctr in zip(co, al, cs)) for p in P]
        if any(abs(g - rv) > 1e-9 * (m + mp.mpf(10) ** -300) for g, rv, m in zip(got, refv, mag)):
            found = True
            ctx.fail("oracle", "coulomb.coulomb_potential", f"coulomb_potential (s functions only; {where}) differs from the sum of the Coulomb integrals of the documented densities: "
                     f"{got.tolist()} vs {[mp.nstr(x, 15) for x in refv]}",
                     witness={"args": args, "normalized": normalized})
    return found


SNIPPET_LOAD_ONE = """import warnings; warnings.filterwarnings('ignore')
import json, numpy as np
from importlib.resources import files
import grid.coulomb as cb
from grid.utils import num2sym, sym2num
raw = json.load(open(files('grid.data').joinpath('atomic_gauss_params.json')))
history = {history}      # (element, force the module cache to None before the call?)
for e, cold in history:
    if cold:
        cb._ATOMIC_GAUSS_PARAMS_CACHE = None
    if isinstance(e, str):
        sym = e.strip().title(); sym = sym if sym in sym2num else None; want = 'ValueError'
    elif isinstance(e, (int, np.integer)):
        sym = num2sym.get(int(e)); want = 'ValueError'
    else:
        sym = None; want = 'TypeError'
    try:
        c, a = cb.load_atomic_gaussian_params(e); got = 'ok'
    except (ValueError, TypeError) as ex:
        got = type(ex).__name__
    if sym in raw:
        assert got == 'ok', f'{{e!r}}: {{got}}, the file has parameters for {{sym}}'
        assert isinstance(c, np.ndarray) and isinstance(a, np.ndarray) and c.shape == a.shape == (len(raw[sym]['alphas_s']),) and np.all(a > 0), f'{{e!r}}: not matching arrays of positive exponents'
        assert np.array_equal(c, np.array(raw[sym]['coeffs_s'], float)) and np.array_equal(a, np.array(raw[sym]['alphas_s'], float)), f'{{e!r}}: arrays differ from the file entry {{sym}} (coeffs_s, alphas_s)'
        c[...] = -7.0; a[...] = -7.0      # the caller may do what it likes with its arrays
    else:
        assert got == want, f'{{e!r}}: {{got}}, expected {{want}}'
"""


SNIPPET_LOAD_KEPT = """import warnings; warnings.filterwarnings('ignore')
import json, numpy as np
from importlib.resources import files
import grid.coulomb as cb
import grid.utils as utils
raw = json.load(open(files('grid.data').joinpath('atomic_gauss_params.json')))
maps = (dict(utils.sym2num), dict(utils.num2sym))
history = {history}      # (element, force the module cache to None before the call?)
for e, cold in history:
    if cold:
        cb._ATOMIC_GAUSS_PARAMS_CACHE = None
    try:
        cb.load_atomic_gaussian_params(e)
    except (ValueError, TypeError):
        pass
    c = cb._ATOMIC_GAUSS_PARAMS_CACHE
    assert c is None or c == raw, f'after load_atomic_gaussian_params({{e!r}}) the module cache differs from the file: keys {{sorted(set(c) ^ set(raw))[:5]}}'
    assert (dict(utils.sym2num), dict(utils.num2sym)) == maps, 'grid.utils.sym2num / num2sym changed'
"""


def _fails_fresh(snippet: str) -> bool:
    """Does the snippet raise in a fresh interpreter importing the same tree?"""
    import subprocess
    import sys
    pre = f"import sys; sys.path.insert(0, {str(SRC.parent)!r})\n"
    try:
        return subprocess.run([sys.executable, "-c", pre + snippet], capture_output=True, timeout=120, cwd="/").returncode != 0
    except Exception:  # noqa: BLE001
        return False


def _cache_differs(cache, raw):
    """the module cache against the content of the JSON file; robust against entries that became arrays, views, other containers"""
    try:
        if not isinstance(cache, dict) or set(cache) != set(raw):
            return True
        for k, v in raw.items():
            cv = cache[k]
            if not isinstance(cv, dict) or set(cv) != set(v):
                return True
            for kk, vv in v.items():
                a, b = cv[kk], vv
                # by value: a list that became an array with the same numbers is not a changed table
                if not np.array_equal(np.asarray(a, dtype=float), np.asarray(b, dtype=float)):
                    return True
        return False
    except Exception:  # noqa: BLE001
        return True


def _check_load_history(ctx: Ctx, cb, utils, raw_float, history, where):
    """The property clause 'every shipped per-element parameter set loads as matching arrays of positive exponents'
    (and unknown / ill-typed elements are rejected) along a history of calls. history: [(element, cold?)]."""
    saved = cb._ATOMIC_GAUSS_PARAMS_CACHE
    try:
        for k, (e, cold) in enumerate(history):
            if cold:
                cb._ATOMIC_GAUSS_PARAMS_CACHE = None
            exp = _expected_load(e, utils, raw_float)
            maps = (dict(utils.sym2num), dict(utils.num2sym))
            tag, arrs = _impl_load(cb, e)
            ok = tag == exp[0]
            # round 3 (class 9): what the library keeps is not changed by a call, whatever key was asked for
            cache = cb._ATOMIC_GAUSS_PARAMS_CACHE
            if ok and ((cache is not None and _cache_differs(cache, raw_float)) or (dict(utils.sym2num), dict(utils.num2sym)) != maps):
                what = "the module cache _ATOMIC_GAUSS_PARAMS_CACHE is no longer the content of atomic_gauss_params.json" if (cache is not None and _cache_differs(cache, raw_float)) \
                    else "grid.utils.sym2num / num2sym were changed"
                extra = sorted(set(cache) - set(raw_float)) if isinstance(cache, dict) else None
                hsrc = "[" + ", ".join(f"({_py_expr(x)}, {c_})" for x, c_ in history[:k + 1]) + "]" if all(_py_expr(x) is not None for x, _ in history[:k + 1]) else None
                ctx.fail("oracle", "coulomb.load_atomic_gaussian_params:kept-state",
                         f"after load_atomic_gaussian_params({e!r}) ({where}; call {k + 1} of the history {[repr(x) for x, _ in history[:k + 1]][-6:]}) {what}"
                         + (f" (new keys: {extra[:5]})" if extra else ""),
                         witness={"element": repr(e), "history": [[repr(x), c_] for x, c_ in history[:k + 1]]},
                         snippet=None if hsrc is None else SNIPPET_LOAD_KEPT.format(history=hsrc))
                return True
            if ok and tag == "ok":
                c, a = arrs
                ok = isinstance(c, np.ndarray) and isinstance(a, np.ndarray) and c.ndim == 1 and c.shape == a.shape and len(a) > 0 \
                    and bool(np.all(a > 0)) and np.array_equal(c, exp[1]) and np.array_equal(a, exp[2])
                for arr in arrs:
                    if isinstance(arr, np.ndarray) and arr.flags.writeable:
                        arr[...] = -7.0
            if not ok:
                sym = e.strip().title() if isinstance(e, str) else (utils.num2sym.get(int(e)) if isinstance(e, (int, np.integer)) else None)
                key = f"data:atomic_gauss_params:{sym}" if (sym in raw_float and tag != "ok" and k == 0) else \
                    "coulomb.load_atomic_gaussian_params:" + ("history" if k > 0 else exp[0] if exp[0] != "ok" else "arrays")
                # a self-contained history that fails in a fresh interpreter (the state of this process may
                # have been shaped by earlier calls): tried in this order, the first that fails is the replay
                cands = [history[:k + 1], [(e, True), (e, False), (e, False)], [(e, False)]]
                hist_src = None
                for cand in cands:
                    if any(_py_expr(x) is None for x, _ in cand):
                        continue
                    src = "[" + ", ".join(f"({_py_expr(x)}, {c_})" for x, c_ in cand) + "]"
                    hist_src = hist_src or src
                    if _fails_fresh(SNIPPET_LOAD_ONE.format(history=src)):
                        hist_src = src
                        break
                ctx.fail("oracle", key,
                         f"load_atomic_gaussian_params({e!r}) ({where}; call {k + 1} of the history {[repr(x) for x, _ in history[:k + 1]][-6:]}, module cache "
                         f"{'forced to None' if cold else 'as left by the previous call'}): {tag}"
                         + (" with arrays that are not the (coeffs_s, alphas_s) of the file entry / not matching arrays of positive exponents" if tag == exp[0] else f", expected {exp[0]}")
                         + f"; self-contained history: {hist_src}",
                         witness={"element": repr(e), "history": [[repr(x), c_] for x, c_ in history[:k + 1]], "replay_history": hist_src},
                         snippet=SNIPPET_LOAD_ONE.format(history=hist_src or "[]"))
                return True
    finally:
        cb._ATOMIC_GAUSS_PARAMS_CACHE = saved
    return False


def oracle_at(ctx: Ctx, failure):
    """Evaluate the property at an input on which model and implementation disagreed."""
    w = failure.witness or {}
    if not isinstance(w, dict):
        return
    cb = importlib.import_module("grid.coulomb")
    if failure.key.startswith("coulomb_potential") and "points" in w:
        args = {n: w.get(n) for n in POT_NAMES}
        if any(isinstance(v, str) for v in args.values()) or args["points"] is None:
            return
        try:
            ok_shapes = np.array(args["points"], float).ndim == 2 and np.array(args["centers_s"], float).ndim == 2
        except ValueError:
            return
        if ok_shapes:
            _check_pot_property(ctx, cb, args, bool(w.get("normalized", True)), "input on which the model and the implementation disagree", mp_check=True)
        return
    if failure.key.startswith("load_atomic_gaussian_params") and w.get("element_py"):
        utils = importlib.import_module("grid.utils")
        raw_float = {k: {kk: [float(x) for x in vv] for kk, vv in v.items()} for k, v in _json_tables().items()}
        e = eval(w["element_py"], {"np": np})  # noqa: S307 - produced by _py_expr
        for hist in ([(e, w.get("cache_before") == "None")], [(e, True), (e, False)], [("H", True), (e, False), ("h", False), (e, False)]):
            if _check_load_history(ctx, cb, utils, raw_float, hist, "input on which the model and the implementation disagree"):
                break
        return
    if not ({"r", "alpha", "normalized"} <= set(w)) or not failure.key.startswith("coulomb_gaussian_"):
        return
    kind = failure.key.split("_")[2][:1]
    if kind not in ("s", "p"):
        return
    mp = _mp()
    if isinstance(w["r"], list):
        return
    r, a, nz = float(w["r"]), float(w["alpha"]), bool(w["normalized"])
    fn = {"s": cb.coulomb_gaussian_s, "p": cb.coulomb_gaussian_p}[kind]
    # the value as the property sees it: through every route / container the disagreement may depend on
    routes = [("float", lambda: fn(r, a, normalized=nz)), ("positional", lambda: fn(r, a, nz)), ("list", lambda: fn([r], a, normalized=nz)),
              ("2-D array", lambda: fn(np.array([[r]]), a, normalized=nz)), ("int alpha", (lambda: fn(r, int(a), normalized=nz)) if a == int(a) else None),
              ("np.float64", lambda: fn(np.float64(r), np.float64(a), normalized=nz))]
    if nz:
        routes.append(("default normalized", lambda: fn(r, a)))
    if float(np.float32(r)) == r:
        routes.append(("float32 array", lambda: fn(np.array([r], dtype=np.float32), a, normalized=nz)))
    if r == int(r) and abs(r) < 2**53:
        routes.append(("int", lambda: fn(int(r), a, normalized=nz)))
    got, via = None, None
    A, R = mp.mpf(a), mp.mpf(r)
    if kind == "s":
        ref = _ref_potential("s", a, r, nz)
    else:
        # the p-type function is a listed finding (wrong constants); a deviation from the formula its
        # own docstring states is a different defect and is reported under its own key
        ref = (mp.erf(mp.sqrt(A) * R) / R if r > 0 else 2 * mp.sqrt(A / mp.pi)) + mp.mpf(4) / 3 * mp.sqrt(A / mp.pi) * mp.exp(-A * R * R)
        if not nz:
            ref *= mp.mpf(3) / 2 * mp.pi ** mp.mpf("1.5") / A ** mp.mpf("2.5")
    for name, call in routes:
        if call is None:
            continue
        with np.errstate(all="ignore"):
            try:
                g = float(np.asarray(call()).reshape(-1)[0])
            except Exception:  # noqa: BLE001
                continue
        if abs(g - ref) > 1e-10 * abs(ref):
            got, via = g, name
            break
    if got is None:
        return
    call_src = {"float": "f(r, a, normalized=nz)", "positional": "f(r, a, nz)", "list": "f([r], a, normalized=nz)", "2-D array": "f(np.array([[r]]), a, normalized=nz)",
                "int alpha": "f(r, int(a), normalized=nz)", "np.float64": "f(np.float64(r), np.float64(a), normalized=nz)", "default normalized": "f(r, a)",
                "float32 array": "f(np.array([r], dtype=np.float32), a, normalized=nz)", "int": "f(int(r), a, normalized=nz)"}[via]
    if kind == "s":
        ctx.fail("oracle", "coulomb.coulomb_gaussian_s",
                 f"coulomb_gaussian_s(r={r!r}, alpha={a!r}, normalized={nz}) [argument as {via}] = {got!r}, but the Coulomb potential of the documented density is {mp.nstr(ref, 17)}",
                 witness={"r": r, "alpha": a, "normalized": nz, "got": got, "reference": mp.nstr(ref, 20), "route": via},
                 snippet=SNIPPET_POT.format(kind="s", alpha=a, r=r, normalized=nz).replace("got = float(f(r, alpha, normalized=normalized)[0])",
                                                                                             "import numpy as np; a, nz = alpha, normalized\ngot = float(np.asarray(" + call_src + ").reshape(-1)[0])"))
    else:
        ctx.fail("oracle", "coulomb.coulomb_gaussian_p:vs-documented-formula",
                 f"coulomb_gaussian_p(r={r!r}, alpha={a!r}, normalized={nz}) [argument as {via}] = {got!r} deviates from the formula stated in its own docstring, {mp.nstr(ref, 17)} "
                 "(beyond the listed finding about that formula's constants)",
                 witness={"r": r, "alpha": a, "normalized": nz, "got": got, "documented_formula": mp.nstr(ref, 20), "route": via},
                 snippet=("import mpmath as mp, numpy as np\nfrom grid.coulomb import coulomb_gaussian_p as f\nmp.mp.dps = 40\n"
                          f"a, r, nz = {a!r}, {r!r}, {nz}\nA, R = mp.mpf(a), mp.mpf(r)\n"
                          "doc = (mp.erf(mp.sqrt(A)*R)/R if r > 0 else 2*mp.sqrt(A/mp.pi)) + mp.mpf(4)/3*mp.sqrt(A/mp.pi)*mp.exp(-A*R*R)\n"
                          "doc = doc if nz else doc*mp.mpf(3)/2*mp.pi**mp.mpf('1.5')/A**mp.mpf('2.5')\n"
                          f"got = float(np.asarray({call_src}).reshape(-1)[0])\nassert abs(got - doc) <= 1e-10*abs(doc), (got, doc)\n"))


# ----------------------------------------------------------------------------
# round 3: the oracle itself samples far-away frames, scaled coefficients, special points, the switch window
# ----------------------------------------------------------------------------
def _ref_s_scaled(alpha, r, normalized):
    """Coulomb potential of the documented s density by the substitution s = t / sqrt(alpha) (the density is
    (alpha/pi)^{3/2} e^{-t^2}): V_alpha(r) = sqrt(alpha) V_1(sqrt(alpha) r), times (pi/alpha)^{3/2} when unnormalised.
    V_1 is the mpmath Coulomb integral at exponent 1 -- well conditioned for exponents of any magnitude."""
    mp = _mp()
    a, R = mp.mpf(alpha), mp.mpf(r)
    v1 = _ref_potential("s", 1.0, mp.sqrt(a) * R, True)
    return mp.sqrt(a) * v1 * (1 if normalized else (mp.pi / a) ** mp.mpf("1.5"))


SNIPPET_S_SCALED = """import warnings; warnings.filterwarnings('ignore')
import mpmath as mp
from grid.coulomb import coulomb_gaussian_s as f
mp.mp.dps = 30
alpha, r, normalized = {alpha!r}, {r!r}, {normalized!r}
a, R = mp.mpf(alpha), mp.mpf(r)
x = mp.sqrt(a) * R                                              # t = sqrt(alpha) s: density (alpha/pi)^(3/2) exp(-t^2)
rho1 = lambda t: mp.pi ** mp.mpf('-1.5') * mp.exp(-t * t)
inner = mp.quad(lambda t: 4 * mp.pi * t * t * rho1(t), [0, min(x, 1), x]) / x if x > 0 else 0
outer = mp.quad(lambda t: 4 * mp.pi * t * rho1(t), [x, x + 1, x + 4, x + 12, mp.inf])
ref = mp.sqrt(a) * (inner + outer) * (1 if normalized else (mp.pi / a) ** mp.mpf('1.5'))
got = float(f(r, alpha, normalized=normalized)[0])
assert abs(got - ref) <= {tol!r} * abs(ref), f'coulomb_gaussian_s(r={{r}}, alpha={{alpha}}, normalized={{normalized}}) = {{got}}, potential of the documented density = {{mp.nstr(ref, 17)}} (relative deviation {{mp.nstr(abs(got - ref) / abs(ref), 4)}})'
"""

SNIPPET_FAR = """import warnings; warnings.filterwarnings('ignore')
import mpmath as mp, numpy as np
from grid.coulomb import coulomb_potential, coulomb_gaussian_s, coulomb_gaussian_p
mp.mp.dps = 40
args = {args!r}          # every coordinate is an exactly representable double
normalized = {normalized!r}
A = {{k: (None if v is None else (np.array(v, dtype=float).reshape(-1, 3) if k in ('points', 'centers_s', 'centers_p') else np.array(v, dtype=float))) for k, v in args.items()}}
got = coulomb_potential(**A, normalized=normalized)
want = np.zeros(len(args['points'])); scale = np.zeros(len(args['points']))
for kind, f in (('s', coulomb_gaussian_s), ('p', coulomb_gaussian_p)):
    if args.get('coeffs_' + kind) is None:
        continue
    for c, a, ctr in zip(args['coeffs_' + kind], args['alphas_' + kind], args['centers_' + kind]):
        # |point - centre| in exact arithmetic from the doubles handed to the library
        r = np.array([float(mp.sqrt(sum((mp.mpf(x) - mp.mpf(y)) ** 2 for x, y in zip(pt, ctr)))) for pt in args['points']])
        v = f(r, a, normalized=normalized) if len(r) else np.zeros(0)
        want = want + c * v; scale = scale + abs(c) * np.abs(v)    # coefficient-weighted sum of the single-centre functions
assert got.shape == want.shape and np.all(np.abs(got - want) <= {tol!r} * scale + 1e-300), f'coulomb_potential = {{got.tolist()}}; sum_k c_k V_k(|x - R_k|) with the exact distances = {{want.tolist()}} (sum of magnitudes {{scale.tolist()}})'
"""


def _exact_dist(mp, pts, ctr):
    return np.array([float(mp.sqrt(sum((mp.mpf(x) - mp.mpf(y)) ** 2 for x, y in zip(pt, ctr)))) for pt in pts], dtype=float)


def _pot_reference_exact(cb, args, normalized, s_closed_form=False):
    """sum_k c_k V_k(|x - R_k|) with the distances computed in exact (40-digit) arithmetic from the doubles given, V_k the
    single-centre functions of the library ('the coefficient-weighted sum of these'); with `s_closed_form` the s terms are
    mpmath's erf(sqrt(a) r)/r -- the Coulomb integral of the documented density by GridVerif.C17.s_closed_form_is_coulomb_integral
    (limit 2 sqrt(a/pi) at r = 0, s_origin_is_coulomb_integral).  Returns (want, scale) or None if an exponent is rejected."""
    import mpmath
    mp = _mp()
    pts = args["points"]
    want, scale = np.zeros(len(pts)), np.zeros(len(pts))
    with mpmath.workdps(40), np.errstate(all="ignore"):
        for kind, f in (("s", cb.coulomb_gaussian_s), ("p", cb.coulomb_gaussian_p)):
            if args.get("coeffs_" + kind) is None:
                continue
            for c, a, ctr in zip(args["coeffs_" + kind], args["alphas_" + kind], args["centers_" + kind]):
                if not len(pts):
                    if not a > 0:
                        return None
                    continue
                if kind == "s" and s_closed_form:
                    if not a > 0:
                        return None
                    A = mp.mpf(a)
                    fac = 1 if normalized else (mp.pi / A) ** mp.mpf("1.5")
                    v = []
                    for pt in pts:
                        R = mp.sqrt(sum((mp.mpf(x) - mp.mpf(y)) ** 2 for x, y in zip(pt, ctr)))
                        v.append(float(fac * (mp.erf(mp.sqrt(A) * R) / R if R > 0 else 2 * mp.sqrt(A / mp.pi))))
                    v = np.array(v)
                else:
                    try:
                        v = f(_exact_dist(mp, pts, ctr), a, normalized=normalized)
                    except ValueError:
                        return None
                want = want + c * v
                scale = scale + abs(c) * np.abs(v)
    return want, scale


def _call_pot_lists(cb, args, normalized):
    A = {k: (None if v is None else (np.array(v, dtype=float).reshape(-1, 3) if k in ("points", "centers_s", "centers_p")
                                     else np.array(v, dtype=float).reshape(-1))) for k, v in args.items()}
    with np.errstate(all="ignore"):
        return cb.coulomb_potential(**A, normalized=normalized)


def _check_pot_exact(ctx: Ctx, cb, args, normalized, where, tol=1e-12, s_closed_form=False, expect=None):
    """coulomb_potential on float64 arrays against the exact-distance reference (and against `expect`, a list of
    exactly known values, when given).  True if a failure was recorded."""
    ref = _pot_reference_exact(cb, args, normalized, s_closed_form=s_closed_form)
    try:
        got = _call_pot_lists(cb, args, normalized)
        again = _call_pot_lists(cb, args, normalized)
    except ValueError as e:
        if ref is None:
            return False  # an exponent <= 0: rejected, as it must be
        ctx.fail("oracle", "coulomb.coulomb_potential", f"coulomb_potential ({where}) raised ValueError: {e} on well-shaped arguments with positive exponents",
                 witness={"args": args, "normalized": normalized}, snippet=SNIPPET_FAR.format(args=args, normalized=normalized, tol=tol))
        return True
    except Exception as e:  # noqa: BLE001
        ctx.fail("oracle", "coulomb.coulomb_potential", f"coulomb_potential ({where}) raised {type(e).__name__}: {e}",
                 witness={"args": args, "normalized": normalized}, snippet=SNIPPET_FAR.format(args=args, normalized=normalized, tol=tol))
        return True
    if ref is None:
        ctx.fail("oracle", "coulomb.coulomb_potential:guards", f"coulomb_potential ({where}) accepted a set with an exponent <= 0 and returned {np.asarray(got).tolist()}",
                 witness={"args": args, "normalized": normalized},
                 snippet=("import numpy as np\nfrom grid.coulomb import coulomb_potential\n" f"args = {args!r}\n"
                          "A = {k: (None if v is None else (np.array(v, dtype=float).reshape(-1, 3) if k in ('points', 'centers_s', 'centers_p') else np.array(v, dtype=float))) for k, v in args.items()}\n"
                          f"try:\n    coulomb_potential(**A, normalized={normalized})\nexcept ValueError:\n    pass\nelse:\n    raise AssertionError('an exponent <= 0 was accepted')\n"))
        return True
    want, scale = ref
    bad = (not isinstance(got, np.ndarray)) or got.shape != want.shape or got.dtype != np.float64 \
        or bool(np.any(np.abs(got - want) > tol * scale + 1e-300)) or not np.array_equal(got, again, equal_nan=True)
    if not bad and expect is not None:
        bad = bool(np.any(np.abs(got - np.array(expect, dtype=float)) > tol * scale + 1e-300))
        want = np.array(expect, dtype=float) if bad else want
    if bad:
        ctx.fail("oracle", "coulomb.coulomb_potential",
                 f"coulomb_potential ({where}; normalized={normalized}) = {np.asarray(got).tolist()} [shape {list(np.shape(got))}], but the coefficient-weighted sum of the "
                 f"single-centre potentials at the exact distances |x - R_k| is {want.tolist()} [shape {list(want.shape)}] (tolerance {tol:g} x sum of magnitudes {scale.tolist()})",
                 witness={"args": args, "normalized": normalized, "got": np.asarray(got).tolist(), "reference": want.tolist()},
                 snippet=SNIPPET_FAR.format(args=args, normalized=normalized, tol=tol))
    return bad


def _oracle_round3(ctx: Ctx, cb, utils, thr, large, parts=None):
    parts = parts or _Parts(ctx, "oracle")
    mp = _mp()
    ctx.info("C17 envelopes measured on the pinned tree (round 3): small-r branch (0 < r < 1e-12) exact to alpha r^2/3, sampled for alpha r^2 <= 3e-11; "
             f"unnormalised prefactors inside the double range for alpha in {UNNORMALISED_ENVELOPE}; far frames: shifts up to 1.5 x 2^20 with offsets on the grid 2^(e-50)")
    def part_far_frames():
        # (g) class 8: frames far from the origin with tight exponents.  The shifted call must give the potential of the same
        #     molecule: equal to the exact-distance reference AND to the unshifted call (the shift is exactly representable,
        #     so are all shifted coordinates: the only thing that changes is where the molecule sits).
        for i in range(45 if large else 10):
            m = _far_molecule(ctx, thr, e=6 + i % 15 if i < 15 else None)
            nz = ctx.rng.random() < 0.7
            where = f"molecule shifted by T={m['T']} (2^{m['e']} frame, dyadic offsets)"
            ctx.tagc("oracle:far-frame")
            if _check_pot_exact(ctx, cb, m["far"], nz, where, s_closed_form=(i % 2 == 0)):
                continue
            if _check_pot_exact(ctx, cb, m["base"], nz, "the same molecule around the origin", s_closed_form=(i % 2 == 0)):
                continue
            v0, v1 = _call_pot_lists(cb, m["base"], nz), _call_pot_lists(cb, m["far"], nz)
            _, scale = _pot_reference_exact(cb, m["base"], nz)
            if np.any(np.abs(v1 - v0) > 1e-12 * scale + 1e-300):
                ctx.fail("oracle", "coulomb.coulomb_potential", f"coulomb_potential is not invariant under the exactly representable common shift T={m['T']} of points and "
                         f"centres: {v1.tolist()} (shifted) vs {v0.tolist()} (around the origin)",
                         witness={"base": m["base"], "shifted": m["far"], "T": m["T"], "normalized": nz},
                         snippet=SNIPPET_FAR.format(args=m["far"], normalized=nz, tol=1e-12))

    def part_scaled():
        # (h) class 8: coefficients scaled by k over 1e-271 .. 1e271 -- the result is k times the unscaled one, relative to
        #     that scale (powers of two: exactly), exponents over 24 orders of magnitude
        for i in range(30 if large else 6):
            ks, kp = ctx.rng.choice([1, 2, 3]), ctx.rng.choice([None, 1, 2])
            cs, co, al = _rand_gaussians(ctx, ks)
            al = [10.0 ** ctx.rng.uniform(-12, 12) for _ in al] if i % 2 else al
            co = [c or 1.0 for c in co]
            args = dict(points=[[ctx.rng.uniform(-3, 3) for _ in range(3)] for _ in range(3)] + [list(cs[0])], centers_s=cs, coeffs_s=co, alphas_s=al,
                        centers_p=None, coeffs_p=None, alphas_p=None)
            if kp:
                cp, cop, alp = _rand_gaussians(ctx, kp)
                args.update(centers_p=cp, coeffs_p=[c or 1.0 for c in cop], alphas_p=alp)
            nz = ctx.rng.random() < 0.6
            k = SCALES[i % len(SCALES)]
            ctx.tagc("oracle:scaled-coefficients")
            scaled = dict(args, coeffs_s=[c * k for c in args["coeffs_s"]], coeffs_p=None if args["coeffs_p"] is None else [c * k for c in args["coeffs_p"]])
            if _check_pot_exact(ctx, cb, scaled, nz, f"coefficients scaled by {k!r}"):
                continue
            v0, v1 = _call_pot_lists(cb, args, nz), _call_pot_lists(cb, scaled, nz)
            _, scale = _pot_reference_exact(cb, args, nz)
            if np.any(np.abs(v1 - k * v0) > 1e-12 * k * scale):
                ctx.fail("oracle", "coulomb.coulomb_potential", f"coulomb_potential with all coefficients multiplied by {k!r} is not {k!r} x the unscaled result: "
                         f"{v1.tolist()} vs {(k * v0).tolist()}", witness={"args": scaled, "scale": k, "normalized": nz},
                         snippet=SNIPPET_FAR.format(args=scaled, normalized=nz, tol=1e-12))

    def part_special():
        # (i) class 12: special points and degenerate sets, with the values known in closed form where there is one
        for nz in (True, False):
            for name, args in _special_pot_args(ctx, thr):
                npts = len(args["points"])
                expect = None
                ctx.tagc("oracle:special:" + name)
                if name in ("empty-s-none-p", "empty-s-empty-p", "nothing-at-all", "zero-coefficients-all", "coincident-cancelling"):
                    expect = [0.0] * npts
                if name == "no-points":
                    expect = []
                if _check_pot_exact(ctx, cb, args, nz, f"special input '{name}'", expect=expect, s_closed_form=True):
                    continue
                if name == "coincident-3x-same":  # three times the same function = 3 x 0.5 x one function
                    one = dict(args, centers_s=args["centers_s"][:1], coeffs_s=[1.5], alphas_s=args["alphas_s"][:1])
                    v3, v1 = _call_pot_lists(cb, args, nz), _call_pot_lists(cb, one, nz)
                    if np.any(np.abs(v3 - v1) > 1e-13 * np.abs(v1)):
                        ctx.fail("oracle", "coulomb.coulomb_potential", f"three coincident identical s functions with coefficient 0.5 give {v3.tolist()}, one with coefficient 1.5 gives {v1.tolist()}",
                                 witness={"args": args, "normalized": nz}, snippet=SNIPPET_FAR.format(args=args, normalized=nz, tol=1e-12))

    def part_on_centre():
        # a point on the centre of one normalised s function, any frame: c * 2 sqrt(alpha/pi) (Coulomb integral at r = 0)
        for _ in range(6 if large else 2):
            a = 10.0 ** ctx.rng.uniform(-6, 12)
            R = [ctx.rng.choice([1.0, -1.0, 3.0]) * 2.0 ** ctx.rng.randint(-3, 20) for _ in range(3)]
            c = ctx.rng.uniform(-2, 2)
            args = dict(points=[R], centers_s=[R], coeffs_s=[c], alphas_s=[a], centers_p=None, coeffs_p=None, alphas_p=None)
            v0 = float(c * _ref_s_scaled(a, 0.0, True))
            _check_pot_exact(ctx, cb, args, True, "one point on the centre of one s function", expect=[v0], tol=1e-10, s_closed_form=True)

    def part_switch_window():
        # (j) class 7: the s function on both sides of the switch within factors 1.01 and 100, and exponents of extreme
        #     magnitude, against the Coulomb integral (rescaled variable).  Below the switch the code returns the r -> 0 limit:
        #     exact to alpha r^2 / 3 (GridVerif.C17.s_origin) -- sampled where that is below 1e-11 (alpha r^2 <= 3e-11); the
        #     unnormalised variant where its prefactor is inside the double range.
        alphas = [1.0, 1e-6, 1e6, 1e10, 3e12, 10.0 ** ctx.rng.uniform(-10, 12), 10.0 ** ctx.rng.uniform(6, 13)] + (EXTREME_ALPHAS if large else [1e-300, 1e-120, 1e120, 1e300, 1.7976931348623157e308])
        for a in alphas:
            sa = math.sqrt(a)
            radii = [thr / 100, thr / 1.01, float(np.nextafter(thr, 0)), thr, thr * 1.01, thr * 100, 0.0]
            radii += [x / sa for x in (1e-3, 0.7, 3.0, 9.0)]
            for r in radii:
                if 0 < r < thr and a * r * r > 3e-11:
                    continue  # outside the accuracy envelope of the small-r branch (reported, not asserted)
                for nz in (True, False):
                    if not nz and not _unnormalised_in_range("s", a):
                        continue
                    ref = _ref_s_scaled(a, r, nz)
                    ctx.tagc("oracle:s:" + ("below-switch" if 0 < r < thr else "r=0" if r == 0 else "near-switch" if r <= 100 * thr else "bulk")
                             + (":extreme-alpha" if not 1e-20 < a < 1e20 else ""))
                    with np.errstate(all="ignore"):
                        got = float(cb.coulomb_gaussian_s(r, a, normalized=nz)[0])
                    if not abs(got - ref) <= 1e-10 * abs(ref):
                        ctx.fail("oracle", "coulomb.coulomb_gaussian_s",
                                 f"coulomb_gaussian_s(r={r!r}, alpha={a!r}, normalized={nz}) = {got!r}, but the Coulomb potential of the documented density is "
                                 f"{mp.nstr(ref, 17)} (relative deviation {mp.nstr(abs(got - ref) / abs(ref), 4)})",
                                 witness={"r": r, "alpha": a, "normalized": nz, "got": got, "reference": mp.nstr(ref, 20)},
                                 snippet=SNIPPET_S_SCALED.format(alpha=a, r=r, normalized=nz, tol=1e-10))

    def part_unknown_keys():
        # (k) class 9: the loader asked for keys it has no parameters for (elements without an entry, non-elements, objects of the
        #     wrong type), repeatedly and between successful loads: always the same rejection, and what the library keeps
        #     (the module cache = the parsed file, grid.utils.sym2num / num2sym) is what it was
        raw_float = {k: {kk: [float(x) for x in vv] for kk, vv in v.items()} for k, v in _json_tables().items()}
        stored = list(raw_float)
        missing = [s_ for s_ in utils.sym2num if s_ not in raw_float]
        for _ in range(6 if large else 2):
            m1, m2 = ctx.rng.choice(missing), ctx.rng.choice(missing)
            k1 = ctx.rng.choice(stored)
            hist = [(m1, True), (m1, False), (k1, False), (m1.lower(), False), (int(utils.sym2num[m2]), False), (k1.lower(), False), ("Xx", False), (m2, False),
                    (np.int64(utils.sym2num[m1]), False), (int(utils.sym2num[k1]), False), (0, False), (m1, False), (k1, False)]
            _check_load_history(ctx, cb, utils, raw_float, hist, "keys without parameters between successful loads")

    parts.run("coulomb.coulomb_potential:far-frames", part_far_frames)
    parts.run("coulomb.coulomb_potential:scaled-coefficients", part_scaled)
    parts.run("coulomb.coulomb_potential:special-inputs", part_special)
    parts.run("coulomb.coulomb_potential:on-centre", part_on_centre)
    parts.run("coulomb.coulomb_gaussian_s:switch-window", part_switch_window)
    parts.run("coulomb.load_atomic_gaussian_params:unknown-keys", part_unknown_keys)


# ----------------------------------------------------------------------------
# round 3b: the same argument array reused across calls
# ----------------------------------------------------------------------------
REUSE_VARIANTS = ("plain", "readonly", "strided", "slice-of-larger", "2d", "2d-fortran", "reversed-view", "column-of-matrix")

REUSE_BUILD = """def build(base, variant):
    # -> (array handed to the library, its owner [the array whose memory it shares], is the array writeable?)
    base = np.array(base, dtype=float)
    n = len(base)
    if variant == 'plain':
        a = base.copy(); return a, a
    if variant == 'readonly':
        a = base.copy(); a.setflags(write=False); return a, a
    if variant == 'strided':
        big = np.full(2 * n + 1, 7.25); big[1::2] = base; return big[1::2], big
    if variant == 'slice-of-larger':
        big = np.full(n + 7, 7.25); big[3:3 + n] = base; return big[3:3 + n], big
    if variant == '2d':
        a = base[: n - n % 2].reshape(2, -1).copy(); return a, a
    if variant == '2d-fortran':
        a = np.asfortranarray(base[: n - n % 2].reshape(2, -1)); return a, a
    if variant == 'reversed-view':
        big = base[::-1].copy(); return big[::-1], big
    if variant == 'column-of-matrix':
        big = np.full((n, 3), 7.25); big[:, 1] = base; return big[:, 1], big
    raise KeyError(variant)
"""
exec(REUSE_BUILD)  # noqa: S102 - defines build(); the same text is the head of the replay snippets

SNIPPET_REUSE = """import warnings; warnings.filterwarnings('ignore')
import mpmath as mp, numpy as np
from grid.coulomb import coulomb_gaussian_s, coulomb_gaussian_p
mp.mp.dps = 30
""" + REUSE_BUILD + """
base, variant = {base!r}, {variant!r}
calls = {calls!r}          # (kind, alpha, normalized) in sequence on ONE array object (a contraction on one radial grid)
arr, owner = build(base, variant)
orig, owner0 = arr.copy(), owner.copy()
def closed_form(kind, a, r, nz):
    # s: erf(sqrt(a) r)/r = Coulomb integral of the documented density (limit 2 sqrt(a/pi) at r = 0);
    # p: the formula of the docstring (its constants are a listed finding of their own)
    A, R = mp.mpf(a), mp.mpf(r)
    v = mp.erf(mp.sqrt(A) * R) / R if R > 0 else 2 * mp.sqrt(A / mp.pi)
    if kind == 's':
        return v if nz else v * (mp.pi / A) ** mp.mpf('1.5')
    v += mp.mpf(4) / 3 * mp.sqrt(A / mp.pi) * mp.exp(-A * R * R)
    return v if nz else v * mp.mpf(3) / 2 * mp.pi ** mp.mpf('1.5') / A ** mp.mpf('2.5')
for k, (kind, a, nz) in enumerate(calls):
    f = coulomb_gaussian_s if kind == 's' else coulomb_gaussian_p
    got = f(arr, a, normalized=nz)
    assert got.shape == orig.shape, f'call {{k + 1}}: shape {{got.shape}}'
    for g, r in zip(got.ravel(), orig.ravel()):      # against the radii the caller put into the array
        ref = closed_form(kind, a, r, nz)
        assert abs(g - ref) <= 1e-10 * abs(ref), f'call {{k + 1}} of {{len(calls)}} on the same array: coulomb_gaussian_{{kind}}(r={{r!r}}, alpha={{a!r}}, normalized={{nz}}) = {{g!r}}, closed form {{mp.nstr(ref, 17)}}'
    assert np.array_equal(arr, orig) and np.array_equal(owner, owner0), f'call {{k + 1}}: the array of the caller was modified: {{arr.ravel().tolist()}} (was {{orig.ravel().tolist()}})'
"""

SNIPPET_REUSE_POT = """import warnings; warnings.filterwarnings('ignore')
import mpmath as mp, numpy as np
from grid.coulomb import coulomb_potential, coulomb_gaussian_s, coulomb_gaussian_p
mp.mp.dps = 40
""" + REUSE_BUILD + """
args, variant = {args!r}, {variant!r}
calls = {calls!r}          # (use the p arguments?, normalized) in sequence on the SAME array objects
objs, owners = {{}}, {{}}
for k, v in args.items():
    if k in ('points', 'centers_s', 'centers_p'):
        a, o = build(np.array(v, dtype=float).reshape(-1, 3).ravel(), variant if variant not in ('2d', '2d-fortran', 'column-of-matrix') else 'plain')
        a = a.reshape(-1, 3) if a.flags.c_contiguous or a.ndim > 1 else np.lib.stride_tricks.as_strided(a, shape=(len(v), 3), strides=(3 * a.strides[0], a.strides[0]), writeable=a.flags.writeable)
    else:
        a, o = build(v, variant if variant not in ('2d', '2d-fortran') else 'plain')
    objs[k], owners[k] = a, o
orig = {{k: v.copy() for k, v in objs.items()}}; owners0 = {{k: v.copy() for k, v in owners.items()}}
P = np.array(args['points'], dtype=float).reshape(-1, 3)
for n, (with_p, nz) in enumerate(calls):
    kw = dict(objs) if with_p else {{k: v for k, v in objs.items() if not k.endswith('_p')}}
    got = coulomb_potential(**kw, normalized=nz)
    want = np.zeros(len(P)); scale = np.zeros(len(P))
    for kind, f in (('s', coulomb_gaussian_s), ('p', coulomb_gaussian_p)):
        if kind == 'p' and not with_p:
            continue
        for c, a, ctr in zip(args['coeffs_' + kind], args['alphas_' + kind], args['centers_' + kind]):
            r = np.array([float(mp.sqrt(sum((mp.mpf(x) - mp.mpf(y)) ** 2 for x, y in zip(pt, ctr)))) for pt in args['points']])
            v = f(r, a, normalized=nz); want = want + c * v; scale = scale + abs(c) * np.abs(v)
    assert got.shape == want.shape and np.all(np.abs(got - want) <= 1e-11 * scale + 1e-300), f'call {{n + 1}} on the same argument arrays: coulomb_potential = {{got.tolist()}}, weighted sum at the ORIGINAL coordinates = {{want.tolist()}}'
    for k in objs:
        assert np.array_equal(objs[k], orig[k]) and np.array_equal(owners[k], owners0[k]), f'call {{n + 1}}: the array of the caller {{k}} was modified'
"""


def _closed_form_mp(kind, a, r, nz):
    """s: erf(sqrt(a) r)/r -- the Coulomb integral of the documented density (GridVerif.C17.s_closed_form_is_coulomb_integral; limit
    s_origin_is_coulomb_integral); p: the formula the docstring states (its constants are the listed finding; a deviation from it is
    reported under its own key)."""
    mp = _mp()
    A, R = mp.mpf(a), mp.mpf(r)
    v = mp.erf(mp.sqrt(A) * R) / R if R > 0 else 2 * mp.sqrt(A / mp.pi)
    if kind == "s":
        return v if nz else v * (mp.pi / A) ** mp.mpf("1.5")
    v += mp.mpf(4) / 3 * mp.sqrt(A / mp.pi) * mp.exp(-A * R * R)
    return v if nz else v * mp.mpf(3) / 2 * mp.pi ** mp.mpf("1.5") / A ** mp.mpf("2.5")


def _reuse_base(ctx: Ctx, thr):
    """A radial grid as a caller has it: r[0] = 0, radii below the switch, ordinary radii (14 entries)."""
    return [0.0, 1e-13, 5e-324, thr / 2, float(np.nextafter(thr, 0)), thr, 1e-9, 1e-4, 0.01, 10.0 ** ctx.rng.uniform(-2, 0), 0.5, 1.0,
            ctx.rng.uniform(1, 4), 7.0]


def _reuse_calls(ctx: Ctx, n):
    """A contraction: several exponents (<= 1e8: the small-r branch is exact to rounding there) for s and p on one grid."""
    al = [10.0 ** ctx.rng.uniform(-2, 8) for _ in range(3)] + [1.0]
    return [(ctx.rng.choice("sp") if k else "s", ctx.rng.choice(al), ctx.rng.random() < 0.7) for k in range(n)]


def _check_reuse_scalar(ctx: Ctx, cb, base, variant, calls, where="one radial array reused"):
    """One array object handed to coulomb_gaussian_s / _p several times: every value against the closed form at the ORIGINAL radii,
    the array (and the memory it is a view of) unchanged.  True if a failure was recorded."""
    mp = _mp()
    arr, owner = build(base, variant)  # noqa: F821 - defined by exec(REUSE_BUILD)
    orig, owner0 = arr.copy(), owner.copy()
    snippet = SNIPPET_REUSE.format(base=list(map(float, base)), variant=variant, calls=[(k, float(a), bool(nz)) for k, a, nz in calls])
    for n, (kind, a, nz) in enumerate(calls):
        fn = cb.coulomb_gaussian_s if kind == "s" else cb.coulomb_gaussian_p
        key = f"coulomb.coulomb_gaussian_{kind}:reused-array"
        desc = f"{where} ({variant}; call {n + 1} of {[(k, float(x), z) for k, x, z in calls[:n + 1]]} on the same float64 array object)"
        try:
            with np.errstate(all="ignore"):
                got = fn(arr, a, normalized=nz)
        except Exception as e:  # noqa: BLE001
            ctx.fail("oracle", key, f"{desc}: coulomb_gaussian_{kind} raised {type(e).__name__}: {e} for non-negative radii {orig.ravel().tolist()} and alpha={a!r}",
                     witness={"r": orig.ravel().tolist(), "variant": variant, "calls": calls[:n + 1]}, snippet=snippet)
            return True
        if not isinstance(got, np.ndarray) or got.shape != orig.shape:
            ctx.fail("oracle", key, f"{desc}: result of shape {np.shape(got)} for radii of shape {orig.shape}", witness={"variant": variant}, snippet=snippet)
            return True
        for g, r in zip(got.ravel(), orig.ravel()):
            ref = _closed_form_mp(kind, a, float(r), nz)
            if not abs(float(g) - ref) <= 1e-10 * abs(ref):
                now = float(arr.ravel()[list(orig.ravel()).index(r)])
                ctx.fail("oracle", key,
                         f"{desc}: coulomb_gaussian_{kind} at the caller's radius r={float(r)!r}, alpha={a!r}, normalized={nz} returned {float(g)!r}; the closed form "
                         f"at that radius is {mp.nstr(ref, 17)}" + (f" (the array entry now reads {now!r}: an earlier call overwrote the caller's radius)" if now != float(r) else ""),
                         witness={"r": float(r), "alpha": a, "normalized": nz, "radii": orig.ravel().tolist(), "array_now": arr.ravel().tolist(),
                                  "variant": variant, "calls": calls[:n + 1], "got": float(g), "reference": mp.nstr(ref, 20)}, snippet=snippet)
                return True
    if not (np.array_equal(arr, orig) and np.array_equal(owner, owner0)):
        ctx.fail("oracle", "coulomb.coulomb_gaussian_" + calls[0][0] + ":reused-array",
                 f"{where} ({variant}): after {len(calls)} calls the caller's array reads {arr.ravel().tolist()}, it was {orig.ravel().tolist()}",
                 witness={"radii": orig.ravel().tolist(), "array_now": arr.ravel().tolist(), "variant": variant, "calls": calls}, snippet=snippet)
        return True
    return False


def _build_pot_objs(args, variant):
    """The argument arrays of coulomb_potential as `variant` views (matrices: the flat data built as the variant, then viewed as (N, 3))."""
    objs, owners = {}, {}
    for k, v in args.items():
        if v is None:
            continue
        if k in ("points", "centers_s", "centers_p"):
            a, o = build(np.array(v, dtype=float).reshape(-1, 3).ravel(), variant if variant not in ("2d", "2d-fortran", "column-of-matrix") else "plain")  # noqa: F821
            a = a.reshape(-1, 3) if a.flags.c_contiguous or a.ndim > 1 else np.lib.stride_tricks.as_strided(
                a, shape=(len(v), 3), strides=(3 * a.strides[0], a.strides[0]), writeable=a.flags.writeable)
        else:
            a, o = build(v, variant if variant not in ("2d", "2d-fortran") else "plain")  # noqa: F821
        objs[k], owners[k] = a, o
    return objs, owners


def _check_reuse_pot(ctx: Ctx, cb, args, variant, calls):
    """The same points / centres / coefficient / exponent array objects over several coulomb_potential calls."""
    objs, owners = _build_pot_objs(args, variant)
    orig = {k: v.copy() for k, v in objs.items()}
    owners0 = {k: v.copy() for k, v in owners.items()}
    for k in objs:
        assert np.array_equal(orig[k].ravel(), np.array(args[k], dtype=float).ravel()), "variant construction changed the values"
    snippet = SNIPPET_REUSE_POT.format(args={k: v for k, v in args.items() if v is not None}, variant=variant, calls=calls)
    for n, (with_p, nz) in enumerate(calls):
        kw = dict(objs) if with_p else {k: v for k, v in objs.items() if not k.endswith("_p")}
        sub = dict(args) if with_p else dict(args, centers_p=None, coeffs_p=None, alphas_p=None)
        ref = _pot_reference_exact(cb, sub, nz)
        desc = f"the same argument arrays reused ({variant}; call {n + 1} of {calls[:n + 1]} [(with p arguments, normalized)])"
        try:
            with np.errstate(all="ignore"):
                got = cb.coulomb_potential(**kw, normalized=nz)
        except Exception as e:  # noqa: BLE001
            ctx.fail("oracle", "coulomb.coulomb_potential:reused-arrays", f"{desc}: coulomb_potential raised {type(e).__name__}: {e} on well-shaped arguments with positive exponents",
                     witness={"args": args, "variant": variant, "calls": calls[:n + 1]}, snippet=snippet)
            return True
        want, scale = ref
        if got.shape != want.shape or bool(np.any(np.abs(got - want) > 1e-11 * scale + 1e-300)):
            ctx.fail("oracle", "coulomb.coulomb_potential:reused-arrays",
                     f"{desc}: coulomb_potential = {got.tolist()}, the coefficient-weighted sum of the single-centre potentials at the ORIGINAL coordinates is {want.tolist()}",
                     witness={"args": args, "variant": variant, "calls": calls[:n + 1], "arrays_now": {k: v.tolist() for k, v in objs.items()}}, snippet=snippet)
            return True
        changed = [k for k in objs if not (np.array_equal(objs[k], orig[k]) and np.array_equal(owners[k], owners0[k]))]
        if changed:
            ctx.fail("oracle", "coulomb.coulomb_potential:reused-arrays", f"{desc}: the caller's array(s) {changed} were modified by the call",
                     witness={"args": args, "variant": variant, "calls": calls[:n + 1], "arrays_now": {k: objs[k].tolist() for k in changed}}, snippet=snippet)
            return True
    return False


def _reuse_pot_args(ctx: Ctx, thr):
    ks, kp = ctx.rng.choice([1, 2, 3]), ctx.rng.choice([1, 2])
    cs, co, al = _rand_gaussians(ctx, ks)
    cp, cop, alp = _rand_gaussians(ctx, kp)
    al = [min(a, 1e3) if ctx.rng.random() < 0.5 else 10.0 ** ctx.rng.uniform(3, 8) for a in al]
    near = list(cs[-1]); near[ctx.rng.randrange(3)] += 1e-13
    pts = [list(cs[0]), near, list(cp[0]), [0.0, 0.0, 0.0]] + [[ctx.rng.uniform(-3, 3) for _ in range(3)] for _ in range(2)]
    return dict(points=pts, centers_s=cs, coeffs_s=[c or 1.0 for c in co], alphas_s=al, centers_p=cp, coeffs_p=[c or 0.5 for c in cop], alphas_p=alp)


def _oracle_reuse(ctx: Ctx, cb, thr, large, parts=None):
    parts = parts or _Parts(ctx, "oracle")
    """(l) the same argument array reused across calls (a contraction on one radial grid; one set of point / centre arrays for several
    potentials): float64 arrays with ndim >= 1 reach the library as the caller's own memory."""
    for i, variant in enumerate(REUSE_VARIANTS * (3 if large else 1)):
        ctx.tagc("oracle:reuse:scalar:" + variant)
        parts.run("coulomb.coulomb_gaussian:reused-array", _check_reuse_scalar, ctx, cb, _reuse_base(ctx, thr), variant, _reuse_calls(ctx, 6 if large else 4))
    # the s function then the p function (and the other way round) on one array, same exponent
    for first, second in (("s", "p"), ("p", "s"), ("s", "s"), ("p", "p")):
        ctx.tagc("oracle:reuse:scalar:pair")
        parts.run("coulomb.coulomb_gaussian:reused-array", _check_reuse_scalar, ctx, cb, [0.0, 1e-13, 0.3, 1.0, 2.5], "plain",
                  [(first, 2.0, True), (second, 2.0, True), (first, 0.5, False)])
    for variant in ("plain", "readonly", "strided", "slice-of-larger", "reversed-view") * (2 if large else 1):
        ctx.tagc("oracle:reuse:pot:" + variant)
        calls = [(False, True), (True, True), (True, False), (False, False), (True, True)]
        parts.run("coulomb.coulomb_potential:reused-arrays", _check_reuse_pot, ctx, cb, _reuse_pot_args(ctx, thr), variant, calls[: (5 if large else 4)])


def _corr_reuse(ctx: Ctx, cb, thr):
    """Correspondence side of the same class: one array object through a sequence of calls, every answer against the generated
    closed form (driver) at the original radii; the array unchanged."""
    for variant in REUSE_VARIANTS:
        base = _reuse_base(ctx, thr)
        arr, owner = build(base, variant)  # noqa: F821
        orig, owner0 = arr.copy(), owner.copy()
        calls = _reuse_calls(ctx, 5)
        lines = [f"C17.{kind} {f2b(float(r))} {f2b(a)} {int(nz)}" for kind, a, nz in calls for r in orig.ravel()]
        answers = driver_batch(lines)
        i = 0
        for n, (kind, a, nz) in enumerate(calls):
            fn = cb.coulomb_gaussian_s if kind == "s" else cb.coulomb_gaussian_p
            ctx.count(["reuse", variant, n, kind, a, nz], nontrivial=True, tag=f"{kind}:reuse:{variant}")
            try:
                with np.errstate(all="ignore"):
                    got = fn(arr, a, normalized=nz)
            except Exception as e:  # noqa: BLE001
                ctx.fail("corr", f"coulomb_gaussian_{kind}:reuse", f"coulomb_gaussian_{kind} on a {variant} float64 array (call {n + 1} on the same object) raised {type(e).__name__}: {e}",
                         witness={"radii": orig.ravel().tolist(), "variant": variant, "calls": calls[:n + 1]})
                i += orig.size
                continue
            for g, r in zip(np.asarray(got).ravel(), orig.ravel()):
                tag, t = _ans(answers[i]); i += 1
                if tag != "ok" or not close(float(g), t.flt(), rtol=RTOL):
                    ctx.fail("corr", f"coulomb_gaussian_{kind}:reuse", f"coulomb_gaussian_{kind} on a {variant} float64 array, call {n + 1} on the same object: at the caller's radius "
                             f"{float(r)!r}, alpha={a!r}, normalized={nz} the implementation returned {float(g)!r}, the generated model {t.flt() if tag == 'ok' else tag!r}",
                             witness={"radii": orig.ravel().tolist(), "variant": variant, "calls": calls[:n + 1]})
                    break
        if not (np.array_equal(arr, orig) and np.array_equal(owner, owner0)):
            ctx.fail("corr", "coulomb_gaussian:reuse:input-modified", f"the {variant} radial array was modified by the calls: {arr.ravel().tolist()} (was {orig.ravel().tolist()})",
                     witness={"radii": orig.ravel().tolist(), "variant": variant, "calls": calls})


# ----------------------------------------------------------------------------
# round 4: close consecutive centres, arrays held by grid objects, argument routes, raising calls, shapes 1 / 2 / unequal
# ----------------------------------------------------------------------------
CLOSE_DELTAS = [1e-12, 1e-11, 1e-10, 1e-9, 1e-8, 1e-7, 1e-6, 1e-5, 1e-4, 1e-3]


def _close_centre_args(ctx: Ctx, thr):
    """Consecutive centres that are distinct but close (every quick run): a second centre at R + delta e (absolute) and at
    R (1 + delta) (relative to its coordinates), delta = 1e-12 .. 1e-3, with other coefficients / exponents; a p centre next
    to the last s centre (and exactly on it); finite-difference pairs R +- h/2 e with coefficients +-1/h.  Evaluation points a
    few delta away from the centres (where the two potentials differ in the leading digits), on the centres, and far."""
    out = []

    def unit():
        d = [ctx.rng.gauss(0, 1) for _ in range(3)]
        if ctx.rng.random() < 0.4:
            d = [0.0, 0.0, 0.0]
            d[ctx.rng.randrange(3)] = ctx.rng.choice([1.0, -1.0])
        n = math.sqrt(sum(x * x for x in d))
        return [x / n for x in d]

    def alpha_for(delta):
        # points sit 3..30 delta from a centre: exponents for which that is inside / at the edge of the Gaussian;
        # below 1e-10 the radii reach the small-r switch, where the code is exact to rounding for alpha <= 1e8
        hi = 8.0 if delta <= 1e-10 else min(12.0, -2 * math.log10(delta) - 1)
        return 10.0 ** ctx.rng.uniform(max(-1.0, hi - 4), hi)

    def pts_around(centres, delta):
        pts = []
        for c in centres:
            for m in (3.0, 30.0):
                e = unit()
                pts.append([x + m * delta * y for x, y in zip(c, e)])
        pts.append(list(centres[0]))
        pts.append(list(centres[-1]))
        pts.append([ctx.rng.uniform(-3, 3) for _ in range(3)])
        return pts

    for delta in CLOSE_DELTAS:
        R = [ctx.rng.choice([-1, 1]) * ctx.rng.uniform(0.5, 3) for _ in range(3)]
        e = unit()
        a1, a2 = alpha_for(delta), alpha_for(delta)
        Rabs = [x + delta * y for x, y in zip(R, e)]
        Rrel = [x * (1 + delta) for x in R]
        none_p = dict(centers_p=None, coeffs_p=None, alphas_p=None)
        # absolute / relative neighbour, same and different exponents, three in a row, neighbour first
        out.append((f"abs-{delta:g}", dict(points=pts_around([R, Rabs], delta), centers_s=[R, Rabs], coeffs_s=[1.0, -0.7], alphas_s=[a1, a1], **none_p)))
        out.append((f"rel-{delta:g}", dict(points=pts_around([R, Rrel], delta * 2), centers_s=[R, Rrel], coeffs_s=[0.6, 1.3], alphas_s=[a1, a2], **none_p)))
        out.append((f"three-{delta:g}", dict(points=pts_around([Rabs, R, Rrel], delta), centers_s=[Rabs, R, Rrel, R], coeffs_s=[1.0, 2.0, -1.5, 0.25],
                                             alphas_s=[a1, a2, a1, a2], **none_p)))
        # a p centre next to the last s centre (the p loop starts where the s loop ended), and exactly on it
        out.append((f"p-next-to-last-s-{delta:g}", dict(points=pts_around([R, Rabs], delta), centers_s=[[0.0, 0.0, 0.0], R], coeffs_s=[0.5, 1.0], alphas_s=[a2, a1],
                                                         centers_p=[Rabs, Rrel], coeffs_p=[1.0, -0.5], alphas_p=[a1, a2])))
    R = [1.25, -0.75, 2.0]
    a1 = 10.0 ** ctx.rng.uniform(0, 3)
    out.append(("p-on-last-s", dict(points=pts_around([R], 1e-3), centers_s=[[0.0, 0.0, 0.0], R], coeffs_s=[0.5, 1.0], alphas_s=[2.0, a1],
                                    centers_p=[R, R], coeffs_p=[1.0, -0.5], alphas_p=[a1, 3.0])))
    # finite-difference pairs: d/dR_i of the potential of one function
    for h in (1e-3, 1e-5, 1e-7):
        for ax in range(3):
            R = [ctx.rng.uniform(-2, 2) for _ in range(3)]
            plus, minus = list(R), list(R)
            plus[ax] += h / 2
            minus[ax] -= h / 2
            a = 10.0 ** ctx.rng.uniform(-1, 3)
            pts = [[x + ctx.rng.uniform(-1, 1) / math.sqrt(a) for x in R] for _ in range(3)] + [list(R)]
            out.append((f"fd-pair-h{h:g}-axis{ax}", dict(points=pts, centers_s=[plus, minus], coeffs_s=[1 / h, -1 / h], alphas_s=[a, a],
                                                        centers_p=[minus, plus], coeffs_p=[-1 / h, 1 / h], alphas_p=[a, a])))
    return out


def _shape_pot_args(ctx: Ctx):
    """Class 20: N points, Ks s functions, Kp p functions with unequal sizes, sizes 1 and 2, and the square cases N = 3 / Ks = 3
    (points or centres of shape (3, 3)); the first point on the first centre, the last point on the last centre."""
    out = []
    for N, Ks, Kp in [(1, 2, None), (2, 1, None), (1, 1, 1), (2, 2, 1), (1, 3, 2), (3, 1, 2), (3, 2, 1), (2, 3, 1), (3, 3, None), (3, 3, 3), (4, 3, 2),
                      (3, 4, 1), (1, 4, 3), (4, 1, 3), (2, 5, None), (5, 2, 4), (3, 2, 0), (2, 0, 3), (1, 0, 1), (6, 1, 1)]:
        cs, co, al = _rand_gaussians(ctx, Ks)
        co = [c or 1.0 for c in co]
        pts = [[ctx.rng.uniform(-3, 3) for _ in range(3)] for _ in range(N)]
        args = dict(points=pts, centers_s=cs, coeffs_s=co, alphas_s=al, centers_p=None, coeffs_p=None, alphas_p=None)
        allc = list(cs)
        if Kp is not None:
            cp, cop, alp = _rand_gaussians(ctx, Kp)
            args.update(centers_p=cp, coeffs_p=[c or 0.5 for c in cop], alphas_p=alp)
            allc += cp
        if allc:
            pts[0] = list(allc[0])
            pts[-1] = list(allc[-1])
        out.append((f"N{N}-Ks{Ks}-Kp{Kp}", args))
    return out


R4_KINDS = ("negstride", "bool", "f16", "int32", "readonly", "fortran", "strided", "f32")


def _corr_round4(ctx: Ctx, cb, utils, thr, parts):
    """Correspondence of the GENERATED coulomb_potential on the round-4 classes: close consecutive centres, unequal / small
    shapes, further container kinds (negative stride, bool, float16); scalar functions on radii of shape (1,5) … (2,1,3)."""
    cases = []
    for nz in (True, False):
        for name, args in _close_centre_args(ctx, thr):
            cases.append((_args_to_call(args, nz), ctx.rng.choice(["kw", "pos", "allkw"]), "f64:close-centres"))
    for name, args in _shape_pot_args(ctx):
        cases.append((_args_to_call(args, ctx.rng.random() < 0.5), ctx.rng.choice(["kw", "pos", "allkw"]), "f64:shapes"))
    for _ in range(ctx.n(24, 400)):
        ks, kp = ctx.rng.choice([1, 2, 3]), ctx.rng.choice([None, 1, 2])
        integer = ctx.rng.random() < 0.5
        if integer:  # 0 / 1 valued: exact under bool, int and float16
            cs = [[float(ctx.rng.randint(0, 1)) for _ in range(3)] for _ in range(ks)]
            args = dict(points=[[float(ctx.rng.randint(0, 1)) for _ in range(3)] for _ in range(3)], centers_s=cs, coeffs_s=[1.0] * ks, alphas_s=[1.0] * ks,
                        centers_p=None, coeffs_p=None, alphas_p=None)
            if kp:
                args.update(centers_p=[[float(ctx.rng.randint(0, 1)) for _ in range(3)] for _ in range(kp)], coeffs_p=[1.0] * kp, alphas_p=[1.0] * kp)
            kinds = [ctx.rng.choice(R4_KINDS) for _ in range(7)]
        else:
            cs, co, al = _rand_gaussians(ctx, ks)
            args = dict(points=[[ctx.rng.uniform(-3, 3) for _ in range(3)] for _ in range(4)], centers_s=cs, coeffs_s=co, alphas_s=al, centers_p=None, coeffs_p=None, alphas_p=None)
            if kp:
                cp, cop, alp = _rand_gaussians(ctx, kp)
                args.update(centers_p=cp, coeffs_p=cop, alphas_p=alp)
            kinds = [ctx.rng.choice(("negstride", "readonly", "fortran", "strided", "f64")) for _ in range(7)]
        cases.append((_args_to_call(args, ctx.rng.random() < 0.5, kinds), ctx.rng.choice(["kw", "pos", "allkw"]), "mixed:" + "+".join(sorted(set(kinds)))))
    lines = [_pot_line(c) for c, _, _ in cases]
    answers = driver_batch(lines)
    for (call, route, label), line in zip(cases, answers):
        objs = [call.get(nme) for nme in POT_NAMES]
        snap = _snapshot(objs)
        itag, v = _impl_pot(cb, call, route)
        mtag, t = _ans(line)
        w = dict(_call_witness(call), route=route)
        ctx.count(["pot-r4", w], nontrivial=True, tag="pot:r4:" + label.split(":")[1 if label.startswith("f64:") else 0])
        if label.startswith("mixed:"):
            for kd in label.split(":")[1].split("+"):
                ctx.tagc("pot:kind:" + kd)
        if itag != mtag:
            ctx.fail("corr", "coulomb_potential", f"coulomb_potential ({label}, via {route}): implementation {itag}, generated model {mtag or 'unmodelled'}", witness=w)
            continue
        if _snapshot(objs) != snap:
            ctx.fail("corr", "coulomb_potential:inputs-modified", f"coulomb_potential modified one of its arguments ({label})", witness=w)
        if itag != "ok":
            continue
        mshape, mv = t.vec(), t.fvec()
        scale = _pot_scale(cb, call)
        if not (isinstance(v, np.ndarray) and v.dtype == np.float64 and list(v.shape) == mshape
                and all(close(float(a), b, rtol=RTOL, scale=max(float(sc), abs(b))) for a, b, sc in zip(v, mv, scale))):
            ctx.fail("corr", "coulomb_potential", f"coulomb_potential ({label}, via {route}): implementation {np.asarray(v).tolist()} [shape {np.shape(v)}], "
                     f"generated model {mv} [shape {mshape}]", witness=w)
    # scalar functions: radii of unequal / unit extents -- the driver at every entry, the shape of the input
    fns = {"s": cb.coulomb_gaussian_s, "p": cb.coulomb_gaussian_p}
    for shape in [(1, 5), (5, 1), (2, 3), (3, 2), (1, 1), (2, 1, 3), (1,), (2,), (1, 2, 1), (3, 1, 2)]:
        n = int(np.prod(shape))
        kind, nz, a = ctx.rng.choice("sp"), ctx.rng.random() < 0.6, 10.0 ** ctx.rng.uniform(-2, 3)
        flat = [0.0] + [10.0 ** ctx.rng.uniform(-3, 1) / math.sqrt(a) for _ in range(n - 1)]
        flat = flat[::-1] if ctx.rng.random() < 0.5 else flat  # r = 0 first or last
        arr = np.array(flat).reshape(shape)
        if ctx.rng.random() < 0.5 and arr.ndim >= 2:
            arr = np.asfortranarray(arr)
        ans = driver_batch([f"C17.{kind} {f2b(float(x))} {f2b(a)} {int(nz)}" for x in arr.ravel()])
        with np.errstate(all="ignore"):
            got = fns[kind](arr, a, normalized=nz)
        ctx.count(["scalar-shape", list(shape), kind, a, nz], nontrivial=True, tag=f"{kind}:shape:{'x'.join(map(str, shape))}")
        ok = isinstance(got, np.ndarray) and got.shape == tuple(shape)
        if ok:
            for g, line in zip(got.ravel(), ans):
                tag, t = _ans(line)
                ok = ok and tag == "ok" and close(float(g), t.flt(), rtol=RTOL)
        if not ok:
            ctx.fail("corr", f"coulomb_gaussian_{kind}:shape", f"coulomb_gaussian_{kind} on radii of shape {shape}: result of shape {np.shape(got)}, values "
                     f"{np.asarray(got).ravel().tolist()} vs the generated model entry by entry", witness={"r": arr.tolist(), "alpha": a, "normalized": nz})


SNIPPET_ROUTES = """import warnings; warnings.filterwarnings('ignore')
import numpy as np
from grid.coulomb import coulomb_potential
args = {args!r}
A = {{k: (None if v is None else (np.array(v, dtype=float).reshape(-1, 3) if k in ('points', 'centers_s', 'centers_p') else np.array(v, dtype=float))) for k, v in args.items()}}
P, CS, KS, AS, CP, KP, AP = (A[k] for k in ('points', 'centers_s', 'coeffs_s', 'alphas_s', 'centers_p', 'coeffs_p', 'alphas_p'))
nz = {normalized!r}
base = coulomb_potential(points=P, centers_s=CS, coeffs_s=KS, alphas_s=AS, centers_p=CP, coeffs_p=KP, alphas_p=AP, normalized=nz)
routes = {{
    'all positional': lambda: coulomb_potential(P, CS, KS, AS, CP, KP, AP, nz),
    'p centres positional, rest by keyword': lambda: coulomb_potential(P, CS, KS, AS, CP, alphas_p=AP, coeffs_p=KP, normalized=nz),
    'keywords in another order': lambda: coulomb_potential(normalized=nz, alphas_p=AP, coeffs_p=KP, centers_p=CP, alphas_s=AS, coeffs_s=KS, centers_s=CS, points=P),
}}
if nz:
    routes['normalized omitted'] = lambda: coulomb_potential(P, CS, KS, AS, CP, KP, AP)
if CP is None:
    routes['p arguments omitted'] = lambda: coulomb_potential(P, CS, KS, AS, normalized=nz)
for name, call in routes.items():
    got = call()
    assert np.array_equal(got, base), f'{{name}}: {{got.tolist()}} vs all-keyword call {{base.tolist()}}'
"""


def _oracle_round4(ctx: Ctx, cb, utils, thr, large, parts):
    mp = _mp()
    fns = {"s": cb.coulomb_gaussian_s, "p": cb.coulomb_gaussian_p}

    # (m) close consecutive centres, p centre next to the last s centre, finite-difference pairs -- every run
    def part_close():
        for name, args in _close_centre_args(ctx, thr):
            nz = ctx.rng.random() < 0.7
            ctx.tagc("oracle:close-centres:" + name.rsplit("-", 1)[0].split("-h")[0])
            _check_pot_exact(ctx, cb, args, nz, f"consecutive centres close to each other ('{name}')", s_closed_form=(ctx.rng.random() < 0.5))

    # (n) class 20: unequal sizes, sizes 1 and 2, (3, 3) points / centres
    def part_shapes():
        for name, args in _shape_pot_args(ctx):
            ctx.tagc("oracle:shapes")
            _check_pot_exact(ctx, cb, args, ctx.rng.random() < 0.5, f"shapes {name}")
        for shape in [(1, 5), (5, 1), (2, 3), (3, 2), (1, 1), (2, 1, 3), (1,), (2,)]:
            for kind in ("s", "p"):
                a = 10.0 ** ctx.rng.uniform(-2, 3)
                n = int(np.prod(shape))
                flat = [0.0] + [10.0 ** ctx.rng.uniform(-3, 1) / math.sqrt(a) for _ in range(n - 1)]
                arr = np.array(flat[::-1] if ctx.rng.random() < 0.5 else flat).reshape(shape)
                with np.errstate(all="ignore"):
                    got = fns[kind](arr, a)
                bad = not isinstance(got, np.ndarray) or got.shape != tuple(shape)
                if not bad:
                    for g, r in zip(got.ravel(), arr.ravel()):
                        ref = _closed_form_mp(kind, a, float(r), True)
                        bad = bad or not abs(float(g) - ref) <= 1e-10 * abs(ref)
                if bad:
                    ctx.fail("oracle", f"coulomb.coulomb_gaussian_{kind}:shape", f"coulomb_gaussian_{kind} on radii {arr.tolist()} (shape {shape}), alpha={a!r}: result "
                             f"{np.asarray(got).tolist()} (shape {np.shape(got)}) is not the closed form entry by entry",
                             witness={"r": arr.tolist(), "alpha": a},
                             snippet=SNIPPET_REUSE.format(base=[float(x) for x in arr.ravel()], variant="plain", calls=[(kind, a, True)]).replace(
                                 "arr, owner = build(base, variant)", f"arr = np.array(base).reshape({tuple(shape)!r}); owner = arr"))

    # (o) class 14: arrays held by grid objects handed to the functions (int64 points of UniformInteger, points of a transformed
    #     radial grid, the (N, 3) points of an off-centre AtomGrid), the arrays returned by the loader as coefficients / exponents
    def part_grid_objects():
        from grid.atomgrid import AtomGrid
        from grid.onedgrid import GaussLegendre, UniformInteger
        from grid.rtransform import BeckeRTransform
        rg = BeckeRTransform(0.0, R=1.5).transform_1d_grid(GaussLegendre(ctx.rng.choice([4, 5, 6])))
        ui = UniformInteger(ctx.rng.choice([5, 8]))
        holders = [("UniformInteger.points", ui, lambda g: g.points), ("transformed radial grid .points", rg, lambda g: g.points)]
        for name, obj, get in holders:
            pristine = np.array(get(obj), dtype=float, copy=True)
            for kind, a, nz in [("s", 2.0, True), ("p", 0.7, True), ("s", 10.0 ** ctx.rng.uniform(0, 6), False)]:
                ctx.tagc("oracle:grid-object:" + name.split(".")[0].split(" ")[0])
                snip = SNIPPET_REUSE.format(base=pristine.tolist(), variant="plain", calls=[(kind, a, nz)]).replace(
                    "arr, owner = build(base, variant)", "arr = np.array(base).astype(" + ("np.int64" if get(obj).dtype.kind == "i" else "float") + "); owner = arr")
                try:
                    with np.errstate(all="ignore"):
                        got = fns[kind](get(obj), a, normalized=nz)
                except Exception as e:  # noqa: BLE001
                    ctx.fail("oracle", f"coulomb.coulomb_gaussian_{kind}:grid-object", f"coulomb_gaussian_{kind}({name} [{get(obj).dtype} array {pristine.tolist()}], alpha={a!r}, "
                             f"normalized={nz}) raised {type(e).__name__}: {e}; non-negative radii and a positive exponent",
                             witness={"radii": pristine.tolist(), "dtype": str(get(obj).dtype), "alpha": a, "normalized": nz, "holder": name}, snippet=snip)
                    continue
                bad = got.shape != pristine.shape or got.dtype != np.float64 or not np.array_equal(np.asarray(get(obj), dtype=float), pristine)
                for g, r in zip(got.ravel(), pristine.ravel()):
                    ref = _closed_form_mp(kind, a, float(r), nz)
                    bad = bad or not abs(float(g) - ref) <= 1e-10 * abs(ref)
                if bad:
                    ctx.fail("oracle", f"coulomb.coulomb_gaussian_{kind}:grid-object", f"coulomb_gaussian_{kind}({name} [{get(obj).dtype}], alpha={a!r}, normalized={nz}) = "
                             f"{got.tolist()} is not the closed form at the grid's radii {pristine.tolist()} (or the grid's array was changed: now {np.asarray(get(obj)).tolist()})",
                             witness={"radii": pristine.tolist(), "alpha": a, "normalized": nz, "holder": name}, snippet=snip)
        centre = np.array([0.5, -0.25, 1.0])
        ag = AtomGrid(rg, degrees=[3] * rg.size, center=centre)
        pristine = np.array(ag.points, dtype=float, copy=True)
        co, al = cb.load_atomic_gaussian_params(ctx.rng.choice(["C", "O", 7]))
        co0, al0 = co.copy(), al.copy()
        for nz in (True, False):
            ctx.tagc("oracle:grid-object:AtomGrid")
            args = dict(points=pristine.tolist(), centers_s=[centre.tolist()] * len(co0), coeffs_s=co0.tolist(), alphas_s=al0.tolist(), centers_p=None, coeffs_p=None, alphas_p=None)
            want, scale = _pot_reference_exact(cb, args, nz, s_closed_form=True)
            with np.errstate(all="ignore"):
                got = cb.coulomb_potential(ag.points, np.tile(ag.center, (len(co), 1)), co, al, normalized=nz)
            if got.shape != want.shape or np.any(np.abs(got - want) > 1e-11 * scale) or not np.array_equal(ag.points, pristine) \
                    or not (np.array_equal(co, co0) and np.array_equal(al, al0)) or not np.array_equal(ag.center, centre):
                ctx.fail("oracle", "coulomb.coulomb_potential:grid-object", f"coulomb_potential(AtomGrid.points, loader arrays of an element, normalized={nz}) = {got.tolist()[:6]}..., "
                         f"weighted sum of the closed forms at the grid's points = {want.tolist()[:6]}... (or the grid's points / the loader's arrays were changed)",
                         witness={"args": args, "normalized": nz}, snippet=SNIPPET_FAR.format(args=args, normalized=nz, tol=1e-11))

    # (p) class 15: every way of handing over the same arguments gives the same array
    def part_routes():
        for i in range(8 if large else 3):
            ks, kp = ctx.rng.choice([1, 2]), (None if i % 3 == 0 else ctx.rng.choice([1, 2]))
            cs, co, al = _rand_gaussians(ctx, ks)
            args = dict(points=[[ctx.rng.uniform(-2, 2) for _ in range(3)] for _ in range(3)], centers_s=cs, coeffs_s=co, alphas_s=al, centers_p=None, coeffs_p=None, alphas_p=None)
            if kp:
                cp, cop, alp = _rand_gaussians(ctx, kp)
                args.update(centers_p=cp, coeffs_p=cop, alphas_p=alp)
            nz = i % 2 == 0
            ctx.tagc("oracle:routes")
            if _check_pot_exact(ctx, cb, args, nz, "argument routes, all-keyword call"):
                continue
            env = {}
            src = SNIPPET_ROUTES.format(args=args, normalized=nz)
            try:
                exec(compile(src, "<routes>", "exec"), env)  # noqa: S102 - our own text; the same text is the replay
            except Exception as e:  # noqa: BLE001 - AssertionError: a route differs; anything else: a documented route is refused
                ctx.fail("oracle", "coulomb.coulomb_potential:routes", f"coulomb_potential depends on how the arguments are handed over: {type(e).__name__}: {e}",
                         witness={"args": args, "normalized": nz}, snippet=src)
        # scalar functions and the loader: positional / keyword / explicit default
        for kind in ("s", "p"):
            r, a = np.array([0.0, 0.4, 1.7]), 10.0 ** ctx.rng.uniform(-1, 2)
            base = fns[kind](r, a, True)
            for name, call in (("normalized omitted", lambda: fns[kind](r, a)), ("all keywords, other order", lambda: fns[kind](normalized=True, alpha=a, r=r)),
                               ("normalized by keyword", lambda: fns[kind](r, a, normalized=True)), ("np.True_", lambda: fns[kind](r, a, np.True_)),
                               ("normalized=1", lambda: fns[kind](r, a, 1))):
                ctx.tagc("oracle:routes")
                try:
                    res = call()
                except Exception as e:  # noqa: BLE001
                    res = f"{type(e).__name__}: {e}"
                if not (isinstance(res, np.ndarray) and np.array_equal(res, base)):
                    ctx.fail("oracle", f"coulomb.coulomb_gaussian_{kind}:routes", f"coulomb_gaussian_{kind}({r.tolist()}, {a!r}) with {name} = {res.tolist() if isinstance(res, np.ndarray) else res}, positional True gives {base.tolist()}",
                             witness={"r": r.tolist(), "alpha": a, "route": name})
            for name, call in (("normalized=False by keyword", lambda: fns[kind](r, a, normalized=False)), ("normalized=0", lambda: fns[kind](r, a, 0)),
                               ("np.False_", lambda: fns[kind](r=r, alpha=a, normalized=np.False_))):
                if not np.array_equal(call(), fns[kind](r, a, False)):
                    ctx.fail("oracle", f"coulomb.coulomb_gaussian_{kind}:routes", f"coulomb_gaussian_{kind}({r.tolist()}, {a!r}) with {name} differs from positional False",
                             witness={"r": r.tolist(), "alpha": a, "route": name})
        try:
            c1, a1 = cb.load_atomic_gaussian_params("N")
            c2, a2 = cb.load_atomic_gaussian_params(element="N")
            c3, a3 = cb.load_atomic_gaussian_params(element=7)
            same, why = np.array_equal(c1, c2) and np.array_equal(a1, a2) and np.array_equal(c1, c3) and np.array_equal(a1, a3), "differ"
        except Exception as e:  # noqa: BLE001
            same, why = False, f"raise {type(e).__name__}: {e}"
        if not same:
            ctx.fail("oracle", "coulomb.load_atomic_gaussian_params:routes", f"load_atomic_gaussian_params('N'), (element='N'), (element=7) [documented parameter name] {why}",
                     snippet="import numpy as np\nfrom grid.coulomb import load_atomic_gaussian_params as f\na, b, c = f('N'), f(element='N'), f(element=7)\n"
                             "assert all(np.array_equal(x, y) and np.array_equal(x, z) for x, y, z in zip(a, b, c))\n")

    # (q) class 16: one array object through DIFFERENT entry points (radii, then coefficients and exponents of coulomb_potential, then radii again)
    def part_cross_entry():
        for variant in ("plain", "slice-of-larger", "strided", "readonly"):
            base = [0.5, 1.0, 2.0 + ctx.rng.random()]
            x, owner = build(base, variant)  # noqa: F821
            x0, owner0 = x.copy(), owner.copy()
            C = [[ctx.rng.uniform(-1, 1) for _ in range(3)] for _ in range(3)]
            P = [[ctx.rng.uniform(-2, 2) for _ in range(3)] for _ in range(2)] + [C[0]]
            ctx.tagc("oracle:cross-entry:" + variant)
            seq = []
            with np.errstate(all="ignore"):
                seq.append(("coulomb_gaussian_s(x, 2.0)", cb.coulomb_gaussian_s(x, 2.0), [float(_closed_form_mp("s", 2.0, r, True)) for r in base]))
                args = dict(points=P, centers_s=C, coeffs_s=base, alphas_s=base, centers_p=C, coeffs_p=base, alphas_p=base)
                want, scale = _pot_reference_exact(cb, args, True)
                got = cb.coulomb_potential(np.array(P), np.array(C), x, x, np.array(C), x, x)
                seq.append(("coulomb_potential(coeffs_s=x, alphas_s=x, coeffs_p=x, alphas_p=x)", got, want))
                seq.append(("coulomb_gaussian_p(x, 0.5, normalized=False)", cb.coulomb_gaussian_p(x, 0.5, normalized=False), [float(_closed_form_mp("p", 0.5, r, False)) for r in base]))
                seq.append(("coulomb_gaussian_s(x, 2.0) again", cb.coulomb_gaussian_s(x, 2.0), [float(_closed_form_mp("s", 2.0, r, True)) for r in base]))
            for what, got, want in seq:
                if np.shape(got) != np.shape(want) or np.any(np.abs(np.asarray(got) - np.asarray(want)) > 1e-10 * np.abs(want) + 1e-12):
                    ctx.fail("oracle", "coulomb.coulomb_potential:reused-arrays", f"one array x = {base} ({variant}) used as radii, then as coefficients and exponents, then as radii again: "
                             f"{what} = {np.asarray(got).tolist()}, reference from a pristine copy {np.asarray(want).tolist()}", witness={"x": base, "variant": variant})
                    break
            if not (np.array_equal(x, x0) and np.array_equal(owner, owner0)):
                ctx.fail("oracle", "coulomb.coulomb_potential:reused-arrays", f"one array x = {base} ({variant}) through coulomb_gaussian_s, coulomb_potential, coulomb_gaussian_p: "
                         f"x now reads {x.tolist()}", witness={"x": base, "variant": variant})

    # (r) class 18: a call that raises leaves no trace -- rejected calls between accepted ones on the same array objects;
    #     a first load that cannot read the file leaves the cache empty and the next load works
    def part_raises_no_trace():
        r = np.array([0.0, 1e-13, 0.3, 1.0, 2.5])
        r0 = r.copy()
        neg = np.array([0.5, -1.0, 0.0])
        for kind in ("s", "p"):
            ref = [float(_closed_form_mp(kind, 3.0, x, True)) for x in r0]
            for badcall in (lambda: fns[kind](r, -1.0), lambda: fns[kind](r, 0.0), lambda: fns[kind](neg, 3.0), lambda: fns[kind](r, "x"), lambda: fns[kind]("r", 3.0),
                            lambda: fns[kind](r, np.array([1.0, 2.0]))):
                ctx.tagc("oracle:raises-no-trace:scalar")
                try:
                    with np.errstate(all="ignore"):
                        badcall()
                except Exception:  # noqa: BLE001
                    pass
                with np.errstate(all="ignore"):
                    got = fns[kind](r, 3.0)
                if not (np.array_equal(r, r0) and np.all(np.abs(got - np.array(ref)) <= 1e-10 * np.abs(ref))):
                    ctx.fail("oracle", f"coulomb.coulomb_gaussian_{kind}:after-exception", f"after a rejected call with the same radial array, coulomb_gaussian_{kind}({r0.tolist()}, 3.0) = "
                             f"{got.tolist()} (closed form {ref}); the array now reads {r.tolist()}", witness={"r": r0.tolist()})
                    break
        cs, co, al = _rand_gaussians(ctx, 3)
        co = [c or 1.0 for c in co]
        P = np.array(cs[:1] + [[ctx.rng.uniform(-2, 2) for _ in range(3)] for _ in range(3)])
        C, K, A = np.array(cs), np.array(co), np.array(al)
        snap = [x.copy() for x in (P, C, K, A)]
        args = dict(points=P.tolist(), centers_s=cs, coeffs_s=co, alphas_s=al, centers_p=cs, coeffs_p=co, alphas_p=al)
        want, scale = _pot_reference_exact(cb, args, True)
        Abad = A.copy(); Abad[-1] = -1.0
        for badcall in (lambda: cb.coulomb_potential(P, C, K, Abad), lambda: cb.coulomb_potential(P, C, K, A, C, K, Abad), lambda: cb.coulomb_potential(P, C, K, A, C, K),
                        lambda: cb.coulomb_potential(P[:, :2], C, K, A), lambda: cb.coulomb_potential(P, C, K[:2], A), lambda: cb.coulomb_potential(P, C, K, A, C, K[:1], A),
                        lambda: cb.coulomb_potential(P, C, ["a", "b", "c"], A)):
            ctx.tagc("oracle:raises-no-trace:pot")
            try:
                with np.errstate(all="ignore"):
                    badcall()
                ctx.fail("oracle", "coulomb.coulomb_potential:guards", "a malformed / rejected coulomb_potential call of the raises-no-trace sequence was accepted",
                         witness={"args": args})
            except (ValueError, TypeError):
                pass
            with np.errstate(all="ignore"):
                got = cb.coulomb_potential(P, C, K, A, C, K, A)
            if not (all(np.array_equal(x, y) for x, y in zip((P, C, K, A), snap)) and got.shape == want.shape and np.all(np.abs(got - want) <= 1e-11 * scale)):
                ctx.fail("oracle", "coulomb.coulomb_potential:after-exception", f"after a rejected call with the same argument arrays coulomb_potential = {got.tolist()}, "
                         f"weighted sum {want.tolist()} (or an argument array was changed)", witness={"args": args},
                         snippet=SNIPPET_FAR.format(args=args, normalized=True, tol=1e-11))
                break
        # the loader: unreadable resource on a cold start
        raw_float = {k: {kk: [float(x) for x in vv] for kk, vv in v.items()} for k, v in _json_tables().items()}
        saved, saved_files = cb._ATOMIC_GAUSS_PARAMS_CACHE, cb.files
        try:
            cb._ATOMIC_GAUSS_PARAMS_CACHE = None

            def no_files(pkg):
                raise FileNotFoundError(pkg)
            cb.files = no_files
            ctx.tagc("oracle:raises-no-trace:loader")
            tag1, _ = _impl_load(cb, "C")
            cache_after = cb._ATOMIC_GAUSS_PARAMS_CACHE
            tag_unknown, _ = _impl_load(cb, "Xx")  # argument checks come first: still ValueError
            cb.files = saved_files
            tag2, arrs = _impl_load(cb, "C")
            good = tag1 == "value-error" and cache_after is None and tag_unknown == "value-error" and tag2 == "ok" \
                and np.array_equal(arrs[0], raw_float["C"]["coeffs_s"]) and np.array_equal(arrs[1], raw_float["C"]["alphas_s"]) \
                and not _cache_differs(cb._ATOMIC_GAUSS_PARAMS_CACHE, raw_float)
            if not good:
                ctx.fail("oracle", "coulomb.load_atomic_gaussian_params:after-exception",
                         f"cold start with an unreadable resource: load('C') -> {tag1} (ValueError expected), cache afterwards {'None' if cache_after is None else 'not None'}; "
                         f"with the resource back load('C') -> {tag2}" + ("" if tag2 != "ok" else " with arrays / a cache that are not the file's"),
                         snippet=("import numpy as np, json\nfrom importlib.resources import files as real_files\nimport grid.coulomb as cb\n"
                                  "raw = json.load(open(real_files('grid.data').joinpath('atomic_gauss_params.json')))\n"
                                  "cb._ATOMIC_GAUSS_PARAMS_CACHE = None\ndef no_files(pkg):\n    raise FileNotFoundError(pkg)\ncb.files = no_files\n"
                                  "try:\n    cb.load_atomic_gaussian_params('C'); ok = False\nexcept ValueError:\n    ok = True\n"
                                  "assert ok and cb._ATOMIC_GAUSS_PARAMS_CACHE is None, 'unreadable resource: no ValueError or a half-built cache'\n"
                                  "cb.files = real_files\nc, a = cb.load_atomic_gaussian_params('C')\n"
                                  "assert np.array_equal(c, raw['C']['coeffs_s']) and np.array_equal(a, raw['C']['alphas_s'])\n"))
        finally:
            cb.files = saved_files
            cb._ATOMIC_GAUSS_PARAMS_CACHE = saved

    # (s) class 19: where erf / exp / the table are extreme -- erf saturating (x = 5.5 .. 6.5), exp(-x^2) under-flowing
    #     (x = 26 .. 28), x up to 1e8; the shipped contractions of every stored element along a ray from the nucleus
    def part_extreme_consumed():
        for a in [1.0, 10.0 ** ctx.rng.uniform(-6, 10)]:
            for x in (4.0, 4.51, 5.0, 5.5, 5.9, 5.999999, 6.0, 6.5, 9.0, 26.0, 26.6, 27.3, 28.0, 38.7, 1e3, 1e8):
                r = x / math.sqrt(a)
                for kind in ("s", "p"):
                    for nz in (True, False):
                        ctx.tagc("oracle:extreme-consumed:" + kind)
                        ref = _ref_s_scaled(a, r, nz) if kind == "s" else _closed_form_mp("p", a, r, nz)
                        with np.errstate(all="ignore"):
                            got = float(fns[kind](r, a, normalized=nz)[0])
                        if not abs(got - ref) <= 1e-10 * abs(ref):
                            ctx.fail("oracle", "coulomb.coulomb_gaussian_s" if kind == "s" else "coulomb.coulomb_gaussian_p:vs-documented-formula",
                                     f"coulomb_gaussian_{kind}(r={r!r}, alpha={a!r}, normalized={nz}) = {got!r} where sqrt(alpha) r = {x}; "
                                     + ("Coulomb potential of the documented density" if kind == "s" else "formula of its docstring") + f" = {mp.nstr(ref, 17)}",
                                     witness={"r": r, "alpha": a, "normalized": nz, "got": got, "reference": mp.nstr(ref, 20)},
                                     snippet=SNIPPET_S_SCALED.format(alpha=a, r=r, normalized=nz, tol=1e-10) if kind == "s" else None)
        raw_float = {k: {kk: [float(x) for x in vv] for kk, vv in v.items()} for k, v in _json_tables().items()}
        for sym in raw_float:
            co, al = cb.load_atomic_gaussian_params(sym)
            R = [ctx.rng.uniform(-2, 2) for _ in range(3)]
            d = [0.6, -0.48, 0.64]
            radii = [0.0, 1e-13, 1e-9, 0.5 / math.sqrt(max(al)), 1 / math.sqrt(max(al)), 0.1, 1 / math.sqrt(min(al)), 6 / math.sqrt(min(al)), 50.0]
            args = dict(points=[[c + t * x for c, x in zip(R, d)] for t in radii], centers_s=[R] * len(co), coeffs_s=co.tolist(), alphas_s=al.tolist(),
                        centers_p=None, coeffs_p=None, alphas_p=None)
            ctx.tagc("oracle:extreme-consumed:shipped-contraction")
            _check_pot_exact(ctx, cb, args, True, f"shipped contraction of {sym} along a ray from the nucleus", tol=1e-11, s_closed_form=True)

    for key, fn in (("coulomb.coulomb_potential:close-centres", part_close), ("coulomb.coulomb_potential:shapes", part_shapes),
                    ("coulomb.coulomb_potential:grid-objects", part_grid_objects), ("coulomb.coulomb_potential:routes", part_routes),
                    ("coulomb.coulomb_potential:cross-entry", part_cross_entry), ("coulomb:after-exception", part_raises_no_trace),
                    ("coulomb.coulomb_gaussian:extreme-consumed", part_extreme_consumed)):
        parts.run(key, fn)


# ----------------------------------------------------------------------------
# round 5: sizes past block boundaries, orders, precisions given directly, in-place edits between calls, fresh process
# ----------------------------------------------------------------------------
BIG_SIZES_QUICK = (1025, 4097, 20001)
BIG_SIZES_THOROUGH = (31234, 65537, 2 ** 19 + 1)


def _big_radii(ctx: Ctx, n, a, thr):
    """n radii for exponent a: r = 0 / below the switch / at the switch at the two ends and right after every power-of-two and
    {1,2,5} 10^k position (where a dropped remainder would start), otherwise sqrt(a) r log-uniform over 1e-3 .. 10."""
    rs = np.exp(ctx.np_rng.uniform(math.log(1e-3), math.log(10.0), n)) / math.sqrt(a)
    special = [0.0, 1e-13, thr, 0.5 / math.sqrt(a)]
    marks = sorted({m for k in range(20) for m in (2 ** k, 10 ** (k // 3) * (1, 2, 5)[k % 3]) if m < n} | {n - 1, n - 2, 0})
    for j, m in enumerate(marks):
        rs[m] = special[j % len(special)]
    return rs


def _sample_idx(ctx: Ctx, n, k=40):
    marks = {m for q in range(20) for m in (2 ** q - 1, 2 ** q, 10 ** (q // 3) * (1, 2, 5)[q % 3]) if 0 <= m < n} | {0, n - 1, n - 2}
    return sorted(marks | {ctx.rng.randrange(n) for _ in range(k)})


SNIPPET_BIG = """import warnings; warnings.filterwarnings('ignore')
import mpmath as mp, numpy as np
from grid.coulomb import coulomb_gaussian_s, coulomb_gaussian_p
mp.mp.dps = 30
kind, n, a, nz, seed, order = {kind!r}, {n!r}, {a!r}, {nz!r}, {seed!r}, {order!r}
f = coulomb_gaussian_s if kind == 's' else coulomb_gaussian_p
rng = np.random.default_rng(seed)
r = np.exp(rng.uniform(np.log(1e-3), np.log(10.0), n)) / np.sqrt(a)
r[[0, n // 2, n - 1]] = [0.0, 1e-13, 0.5 / np.sqrt(a)]
if order == 'descending':
    r = np.sort(r)[::-1].copy()
elif order == 'ascending':
    r = np.sort(r)
keep = r.copy()
got = f(r, a, normalized=nz)
assert got.shape == (n,), got.shape
cut = (2 * n) // 3 + 1
parts = np.concatenate([f(keep[:cut].copy(), a, normalized=nz), f(keep[cut:].copy(), a, normalized=nz)])
bad = np.flatnonzero(got != parts)
assert bad.size == 0, f'{{n}} radii at once differ from the two parts [:{{cut}}] / [{{cut}}:] at indices {{bad[:5].tolist()}} (first: r={{keep[bad[0]]!r}}: {{got[bad[0]]!r}} vs {{parts[bad[0]]!r}})'
single = np.array([f(float(x), a, normalized=nz)[0] for x in keep[-40:]])
assert np.array_equal(got[-40:], single), 'the last 40 entries differ from the calls on single radii'
assert np.array_equal(r, keep), 'the radii were modified'
"""


def _check_big_scalar(ctx: Ctx, cb, kind, n, a, nz, order, thr):
    """n radii at once == the two unequal parts == single calls on sampled entries == closed form on a sample; `order`:
    random / ascending / descending."""
    mp = _mp()
    fn = cb.coulomb_gaussian_s if kind == "s" else cb.coulomb_gaussian_p
    seed = ctx.rng.randrange(2 ** 31)
    rng = np.random.default_rng(seed)
    r = np.exp(rng.uniform(np.log(1e-3), np.log(10.0), n)) / np.sqrt(a)
    r[[0, n // 2, n - 1]] = [0.0, 1e-13, 0.5 / np.sqrt(a)]
    if order == "descending":
        r = np.sort(r)[::-1].copy()
    elif order == "ascending":
        r = np.sort(r)
    keep = r.copy()
    snippet = SNIPPET_BIG.format(kind=kind, n=n, a=a, nz=nz, seed=seed, order=order)
    key = f"coulomb.coulomb_gaussian_{kind}:large-array"
    desc = f"coulomb_gaussian_{kind} on {n} radii ({order} order, numpy default_rng({seed}) recipe of the replay), alpha={a!r}, normalized={nz}"
    with np.errstate(all="ignore"):
        got = fn(r, a, normalized=nz)
        cut = (2 * n) // 3 + 1
        two = np.concatenate([fn(keep[:cut].copy(), a, normalized=nz), fn(keep[cut:].copy(), a, normalized=nz)])
    if got.shape != (n,) or not np.array_equal(r, keep):
        ctx.fail("oracle", key, f"{desc}: result of shape {got.shape}" + ("" if np.array_equal(r, keep) else "; the radii were modified"), witness={"n": n, "alpha": a}, snippet=snippet)
        return True
    bad = np.flatnonzero(got != two)
    if bad.size:
        i = int(bad[0])
        ctx.fail("oracle", key, f"{desc}: entry {i} of the full call (r={float(keep[i])!r}) is {float(got[i])!r}, the same radius in a call on the part "
                 f"[{'0' if i < cut else cut}:{cut if i < cut else n}] gives {float(two[i])!r}; {bad.size} entries differ, from index {i} to {int(bad[-1])}",
                 witness={"n": n, "alpha": a, "normalized": nz, "index": i, "r": float(keep[i]), "full": float(got[i]), "part": float(two[i])}, snippet=snippet)
        return True
    for i in _sample_idx(ctx, n):
        ref = _closed_form_mp(kind, a, float(keep[i]), nz)
        if not abs(float(got[i]) - ref) <= 1e-10 * abs(ref):
            ctx.fail("oracle", key, f"{desc}: entry {i} (r={float(keep[i])!r}) is {float(got[i])!r}, closed form {mp.nstr(ref, 17)}",
                     witness={"n": n, "alpha": a, "normalized": nz, "index": i, "r": float(keep[i])}, snippet=snippet)
            return True
    return False


SNIPPET_BIG_POT = """import warnings; warnings.filterwarnings('ignore')
import numpy as np
from grid.coulomb import coulomb_potential
n, ks, kp, nz, seed = {n!r}, {ks!r}, {kp!r}, {nz!r}, {seed!r}
rng = np.random.default_rng(seed)
P = rng.uniform(-3, 3, (n, 3)); CS = rng.uniform(-2, 2, (ks, 3)); KS = rng.uniform(-2, 2, ks); AS = 10.0 ** rng.uniform(-2, 4, ks)
CP = rng.uniform(-2, 2, (kp, 3)); KP = rng.uniform(-2, 2, kp); AP = 10.0 ** rng.uniform(-2, 3, kp)
P[[0, n - 1]] = [CS[0], CS[-1]]
full = coulomb_potential(P, CS, KS, AS, CP, KP, AP, normalized=nz)
assert full.shape == (n,)
cut = (2 * n) // 3 + 1
two = np.concatenate([coulomb_potential(P[:cut], CS, KS, AS, CP, KP, AP, normalized=nz), coulomb_potential(P[cut:], CS, KS, AS, CP, KP, AP, normalized=nz)])
bad = np.flatnonzero(full != two)
assert bad.size == 0, f'{{n}} points at once differ from the two parts at indices {{bad[:5].tolist()}}: {{full[bad[0]]!r}} vs {{two[bad[0]]!r}}'
kc = (2 * ks) // 3 + 1
split = coulomb_potential(P, CS[:kc], KS[:kc], AS[:kc], normalized=nz) + coulomb_potential(P, CS[kc:], KS[kc:], AS[kc:], CP, KP, AP, normalized=nz) if kc < ks else full
scale = np.abs(coulomb_potential(P, CS, np.abs(KS), AS, CP, np.abs(KP), AP, normalized=nz))
bad = np.flatnonzero(np.abs(full - split) > 1e-12 * scale + 1e-300)
assert bad.size == 0, f'all {{ks}} s functions at once differ from the sum over the two parts [:{{kc}}] / [{{kc}}:] at points {{bad[:5].tolist()}}: {{full[bad[0]]!r}} vs {{split[bad[0]]!r}}'
perm = rng.permutation(n)
assert np.array_equal(coulomb_potential(P[perm], CS, KS, AS, CP, KP, AP, normalized=nz), full[perm]), 'shuffled points do not give the shuffled result'
"""


def _check_big_pot(ctx: Ctx, cb, n, ks, kp, nz):
    """N points past a block boundary (and Ks centres past one): additivity over a split of the points (exact) and of the centres
    (to rounding), shuffled / reversed points (exact), reversed centres (to rounding), sampled entries against the exact-distance sum."""
    seed = ctx.rng.randrange(2 ** 31)
    rng = np.random.default_rng(seed)
    P = rng.uniform(-3, 3, (n, 3)); CS = rng.uniform(-2, 2, (ks, 3)); KS = rng.uniform(-2, 2, ks); AS = 10.0 ** rng.uniform(-2, 4, ks)
    CP = rng.uniform(-2, 2, (kp, 3)); KP = rng.uniform(-2, 2, kp); AP = 10.0 ** rng.uniform(-2, 3, kp)
    P[[0, n - 1]] = [CS[0], CS[-1]]
    snippet = SNIPPET_BIG_POT.format(n=n, ks=ks, kp=kp, nz=nz, seed=seed)
    desc = f"coulomb_potential with {n} points, {ks} s and {kp} p functions (numpy default_rng({seed}) recipe of the replay), normalized={nz}"
    key = "coulomb.coulomb_potential:large-arrays"
    call = lambda p, c, k, a, *rest: cb.coulomb_potential(p, c, k, a, *rest, normalized=nz)  # noqa: E731
    with np.errstate(all="ignore"):
        full = call(P, CS, KS, AS, CP, KP, AP)
        cut = (2 * n) // 3 + 1
        two = np.concatenate([call(P[:cut], CS, KS, AS, CP, KP, AP), call(P[cut:], CS, KS, AS, CP, KP, AP)])
        scale = np.abs(cb.coulomb_potential(P, CS, np.abs(KS), AS, CP, np.abs(KP), AP, normalized=nz))
    if full.shape != (n,):
        ctx.fail("oracle", key, f"{desc}: result of shape {full.shape}", witness={"n": n, "ks": ks, "kp": kp}, snippet=snippet)
        return True
    bad = np.flatnonzero(full != two)
    if bad.size:
        i = int(bad[0])
        ctx.fail("oracle", key, f"{desc}: entry {i} (point {P[i].tolist()}) of the full call is {float(full[i])!r}, the same point in a call on the part of the points gives "
                 f"{float(two[i])!r}; {bad.size} entries differ (indices {i} .. {int(bad[-1])})", witness={"n": n, "ks": ks, "kp": kp, "index": i}, snippet=snippet)
        return True
    kc = (2 * ks) // 3 + 1
    if kc < ks:
        with np.errstate(all="ignore"):
            split = call(P, CS[:kc], KS[:kc], AS[:kc]) + call(P, CS[kc:], KS[kc:], AS[kc:], CP, KP, AP)
            rev = call(P[::-1], CS[::-1], KS[::-1], AS[::-1], CP[::-1], KP[::-1], AP[::-1])[::-1]
        for what, other in (("the sum over the two parts of the s functions", split), ("the call with points and functions in reverse order", rev)):
            bad = np.flatnonzero(np.abs(full - other) > 1e-12 * scale + 1e-300)
            if bad.size:
                i = int(bad[0])
                ctx.fail("oracle", key, f"{desc}: at point {i} the full call gives {float(full[i])!r}, {what} {float(other[i])!r}",
                         witness={"n": n, "ks": ks, "kp": kp, "index": i}, snippet=snippet)
                return True
    perm = rng.permutation(n)
    with np.errstate(all="ignore"):
        shuffled = call(P[perm], CS, KS, AS, CP, KP, AP)
    if not np.array_equal(shuffled, full[perm]):
        i = int(np.flatnonzero(shuffled != full[perm])[0])
        ctx.fail("oracle", key, f"{desc}: with the points shuffled, the value at point {P[perm][i].tolist()} is {float(shuffled[i])!r}, in the original order {float(full[perm][i])!r}",
                 witness={"n": n, "ks": ks, "kp": kp}, snippet=snippet)
        return True
    idx = [i for i in _sample_idx(ctx, n, 6)][:24]
    sub = dict(points=P[idx].tolist(), centers_s=CS.tolist(), coeffs_s=KS.tolist(), alphas_s=AS.tolist(), centers_p=CP.tolist(), coeffs_p=KP.tolist(), alphas_p=AP.tolist())
    want, sc = _pot_reference_exact(cb, sub, nz)
    if np.any(np.abs(full[idx] - want) > 1e-11 * sc + 1e-300):
        j = int(np.flatnonzero(np.abs(full[idx] - want) > 1e-11 * sc + 1e-300)[0])
        ctx.fail("oracle", key, f"{desc}: entry {idx[j]} is {float(full[idx[j]])!r}, the weighted sum at the exact distances {float(want[j])!r}",
                 witness={"n": n, "ks": ks, "kp": kp, "index": idx[j]}, snippet=SNIPPET_FAR.format(args=dict(sub, points=[sub["points"][j]]), normalized=nz, tol=1e-11))
        return True
    return False


SNIPPET_INPLACE = """import warnings; warnings.filterwarnings('ignore')
import numpy as np
from grid.coulomb import coulomb_potential, coulomb_gaussian_s, coulomb_gaussian_p
args = {args!r}
A = {{k: (np.array(v, dtype=float).reshape(-1, 3) if k in ('points', 'centers_s', 'centers_p') else np.array(v, dtype=float)) for k, v in args.items()}}
edits = {edits!r}        # (argument, kind of in-place edit) applied one after the other to the SAME array objects
def fresh():
    return coulomb_potential(**{{k: v.copy() for k, v in A.items()}})
first = coulomb_potential(**A)
assert np.array_equal(first, fresh())
for name, how in edits:
    x = A[name]
    if how == 'scale':
        x *= 1.5
    elif how == 'assign':
        x[:] = x[::-1].copy() + (0.25 if name.startswith('alphas') else 0.125)
    elif how == 'one-entry':
        x[(0,) * x.ndim] += 0.375
    got = coulomb_potential(**A)
    assert np.array_equal(got, fresh()), f'after the in-place edit {{how}} of {{name}} the call on the same objects gives {{got.tolist()}}, on fresh copies of the new contents {{fresh().tolist()}}'
r = np.array({radii!r}); a = {alpha!r}
for f in (coulomb_gaussian_s, coulomb_gaussian_p):
    f(r, a)
    for how in ('scale', 'assign', 'one-entry', 'zero'):
        if how == 'scale':
            r *= 2.0
        elif how == 'assign':
            r[:] = r[::-1].copy()
        elif how == 'one-entry':
            r[1] = 0.77
        else:
            r[2] = 0.0
        got = f(r, a)
        assert np.array_equal(got, f(r.copy(), a)), f'radii edited in place ({{how}}): {{got.tolist()}} vs {{f(r.copy(), a).tolist()}} on a fresh copy of {{r.tolist()}}'
    r[:] = {radii!r}
"""


def _check_inplace(ctx: Ctx, cb, thr):
    """Class 25: the same array objects edited in place between calls (scaled, re-assigned, one entry changed), every array-valued
    argument of coulomb_potential in turn, and the radii of the scalar functions: equal to the call on fresh copies of the new contents."""
    ks, kp = ctx.rng.choice([2, 3]), ctx.rng.choice([1, 2])
    cs, co, al = _rand_gaussians(ctx, ks)
    cp, cop, alp = _rand_gaussians(ctx, kp)
    args = dict(points=[[ctx.rng.uniform(-2, 2) for _ in range(3)] for _ in range(3)] + [list(cs[0])], centers_s=cs, coeffs_s=[c or 1.0 for c in co], alphas_s=[min(a, 50.0) for a in al],
                centers_p=cp, coeffs_p=[c or 0.5 for c in cop], alphas_p=[min(a, 50.0) for a in alp])
    A = {k: (np.array(v, dtype=float).reshape(-1, 3) if k in ("points", "centers_s", "centers_p") else np.array(v, dtype=float)) for k, v in args.items()}
    edits = [(n, ctx.rng.choice(["scale", "assign", "one-entry"])) for n in POT_NAMES] + [(ctx.rng.choice(POT_NAMES), h) for h in ("scale", "assign", "one-entry")]
    radii = [0.0, 1e-13, 0.3, 1.0, 2.5, 7.0]
    alpha = 10.0 ** ctx.rng.uniform(-1, 3)
    snippet = SNIPPET_INPLACE.format(args=args, edits=edits, radii=radii, alpha=alpha)

    def fresh():
        with np.errstate(all="ignore"):
            return cb.coulomb_potential(**{k: v.copy() for k, v in A.items()})
    with np.errstate(all="ignore"):
        first = cb.coulomb_potential(**A)
    if not np.array_equal(first, fresh()):
        ctx.fail("oracle", "coulomb.coulomb_potential:in-place-edit", "coulomb_potential on the same objects twice differs from the call on copies", witness={"args": args}, snippet=snippet)
        return True
    for name, how in edits:
        x = A[name]
        if how == "scale":
            x *= 1.5
        elif how == "assign":
            x[:] = x[::-1].copy() + (0.25 if name.startswith("alphas") else 0.125)
        else:
            x[(0,) * x.ndim] += 0.375
        ctx.tagc("oracle:in-place-edit:" + name)
        with np.errstate(all="ignore"):
            got = cb.coulomb_potential(**A)
        new = {k: v.tolist() for k, v in A.items()}
        ref = _pot_reference_exact(cb, new, True)
        want = fresh()
        if not np.array_equal(got, want) or ref is None or np.any(np.abs(got - ref[0]) > 1e-11 * ref[1] + 1e-300):
            ctx.fail("oracle", "coulomb.coulomb_potential:in-place-edit",
                     f"after the in-place edit '{how}' of the {name} array (same object as in the previous call) coulomb_potential = {got.tolist()}; on fresh copies of the new contents "
                     f"{want.tolist()}; weighted sum at the new contents {None if ref is None else ref[0].tolist()}",
                     witness={"args_before_edits": args, "edits": edits, "contents_now": new}, snippet=snippet)
            return True
    for kind, fn in (("s", cb.coulomb_gaussian_s), ("p", cb.coulomb_gaussian_p)):
        r = np.array(radii)
        with np.errstate(all="ignore"):
            fn(r, alpha)
            for how in ("scale", "assign", "one-entry", "zero"):
                if how == "scale":
                    r *= 2.0
                elif how == "assign":
                    r[:] = r[::-1].copy()
                elif how == "one-entry":
                    r[1] = 0.77
                else:
                    r[2] = 0.0
                ctx.tagc("oracle:in-place-edit:r")
                got = fn(r, alpha)
                now = r.copy()
                bad = not np.array_equal(got, fn(now.copy(), alpha))
                for g, x in zip(got, now):
                    ref = _closed_form_mp(kind, alpha, float(x), True)
                    bad = bad or not abs(float(g) - ref) <= 1e-10 * abs(ref)
                if bad:
                    ctx.fail("oracle", f"coulomb.coulomb_gaussian_{kind}:in-place-edit", f"after the in-place edit '{how}' of the radial array (now {now.tolist()}) coulomb_gaussian_{kind}(r, {alpha!r}) = "
                             f"{got.tolist()}, on a fresh copy {fn(now.copy(), alpha).tolist()}", witness={"radii_now": now.tolist(), "alpha": alpha}, snippet=snippet)
                    return True
    return False


FRESH_BATTERY = """import warnings; warnings.filterwarnings('ignore')
import json, numpy as np
import grid.coulomb as cb
r = np.array([0.0, 1e-13, 0.25, 1.0, 3.5]); out = {}
for a in (0.3, 2.0, 1e6):
    for nz in (True, False):
        out[f's{a}{nz}'] = cb.coulomb_gaussian_s(r.copy(), a, nz).tolist(); out[f'p{a}{nz}'] = cb.coulomb_gaussian_p(r.copy(), a, nz).tolist()
P = np.array([[0.5, -0.25, 1.0], [0.0, 0.0, 0.0], [1.0, 2.0, -0.5]]); C = np.array([[0.5, -0.25, 1.0], [0.5, -0.25, 1.0 + 1e-9], [-1.0, 0.0, 0.0]])
K = np.array([1.0, -0.5, 2.0]); A = np.array([2.0, 1e8, 0.7])
for nz in (True, False):
    out[f'pot{nz}'] = cb.coulomb_potential(P, C, K, A, C[::-1].copy(), K, A, normalized=nz).tolist(); out[f'pots{nz}'] = cb.coulomb_potential(P, C, K, A, normalized=nz).tolist()
for e in ORDER:
    c, a = cb.load_atomic_gaussian_params(e); out[f'load{e}'] = [c.tolist(), a.tolist()]
print(json.dumps(out))
"""


def _check_fresh_process(ctx: Ctx, cb):
    """Class 26 (here: module-level state only): a fixed battery -- scalar functions on a grid with r = 0, coulomb_potential with a
    point on a centre and two centres 1e-9 apart, the loader for every stored element -- evaluated now, in this process (after
    everything the check has done, elements in one order), equals the same battery in a fresh interpreter (elements in the other order)."""
    import subprocess
    import sys
    stored = list(_json_tables())
    pre = f"import sys; sys.path.insert(0, {str(SRC.parent)!r})\n"
    env = {}
    with np.errstate(all="ignore"):
        import contextlib
        import io
        buf = io.StringIO()
        with contextlib.redirect_stdout(buf):
            exec(compile(FRESH_BATTERY.replace("ORDER", repr(stored)), "<battery>", "exec"), env)  # noqa: S102
    here = json.loads(buf.getvalue())
    proc = subprocess.run([sys.executable, "-c", pre + FRESH_BATTERY.replace("ORDER", repr(stored[::-1]))], capture_output=True, text=True, timeout=300, cwd="/")
    if proc.returncode != 0:
        raise RuntimeError("fresh-process battery failed: " + proc.stderr[-500:])
    fresh = json.loads(proc.stdout.strip().splitlines()[-1])
    for k in here:
        if here[k] != fresh[k]:
            ctx.fail("oracle", "coulomb:fresh-process", f"battery entry {k!r}: in this process (after the other calls of the check) {here[k]}, in a fresh interpreter {fresh[k]}",
                     witness={"entry": k, "in_process": here[k], "fresh": fresh[k]})
            return True
    return False


def _direct_precision_cases(ctx: Ctx, thr):
    """Class 23: the same values as float64 / longdouble / float32 / float16 / integers, handed over directly."""
    out = []
    for dt, exact in ((np.longdouble, True), (np.float32, False), (np.float16, False), (np.int64, False), (np.uint8, False), (np.int16, False)):
        base = np.array([0.0, 1.0, 2.0, 3.0, 5.0, 0.5, 0.25, 7.0]) if np.dtype(dt).kind in "iu" or dt is np.float16 else np.array([0.0, 1e-13, thr, 0.3, 1.0, 2.5, 1 / 3, 7.0])
        out.append((np.dtype(dt).name, (np.rint(base) if np.dtype(dt).kind in "iu" else base).astype(dt)))
    return out


def _check_direct_precision(ctx: Ctx, cb, thr):
    fns = {"s": cb.coulomb_gaussian_s, "p": cb.coulomb_gaussian_p}
    bad_any = False
    for name, arr in _direct_precision_cases(ctx, thr):
        keep = arr.copy()
        for kind in ("s", "p"):
            for a in (2.0, 10.0 ** ctx.rng.uniform(-1, 4)):
                ctx.tagc("oracle:direct-precision:r:" + name)
                try:
                    with np.errstate(all="ignore"):
                        got = fns[kind](arr, a)
                        again = fns[kind](arr, a)
                        ref = fns[kind](np.array(keep, dtype=float), a)
                except Exception as e:  # noqa: BLE001
                    ctx.fail("oracle", f"coulomb.coulomb_gaussian_{kind}:direct-precision", f"coulomb_gaussian_{kind}(radii as {name} array {keep.tolist()}, alpha={a!r}) raised {type(e).__name__}: {e}",
                             witness={"radii": [float(x) for x in keep], "dtype": name, "alpha": a})
                    bad_any = True
                    continue
                good = got.dtype == np.float64 and got.shape == keep.shape and np.array_equal(got, ref) and np.array_equal(got, again) and np.array_equal(arr, keep) and arr.dtype == keep.dtype
                for g, x in zip(got, keep):
                    refm = _closed_form_mp(kind, a, float(x), True)
                    good = good and abs(float(g) - refm) <= 1e-10 * abs(refm)
                if not good:
                    ctx.fail("oracle", f"coulomb.coulomb_gaussian_{kind}:direct-precision", f"coulomb_gaussian_{kind}(radii as {name} array {[float(x) for x in keep]}, alpha={a!r}) = {np.asarray(got).tolist()} "
                             f"[{np.asarray(got).dtype}]; the float64 call on the same values gives {ref.tolist()} (second call {np.asarray(again).tolist()}, array afterwards {[float(x) for x in arr]})",
                             witness={"radii": [float(x) for x in keep], "dtype": name, "alpha": a},
                             snippet=("import numpy as np\nfrom grid.coulomb import coulomb_gaussian_" + kind + f" as f\nr = np.array({[float(x) for x in keep]!r}).astype(np.{name}); k = r.copy()\n"
                                      f"g = f(r, {a!r}); g2 = f(r, {a!r}); ref = f(np.array(k, dtype=float), {a!r})\n"
                                      "assert g.dtype == np.float64 and np.array_equal(g, ref) and np.array_equal(g, g2) and np.array_equal(r, k), (g.tolist(), ref.tolist(), r.tolist())\n"))
                    bad_any = True
    # the arrays of coulomb_potential as longdouble / float32 / float16 / integers (values exactly representable in each)
    P = np.array([[0.0, 0.0, 0.0], [0.5, -0.25, 1.0], [2.0, 1.0, -3.0]]); C = np.array([[0.0, 0.0, 0.0], [1.0, 0.0, -0.5]]); K = np.array([1.0, -0.5]); A = np.array([2.0, 32.0])
    with np.errstate(all="ignore"):
        ref = cb.coulomb_potential(P, C, K, A, C, K, A)
    for dt in (np.longdouble, np.float32, np.float16):
        for which in (POT_NAMES, ("points",), ("centers_s", "centers_p"), ("coeffs_s",), ("alphas_s", "alphas_p")):
            vals = dict(zip(POT_NAMES, (P, C, K, A, C, K, A)))
            call = {k: (v.astype(dt) if k in which else v.copy()) for k, v in vals.items()}
            snap = {k: v.copy() for k, v in call.items()}
            ctx.tagc("oracle:direct-precision:pot:" + np.dtype(dt).name)
            try:
                with np.errstate(all="ignore"):
                    got = cb.coulomb_potential(**call)
                    again = cb.coulomb_potential(**call)
            except Exception as e:  # noqa: BLE001
                got = again = f"{type(e).__name__}: {e}"
            if not (isinstance(got, np.ndarray) and got.dtype == np.float64 and np.array_equal(got, ref) and np.array_equal(again, ref)
                    and all(np.array_equal(call[k], snap[k]) and call[k].dtype == snap[k].dtype for k in call)):
                ctx.fail("oracle", "coulomb.coulomb_potential:direct-precision", f"coulomb_potential with {list(which)} as {np.dtype(dt).name} arrays (values exactly representable) = "
                         f"{got.tolist() if isinstance(got, np.ndarray) else got}; float64 arguments give {ref.tolist()}", witness={"dtype": np.dtype(dt).name, "which": list(which)},
                         snippet=("import numpy as np\nfrom grid.coulomb import coulomb_potential as f\n"
                                  "P = np.array([[0.0, 0.0, 0.0], [0.5, -0.25, 1.0], [2.0, 1.0, -3.0]]); C = np.array([[0.0, 0.0, 0.0], [1.0, 0.0, -0.5]]); K = np.array([1.0, -0.5]); A = np.array([2.0, 32.0])\n"
                                  f"v = dict(points=P, centers_s=C, coeffs_s=K, alphas_s=A, centers_p=C, coeffs_p=K, alphas_p=A); which = {list(which)!r}\n"
                                  f"c = {{k: (x.astype(np.{np.dtype(dt).name}) if k in which else x.copy()) for k, x in v.items()}}; s = {{k: x.copy() for k, x in c.items()}}\n"
                                  "g = f(**c); g2 = f(**c)\nassert g.dtype == np.float64 and np.array_equal(g, f(**v)) and np.array_equal(g, g2) and all(np.array_equal(c[k], s[k]) for k in c)\n"))
                bad_any = True
    # alpha as a longdouble scalar: information only (the documented type is float; SciPy's erf has no long-double loop)
    try:
        with np.errstate(all="ignore"):
            v = cb.coulomb_gaussian_s(np.array([0.5]), np.longdouble(2.0))
        ctx.tagc("s:info:alpha-longdouble-" + ("float64-answer" if np.array_equal(v, cb.coulomb_gaussian_s(np.array([0.5]), 2.0)) else "other-answer"))
    except TypeError:
        ctx.tagc("s:info:alpha-longdouble-TypeError")
    return bad_any


def _oracle_round5(ctx: Ctx, cb, utils, thr, large, parts):
    # (t) class 21 + 22: sizes right after powers of two and {1,2,5} 10^k, in random / ascending / descending order
    sizes = list(BIG_SIZES_QUICK) + (list(BIG_SIZES_THOROUGH) if ctx.thorough else [])
    for j, n in enumerate(sizes):
        for kind in ("s", "p"):
            order = ("random", "descending", "ascending")[(j + (kind == "p")) % 3]
            ctx.tagc(f"oracle:large-array:{kind}:{n}:{order}")
            parts.run(f"coulomb.coulomb_gaussian_{kind}:large-array", _check_big_scalar, ctx, cb, kind, n, 10.0 ** ctx.rng.uniform(-2, 6), ctx.rng.random() < 0.7, order, thr)
    for n, ks, kp in [(1025, 3, 2), (4097, 2, 1), (7, 33, 17), (3, 129, 5)] + ([(65537, 3, 2), (2 ** 19 + 1, 2, 1), (5, 1025, 257)] if ctx.thorough else []):
        ctx.tagc(f"oracle:large-arrays:pot:N{n}-Ks{ks}-Kp{kp}")
        parts.run("coulomb.coulomb_potential:large-arrays", _check_big_pot, ctx, cb, n, ks, kp, ctx.rng.random() < 0.6)

    # (u) class 22: descending radial grids the library produces itself
    def part_descending_grids():
        from grid.onedgrid import GaussLegendre
        from grid.rtransform import MultiExpRTransform
        for g in (MultiExpRTransform(1e-3, 20.0).transform_1d_grid(GaussLegendre(ctx.rng.choice([7, 12, 33]))),
                  MultiExpRTransform(1e-5, 5.0).transform_1d_grid(GaussLegendre(9))):
            pts = np.array(g.points, dtype=float, copy=True)
            for kind, fn in (("s", cb.coulomb_gaussian_s), ("p", cb.coulomb_gaussian_p)):
                a = 10.0 ** ctx.rng.uniform(-2, 3)
                ctx.tagc("oracle:descending-grid:" + kind)
                with np.errstate(all="ignore"):
                    got = fn(g.points, a)
                    asc = fn(np.sort(pts), a)
                order = np.argsort(pts)
                bad = not np.array_equal(got[order], asc) or not np.array_equal(np.asarray(g.points, dtype=float), pts)
                for v, x in zip(got, pts):
                    ref = _closed_form_mp(kind, a, float(x), True)
                    bad = bad or not abs(float(v) - ref) <= 1e-10 * abs(ref)
                if bad:
                    ctx.fail("oracle", f"coulomb.coulomb_gaussian_{kind}:order", f"coulomb_gaussian_{kind} on the points of a MultiExp-transformed grid ({'descending' if pts[0] > pts[-1] else 'ascending'}: "
                             f"{pts.tolist()}), alpha={a!r}: {got.tolist()}; on the same radii sorted ascending {asc.tolist()}",
                             witness={"radii": pts.tolist(), "alpha": a}, snippet=SNIPPET_REUSE.format(base=pts.tolist(), variant="plain", calls=[(kind, a, True)]))
    parts.run("coulomb.coulomb_gaussian:descending-grids", part_descending_grids)
    # (v) class 23: precisions given directly
    parts.run("coulomb:direct-precision", _check_direct_precision, ctx, cb, thr)
    # (w) class 25: in-place edits of the same objects between calls
    for _ in range(6 if large else 2):
        parts.run("coulomb.coulomb_potential:in-place-edit", _check_inplace, ctx, cb, thr)
    # (x) class 26: the process after the whole check against a fresh interpreter
    ctx.tagc("oracle:fresh-process")
    parts.run("coulomb:fresh-process", _check_fresh_process, ctx, cb)


def _corr_round5(ctx: Ctx, cb, thr):
    """Correspondence: 1025 and 4097 radii in one call (descending / shuffled), entry by entry against the generated closed form;
    coulomb_potential on 1025 points and on 33 + 17 centres through the driver; radii as longdouble / float16 / integer arrays."""
    fns = {"s": cb.coulomb_gaussian_s, "p": cb.coulomb_gaussian_p}
    for n, order in ((1025, "descending"), (4097, "random")):
        kind, nz, a = ctx.rng.choice("sp"), ctx.rng.random() < 0.6, 10.0 ** ctx.rng.uniform(-2, 5)
        r = _big_radii(ctx, n, a, thr)
        if order == "descending":
            r = np.sort(r)[::-1].copy()
        ans = driver_batch([f"C17.{kind} {f2b(float(x))} {f2b(a)} {int(nz)}" for x in r])
        with np.errstate(all="ignore"):
            got = fns[kind](r.copy(), a, normalized=nz)
        ctx.count(["big", kind, n, a, nz, order], nontrivial=True, tag=f"{kind}:large-array:{n}:{order}", n=n)
        if got.shape != (n,):
            ctx.fail("corr", f"coulomb_gaussian_{kind}:large-array", f"coulomb_gaussian_{kind} on {n} radii: shape {got.shape}", witness={"n": n, "alpha": a})
            continue
        for i, (g, line) in enumerate(zip(got, ans)):
            tag, t = _ans(line)
            if tag != "ok" or not close(float(g), t.flt(), rtol=RTOL):
                ctx.fail("corr", f"coulomb_gaussian_{kind}:large-array", f"coulomb_gaussian_{kind} on {n} radii ({order}), entry {i} (r={float(r[i])!r}), alpha={a!r}, normalized={nz}: "
                         f"implementation {float(g)!r}, generated model {t.flt() if tag == 'ok' else tag!r}", witness={"r": float(r[i]), "alpha": a, "normalized": nz, "index": i, "n": n})
                break
    cases = []
    for n, ks, kp in ((1025, 2, 1), (5, 33, 17)):
        rng = ctx.np_rng
        args = dict(points=rng.uniform(-3, 3, (n, 3)).tolist(), centers_s=rng.uniform(-2, 2, (ks, 3)).tolist(), coeffs_s=rng.uniform(-2, 2, ks).tolist(),
                    alphas_s=(10.0 ** rng.uniform(-2, 4, ks)).tolist(), centers_p=rng.uniform(-2, 2, (kp, 3)).tolist(), coeffs_p=rng.uniform(-2, 2, kp).tolist(),
                    alphas_p=(10.0 ** rng.uniform(-2, 3, kp)).tolist())
        args["points"][0] = list(args["centers_s"][0]); args["points"][-1] = list(args["centers_p"][-1])
        cases.append((_args_to_call(args, ctx.rng.random() < 0.5), "kw", f"N{n}-Ks{ks}-Kp{kp}"))
    answers = driver_batch([_pot_line(c) for c, _, _ in cases])
    for (call, route, label), line in zip(cases, answers):
        itag, v = _impl_pot(cb, call, route)
        mtag, t = _ans(line)
        ctx.count(["pot-big", label], nontrivial=True, tag="pot:r5:" + label)
        if itag != mtag or itag != "ok":
            ctx.fail("corr", "coulomb_potential", f"coulomb_potential ({label}): implementation {itag}, generated model {mtag}", witness={"label": label})
            continue
        mshape, mv = t.vec(), t.fvec()
        scale = _pot_scale(cb, call)
        bad = [i for i, (a_, b, sc) in enumerate(zip(v, mv, scale)) if not close(float(a_), b, rtol=RTOL, scale=max(float(sc), abs(b)))]
        if list(v.shape) != mshape or bad:
            i = bad[0] if bad else -1
            ctx.fail("corr", "coulomb_potential", f"coulomb_potential ({label}): shape {list(v.shape)} vs {mshape}; first differing entry {i}: implementation "
                     f"{float(v[i]) if bad else None!r}, generated model {mv[i] if bad else None!r}",
                     witness=dict(_call_witness(dict(call, points=[np.asarray(call['points'])[i].tolist()])), index=i) if bad else {"label": label})
    for name, arr in _direct_precision_cases(ctx, thr):
        kind, a = ctx.rng.choice("sp"), float(ctx.rng.choice([1.0, 2.0, 16.0]))
        ans = driver_batch([f"C17.{kind} {f2b(float(x))} {f2b(a)} 1" for x in arr])
        ctx.count(["direct-precision", name, kind, a], nontrivial=True, tag=f"{kind}:direct:{name}")
        try:
            with np.errstate(all="ignore"):
                got = fns[kind](arr, a)
            ok = got.shape == arr.shape and all(_ans(l)[0] == "ok" and close(float(g), _ans(l)[1].flt(), rtol=RTOL) for g, l in zip(got, ans))
            what = np.asarray(got).tolist()
        except Exception as e:  # noqa: BLE001
            ok, what = False, f"{type(e).__name__}: {e}"
        if not ok:
            ctx.fail("corr", f"coulomb_gaussian_{kind}:container", f"coulomb_gaussian_{kind}(radii as {name} array {[float(x) for x in arr]}, alpha={a!r}): {what} vs the generated model on the same values",
                     witness={"r": [float(x) for x in arr], "alpha": a, "normalized": True, "container": name})


def oracle(ctx: Ctx, budget: str):
    cb = importlib.import_module("grid.coulomb")
    utils = importlib.import_module("grid.utils")
    mp = _mp()
    large = budget == "large" or ctx.thorough
    thr = float(cb._R_ZERO_THRESHOLD)
    fns = {"s": cb.coulomb_gaussian_s, "p": cb.coulomb_gaussian_p}

    def val(kind, r, a, nz):
        with np.errstate(all="ignore"):
            return float(fns[kind](r, a, normalized=nz)[0])

    # (a) value = Coulomb integral of the documented density ----------------------
    samples = [(1.0, 0.0), (3.0, 0.0), (1.0, 1.0), (3.0, 0.5), (3.0, 2.0), (2.0, 1.5), (0.3, 3.0), (7.5, 0.1),
               (1e-6, 0.0), (1e6, 0.0), (1e-6, 2e3), (1e6, 1e-3), (1.0, thr), (1.0, float(np.nextafter(thr, 0))), (1.0, 25.0)]
    for _ in range(60 if large else 8):
        a = 10.0 ** ctx.rng.uniform(-6, 6)
        samples.append((a, 10.0 ** ctx.rng.uniform(-2.5, 1.2) / math.sqrt(a)))
    # tight and diffuse Gaussians at radii from just above the switch up to the bulk
    for _ in range(120 if large else 16):
        a = 10.0 ** ctx.rng.uniform(-10, 14)
        samples.append((a, 10.0 ** ctx.rng.uniform(math.log10(thr), math.log10(thr) + 8)))
    def part_value(kind):
        nfail = 0
        for a, r in samples:
            for nz in (True, False):
                if not nz and ctx.rng.random() < 0.5 and (a, r) not in samples[:6]:
                    continue
                ref = _ref_potential(kind, a, r, nz)
                got = val(kind, r, a, nz)
                if abs(got - ref) > 1e-10 * abs(ref):
                    nfail += 1
                    ctx.fail("oracle", f"coulomb.coulomb_gaussian_{kind}",
                             f"coulomb_gaussian_{kind}(r={r!r}, alpha={a!r}, normalized={nz}) = {got!r}, but the Coulomb potential "
                             f"of the documented density is {mp.nstr(ref, 17)} (ratio {mp.nstr(got / ref, 8)})",
                             witness={"r": r, "alpha": a, "normalized": nz, "got": got, "reference": mp.nstr(ref, 20),
                                      "lean": "GridVerif.C17.p_code_ne_correct / p_code_fails_poisson" if kind == "p" else None},
                             snippet=SNIPPET_POT.format(kind=kind, alpha=a, r=r, normalized=nz))
    def part_poisson(kind):
        # (b) radial Poisson residual of r*V (5-point second difference of the implementation)
        for a, x in [(1.0, 1.0), (2.0, 0.7), (1e-4, 1.3), (1e4, 0.4)] + [(10.0 ** ctx.rng.uniform(-6, 6), ctx.rng.uniform(0.3, 2.5))
                                                                           for _ in range(30 if large else 3)]:
            sa = math.sqrt(a)
            r, h = x / sa, 0.02 / sa
            u = [(r + k * h) * val(kind, r + k * h, a, True) for k in (-2, -1, 0, 1, 2)]
            d2 = (-u[0] + 16 * u[1] - 30 * u[2] + 16 * u[3] - u[4]) / (12 * h * h)
            want = float(-4 * mp.pi * mp.mpf(r) * _density(mp, kind, mp.mpf(a), True)(mp.mpf(r)))
            if abs(d2 - want) > 1e-5 * a:
                ctx.fail("oracle", f"coulomb.coulomb_gaussian_{kind}",
                         f"coulomb_gaussian_{kind}: (r V)'' = {d2!r} at r={r!r}, alpha={a!r}, radial Poisson equation of the documented "
                         f"density requires -4 pi r rho = {want!r}",
                         witness={"r": r, "alpha": a, "second_difference": d2, "required": want},
                         snippet=SNIPPET_POT.format(kind=kind, alpha=a, r=r, normalized=True))
    def part_far(kind):
        # (c) large r: r V(r) -> total charge
        for a in [1.0, 1e-6, 1e6, 10.0 ** ctx.rng.uniform(-6, 6)]:
            for nz in (True, False):
                q = _total_charge(kind, a, nz)
                for x in (40.0, 1e6):
                    r = x / math.sqrt(a)
                    got = r * val(kind, r, a, nz)
                    if abs(got - q) > 1e-12 * abs(q):
                        ctx.fail("oracle", f"coulomb.coulomb_gaussian_{kind}:far",
                                 f"coulomb_gaussian_{kind}: r V(r) = {got!r} at r={r!r}, alpha={a!r}, normalized={nz}; total charge {mp.nstr(q, 17)}",
                                 witness={"r": r, "alpha": a, "normalized": nz})
    def part_switch(kind):
        # (d) continuity across the small-r switch (and r = 0 = limit)
        for a in [1.0, 1e-6, 1e6, 3.0, 10.0 ** ctx.rng.uniform(-6, 6)]:
            for nz in (True, False):
                below, at, above = val(kind, float(np.nextafter(thr, 0)), a, nz), val(kind, thr, a, nz), val(kind, float(np.nextafter(thr, 1)), a, nz)
                zero, small = val(kind, 0.0, a, nz), val(kind, 1e-7 / math.sqrt(a) if 1e-7 / math.sqrt(a) >= thr else 10 * thr, a, nz)
                if max(abs(below - at), abs(above - at), abs(zero - below)) > 1e-12 * abs(at) or abs(small - zero) > 1e-9 * abs(zero):
                    ctx.fail("oracle", f"coulomb.coulomb_gaussian_{kind}:switch",
                             f"coulomb_gaussian_{kind} jumps across the small-r switch: alpha={a!r}, normalized={nz}: V(0)={zero!r}, "
                             f"V(thr-)={below!r}, V(thr)={at!r}, V(thr+)={above!r}, V(small)={small!r}",
                             witness={"alpha": a, "normalized": nz})
    def part_unnormalised(kind):
        # unnormalised / normalised = ratio of the documented densities
        for a in [1.0, 0.37, 1e-6, 1e6, 10.0 ** ctx.rng.uniform(-6, 6)]:
            s0 = mp.mpf(1) / mp.sqrt(mp.mpf(a))
            fac = _density(mp, kind, mp.mpf(a), False)(s0) / _density(mp, kind, mp.mpf(a), True)(s0)
            for r in (0.0, thr, 0.8 / math.sqrt(a), 30 / math.sqrt(a)):
                u, n_ = val(kind, r, a, False), val(kind, r, a, True)
                if abs(u - fac * n_) > 1e-12 * abs(u):
                    ctx.fail("oracle", f"coulomb.coulomb_gaussian_{kind}:unnormalised",
                             f"coulomb_gaussian_{kind}(normalized=False)/(normalized=True) = {u / n_!r} at r={r!r}, alpha={a!r}; "
                             f"the documented densities differ by {mp.nstr(fac, 17)}", witness={"r": r, "alpha": a})
    def part_guards(kind):
        # rejected inputs
        for r, a in [(1.0, 0.0), (1.0, -2.0), (-1e-9, 1.0)]:
            try:
                fns[kind](r, a)
                ctx.fail("oracle", f"coulomb.coulomb_gaussian_{kind}:guards", f"coulomb_gaussian_{kind}(r={r}, alpha={a}) not rejected")
            except ValueError:
                pass

    def part_multi():
        # (e) multi-centre = weighted sum of the single-centre functions (and, s-only, of the mpmath potentials),
        #     arguments handed over as float64 / float32 / lists / strided Fortran arrays, every call twice
        for i in range(40 if large else 6):
            ks, kp = ctx.rng.randrange(0, 4), ctx.rng.choice([None, 0, 1, 3])
            cs, co, al = _rand_gaussians(ctx, ks)
            if i % 3 == 2:
                al = [10.0 ** ctx.rng.uniform(6, 13) for _ in al]  # tight: the small-r switch is within reach of the points below
            P = [[ctx.rng.uniform(-3, 3) for _ in range(3)] for _ in range(3)] + ([list(cs[0])] if ks else [])
            if ks:
                near = list(cs[-1]); near[ctx.rng.randrange(3)] += ctx.rng.choice([1, 2, 7, 50]) * thr; P.append(near)
            args = dict(points=P, centers_s=np.array(cs, float).reshape(-1, 3).tolist(), coeffs_s=co, alphas_s=al, centers_p=None, coeffs_p=None, alphas_p=None)
            if kp is not None:
                cp, cop, alp = _rand_gaussians(ctx, kp)
                args.update(centers_p=np.array(cp, float).reshape(-1, 3).tolist(), coeffs_p=cop, alphas_p=alp)
            _check_pot_property(ctx, cb, args, ctx.rng.random() < 0.5, "generated centre/coefficient set", mp_check=(kp is None and ks and i < 3))
    def part_same_object():
        # the same array object for the s and the p parameters
        cs, co, al = _rand_gaussians(ctx, 2)
        C, Kc, A_ = np.array(cs), np.array(co), np.array(al)
        Pn = np.array(cs + [[0.3, -0.2, 0.9]])
        with np.errstate(all="ignore"):
            want = sum(c * (cb.coulomb_gaussian_s(np.linalg.norm(Pn - ctr, axis=1), a) + cb.coulomb_gaussian_p(np.linalg.norm(Pn - ctr, axis=1), a))
                       for c, a, ctr in zip(co, al, cs))
            try:
                got = cb.coulomb_potential(Pn, C, Kc, A_, C, Kc, A_)
            except Exception as e:  # noqa: BLE001
                got = None
                ctx.fail("oracle", "coulomb.coulomb_potential", f"coulomb_potential with the same array objects for the s and p parameters raised {type(e).__name__}: {e}",
                         witness={"centers": cs, "coeffs": co, "alphas": al})
        if got is not None and np.max(np.abs(got - want)) > 1e-9 * (1 + np.max(np.abs(want))):
            ctx.fail("oracle", "coulomb.coulomb_potential", "coulomb_potential with the same array objects for the s and p parameters differs from the weighted sum",
                     witness={"centers": cs, "coeffs": co, "alphas": al})


    def part_table():
        # (f) the shipped table, every element symbol and number, as histories of calls (lazy cache: first call after the
        #     module cache was emptied, warm calls, other elements in between, returned arrays overwritten by the caller)
        raw = _json_tables()
        raw_float = {k: {kk: [float(x) for x in vv] for kk, vv in v.items()} for k, v in raw.items()}
        for sym in raw:
            if sym not in utils.sym2num:
                ctx.fail("oracle", f"data:atomic_gauss_params:{sym}", f"key {sym!r} of atomic_gauss_params.json is not an element symbol")
            ent = raw_float[sym]
            if not (len(ent["coeffs_s"]) == len(ent["alphas_s"]) > 0 and all(a > 0 for a in ent["alphas_s"])):
                ctx.fail("oracle", f"data:atomic_gauss_params:{sym}", f"entry {sym!r} of atomic_gauss_params.json: arrays do not match or an exponent is not positive")
        for z, sym in utils.num2sym.items():
            els = [sym, int(z), sym, int(z), sym.lower(), f"  {sym.upper()} ", np.int64(z)]
            _check_load_history(ctx, cb, utils, raw_float, [(e, False) for e in els], "every element symbol / number, each twice")
        stored = list(raw)
        pool = stored + [s_.lower() for s_ in stored] + [int(utils.sym2num[s_]) for s_ in stored] + [np.int64(utils.sym2num[stored[0]]), np.uint8(utils.sym2num[stored[-1]]),
                                                                                                   True, "He", 2, "Xx", 0, 119, -1, 10**9, 2.0, None, " h ", "HE", "he"]
        for _ in range(12 if large else 3):
            hist = [(ctx.rng.choice(pool), ctx.rng.random() < 0.2) for _ in range(ctx.rng.randrange(4, 14))]
            hist[0] = (hist[0][0], True)
            _check_load_history(ctx, cb, utils, raw_float, hist, "history of calls")
        for e in ("Xx", "", "H2", "Hydrogen", "h e", 0, -1, 119, 10**9, False, np.int64(0)):
            _check_load_history(ctx, cb, utils, raw_float, [(e, False)], "non-elements")
        for e in (2.0, 1.0, None, [1], b"H", np.float64(6.0)):
            _check_load_history(ctx, cb, utils, raw_float, [(e, False)], "neither str nor int")

    parts = _Parts(ctx, "oracle")
    for kind in ("s", "p"):
        for name, fn in (("value", part_value), ("poisson", part_poisson), ("far", part_far), ("switch", part_switch),
                         ("unnormalised", part_unnormalised), ("guards", part_guards)):
            parts.run(f"coulomb.coulomb_gaussian_{kind}:{name}", fn, kind)
    parts.run("coulomb.coulomb_potential:sum", part_multi)
    parts.run("coulomb.coulomb_potential:same-object", part_same_object)
    parts.run("coulomb.load_atomic_gaussian_params:table", part_table)
    # round 3
    _oracle_round3(ctx, cb, utils, thr, large, parts)
    _oracle_reuse(ctx, cb, thr, large, parts)
    # round 4
    _oracle_round4(ctx, cb, utils, thr, large, parts)
    # round 5
    _oracle_round5(ctx, cb, utils, thr, large, parts)
    parts.finish()

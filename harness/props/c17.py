"""C17 — closed-form Coulomb potentials of Gaussian densities are exact everywhere."""
import importlib
import json
import math
from decimal import Decimal

import numpy as np

from ..common import SRC, Ctx, Tokens, close, driver_batch, f2b, fmat, fvec

LEVEL = "proof"
LEVEL_TEXT = (
    "Lean theorems over the reals, for every exponent alpha > 0 and every radius, about the closed forms regenerated "
    "(AST -> Lean, statement by statement) from coulomb.py on every run; erf is its integral definition. s-type: "
    "(r V)'' = -4 pi r rho_s above the small-r switch, r V -> 1 = total charge, the branch value is the r->0 limit with the "
    "quantitative bound |erf(sqrt(a) r)/r - 2 sqrt(a/pi)| <= 2/(3 sqrt(pi)) a^{3/2} r^2 (jump across the switch), the closed form "
    "equals the Coulomb integral (1/r) int_0^r 4 pi s^2 rho + int_r^inf 4 pi s rho, unnormalised factor. p-type: the same set of "
    "theorems for a hand-written corrected formula (p_correct*), and for the code as it is the negation at concrete witnesses "
    "(p_code_ne_correct, p_code_fails_poisson) -- known finding. Multi-centre model = weighted sum (all lists, both modes); "
    "parameter table facts (equal lengths, positive exponents, loading by symbol and number for all 118 elements) decided by "
    "the kernel on the regenerated table. Hand-written parts (multi-centre loop, loader, corrected p formula) are tied by "
    "correspondence; every generated definition is also evaluated at Float and compared with the function it came from."
)
TECHNIQUE = "Lean 4 + Mathlib proof about AST-regenerated closed forms (FTC, Gaussian integral) + differential correspondence + mpmath Coulomb-integral oracle"
GEN = ["coulomb"]
LEAN_MODULES = ["GridVerif.Props.C17"]
THEOREMS = [
    "GridVerif.C17.s_solves_poisson",
    "GridVerif.C17.s_far",
    "GridVerif.C17.s_total_charge",
    "GridVerif.C17.s_origin",
    "GridVerif.C17.s_switch_below_rounding",
    "GridVerif.C17.s_code_vs_closed_form",
    "GridVerif.C17.s_closed_form_is_coulomb_integral",
    "GridVerif.C17.s_origin_is_coulomb_integral",
    "GridVerif.C17.s_unnormalised_factor",
    "GridVerif.C17.s_unnormalised_solves_poisson",
    "GridVerif.C17.p_correct",
    "GridVerif.C17.p_correct_far",
    "GridVerif.C17.p_correct_origin",
    "GridVerif.C17.p_correct_is_coulomb_integral",
    "GridVerif.C17.p_code_ne_correct",
    "GridVerif.C17.p_code_fails_poisson",
    "GridVerif.C17.p_code_minus_correct",
    "GridVerif.C17.p_code_consistent",
    "GridVerif.C17.p_unnormalised_factor",
    "GridVerif.C17.multi_centre_is_sum",
    "GridVerif.C17.table_ok",
    "GridVerif.C17.alphas_positive",
    "GridVerif.C17.load_every_element",
    "GridVerif.C17.load_normalises",
    "GridVerif.C17.load_unknown_rejected",
]
RULE = (
    "correspondence: coulomb_gaussian_s / coulomb_gaussian_p x normalized in {True, False} on (alpha, r) with alpha "
    "log-uniform over 1e-6..1e6 plus structured values (table exponents, powers of ten, extremes), r in {0, denormal, 1e-20, "
    "threshold -/+ 1 ulp, threshold, 2x threshold, x/sqrt(alpha) for x log-uniform 1e-3..30, 1e3, 1e8, 1e150, inf} and rejected "
    "inputs (alpha <= 0, r < 0); coulomb_potential on random centre/coefficient sets (0..5 s, none or 0..4 p functions, 0..6 "
    "points incl. points on a centre and one threshold away, mixed-sign coefficients, rejected exponents); "
    "load_atomic_gaussian_params for every symbol and number of num2sym with random case/padding, non-elements and out-of-range "
    "numbers. Non-trivial = a scalar case with 0 < sqrt(alpha) r < 6 (erf neither 0 nor saturated) or r within a factor 4 of the "
    "switch threshold; a multi-centre case with >= 2 functions; a loader case whose text differs from the stored key"
)
TRUSTED_BASE = [
    "Lean 4.33 kernel, Mathlib; axioms propext, Classical.choice, Quot.sound only (audited per theorem)",
    "Elem R instance: erf := realErf (2/sqrt(pi) * integral_0^x exp(-t^2)), sqrt/exp/rpow/pi := Mathlib's",
    "documented densities rhoS/rhoP (from the docstrings) and the shell-theorem reading 'potential = (1/r) int_0^r 4 pi s^2 rho + int_r^inf 4 pi s rho'",
    "translator harness/translate/coulomb.py (ast -> Lean, elementwise reading of np.divide(where=)/masked assignment); self-checked at Float against the source function on every run",
    "hand models (coulomb_potential loop, loader, ASCII strip/title) tied by correspondence",
    "Float instance of the model (floatErf series, libm) for the correspondence only",
]
ASSUMPTIONS = [
    "IEEE rounding not modelled: equality over the reals in the theorems, rtol 1e-10 in the correspondence",
    "theorems on the differential equation are stated for radii above the 1e-12 switch; below it the code returns the limit value and the deviation from the closed form is bounded by s_origin / s_code_vs_closed_form",
    "shape validation of coulomb_potential and type errors of the loader are outside the model (checked on a malformed stream: rejected by the implementation)",
    "loader model restricted to ASCII input",
    "np.empty_like contents are never read (true for non-NaN radii; NaN radii are outside the property)",
]

RTOL = 1e-10


# ----------------------------------------------------------------------------
# helpers
# ----------------------------------------------------------------------------
def _impl_scalar(fn, r, alpha, normalized):
    try:
        with np.errstate(all="ignore"):
            v = fn(r, alpha, normalized=normalized)
        return ("ok", float(np.asarray(v).reshape(-1)[0]))
    except ValueError:
        return ("value-error", None)


def _ans(line):
    t = Tokens(line)
    tag = t.tok()
    if tag != "ok":
        return (tag, None)
    return ("ok", t)


def _alphas(ctx: Ctx, n, table_alphas):
    fixed = [1.0, 2.0, 0.5, 3.0, 1e-6, 1e6, 1e-3, 1e3, 10.0, 0.1, 7.5, 1e-12, 1e12, 1e-100, 1e100]
    out = list(fixed)
    out += [ctx.rng.choice(table_alphas) for _ in range(min(8, n // 8 + 1))]
    while len(out) < n:
        out.append(10.0 ** ctx.rng.uniform(-6, 6))
    return out[:max(n, len(fixed))]


def _radii(ctx: Ctx, alpha, thr, k):
    sa = math.sqrt(alpha) if alpha > 0 else 1.0
    rs = [0.0, 5e-324, 1e-300, 1e-20, 1e-13, float(np.nextafter(thr, 0.0)), thr, float(np.nextafter(thr, 1.0)),
          2 * thr, 3.7 * thr, 0.3 * thr, 1e-9, 1e3, 1e8, 1e150, float("inf")]
    for _ in range(k):
        x = 10.0 ** ctx.rng.uniform(-3, math.log10(30))
        rs.append(x / sa)
    rs.append(1.0 / sa)
    rs.append(5.999999 / sa)
    rs.append(6.0 / sa)
    return rs


def _nontrivial_scalar(r, alpha, thr):
    if not (alpha > 0) or not (r > 0) or math.isinf(r):
        return False
    x = math.sqrt(alpha) * r
    return (0 < x < 6) or (thr / 4 <= r <= 4 * thr)


def _json_tables():
    with open(SRC / "data" / "atomic_gauss_params.json", encoding="utf-8") as f:
        raw = json.load(f, parse_float=Decimal, parse_int=Decimal)
    return raw


# ----------------------------------------------------------------------------
# correspondence
# ----------------------------------------------------------------------------
def corr(ctx: Ctx):
    cb = importlib.import_module("grid.coulomb")
    utils = importlib.import_module("grid.utils")
    raw = _json_tables()
    table_alphas = sorted({float(a) for e in raw.values() for a in e["alphas_s"]})

    # -- threshold constant ----------------------------------------------------
    tag, t = _ans(driver_batch(["C17.thr"])[0])
    thr = float(cb._R_ZERO_THRESHOLD)
    ctx.count(["thr"], nontrivial=False, tag="threshold")
    if tag != "ok" or t.flt() != thr:
        ctx.fail("corr", "threshold", f"_R_ZERO_THRESHOLD = {thr!r}, generated constant differs")
    # -- scalar closed forms, all variants ------------------------------------
    fns = {"s": cb.coulomb_gaussian_s, "p": cb.coulomb_gaussian_p}
    cases = []
    for alpha in _alphas(ctx, ctx.n(110, 4000), table_alphas):
        for r in _radii(ctx, alpha, thr, ctx.n(8, 12)):
            cases.append((r, alpha))
    # rejected inputs
    bad = [(1.0, 0.0), (1.0, -1.0), (0.0, -1e-300), (-1.0, 1.0), (-1e-13, 2.0), (-5e-324, 2.0), (-1.0, -1.0),
           (0.0, 0.0), (float("inf"), 0.0)]
    cases += bad
    lines, meta = [], []
    for r, alpha in cases:
        for kind in ("s", "p"):
            for nz in (True, False):
                lines.append(f"C17.{kind} {f2b(r)} {f2b(alpha)} {int(nz)}")
                meta.append((kind, r, alpha, nz))
    answers = driver_batch(lines)
    # implementation: scalar calls (the function is elementwise; array calls are cross-checked below)
    for (kind, r, alpha, nz), line in zip(meta, answers):
        itag, iv = _impl_scalar(fns[kind], r, alpha, nz)
        mtag, t = _ans(line)
        branch = ("reject" if itag != "ok" else "r=0" if r == 0 else "below-switch" if r < thr else
                  "near-switch" if r <= 4 * thr else "saturated" if math.sqrt(alpha) * r >= 6 else "bulk")
        ctx.count([kind, r, alpha, nz], nontrivial=_nontrivial_scalar(r, alpha, thr), tag=f"{kind}:{'n' if nz else 'u'}:{branch}")
        if itag != mtag:
            ctx.fail("corr", f"coulomb_gaussian_{kind}", f"coulomb_gaussian_{kind}(r={r!r}, alpha={alpha!r}, normalized={nz}): "
                     f"implementation {itag}, model {mtag}", witness={"r": r, "alpha": alpha, "normalized": nz})
            continue
        if itag == "ok":
            mv = t.flt()
            if not close(iv, mv, rtol=RTOL):
                ctx.fail("corr", f"coulomb_gaussian_{kind}", f"coulomb_gaussian_{kind}(r={r!r}, alpha={alpha!r}, normalized={nz}): "
                         f"implementation {iv!r}, generated model {mv!r}",
                         witness={"r": r, "alpha": alpha, "normalized": nz, "impl": iv, "model": mv})
    # array call == scalar calls (elementwise reading of the translator)
    for kind in ("s", "p"):
        for nz in (True, False):
            alpha = 10.0 ** ctx.rng.uniform(-3, 3)
            rs = np.array(_radii(ctx, alpha, thr, 6))
            ctx.rng.shuffle(rs)
            with np.errstate(all="ignore"):
                arr = fns[kind](rs, alpha, normalized=nz)
                single = [float(fns[kind](float(x), alpha, normalized=nz)[0]) for x in rs]
            ctx.count([kind, "array", alpha, nz], nontrivial=True, tag=f"{kind}:array")
            if arr.shape != rs.shape or not all(close(float(a), b, rtol=0) for a, b in zip(arr, single)):
                ctx.fail("corr", f"coulomb_gaussian_{kind}:elementwise", f"coulomb_gaussian_{kind} on an array differs from the "
                         f"calls on its elements (alpha={alpha!r})", witness={"r": rs.tolist(), "alpha": alpha})

    # -- the hand-written corrected p formula is what mpmath's Coulomb integral gives ------
    pts = [(0.0, 1.0), (0.0, 3.0), (0.5, 3.0), (2.0, 3.0), (1.0, 1.0), (0.1, 7.5), (3.0, 0.3), (1e-13, 2.0),
           (10.0 ** ctx.rng.uniform(-2, 1), 10.0 ** ctx.rng.uniform(-2, 2))]
    ans = driver_batch([f"C17.pcorr {f2b(r)} {f2b(a)} {int(nz)}" for r, a in pts for nz in (True, False)])
    i = 0
    for r, a in pts:
        for nz in (True, False):
            tag, t = _ans(ans[i]); i += 1
            ref = float(_ref_potential("p", a, r, nz))
            ctx.count(["pcorr", r, a, nz], nontrivial=r > 0, tag="pcorr-vs-mpmath")
            if tag != "ok" or not close(t.flt(), ref, rtol=1e-9):
                ctx.fail("corr", "pcorr-model", f"hand-written corrected p formula at r={r!r}, alpha={a!r}, normalized={nz} "
                         f"is not the Coulomb integral of the documented density ({ref!r})")

    # -- multi-centre ------------------------------------------------------------
    _corr_multi(ctx, cb, thr)
    # -- loader --------------------------------------------------------------------
    _corr_loader(ctx, cb, utils, raw)


def _rand_gaussians(ctx: Ctx, k, bad_alpha=False):
    centers = [[round(ctx.rng.uniform(-2, 2), 3) for _ in range(3)] for _ in range(k)]
    coeffs = [ctx.rng.choice([1.0, -1.0, 0.5, 2.0, ctx.rng.uniform(-3, 3), 0.0]) for _ in range(k)]
    alphas = [10.0 ** ctx.rng.uniform(-3, 3) for _ in range(k)]
    if bad_alpha and k:
        alphas[ctx.rng.randrange(k)] = ctx.rng.choice([0.0, -1.0, -1e-9])
    return centers, coeffs, alphas


def _corr_multi(ctx: Ctx, cb, thr):
    n = ctx.n(160, 4000)
    cases = []
    for i in range(n):
        ks = ctx.rng.choice([0, 1, 1, 2, 3, 5])
        havep = ctx.rng.random() < 0.6
        kp = ctx.rng.choice([0, 1, 2, 4]) if havep else 0
        bad = ctx.rng.random() < 0.08
        badp = havep and ctx.rng.random() < 0.06
        cs, ks_, as_ = _rand_gaussians(ctx, ks, bad_alpha=bad)
        cp, kp_, ap_ = _rand_gaussians(ctx, kp, bad_alpha=badp)
        npt = ctx.rng.choice([0, 1, 2, 3, 6])
        points = []
        allc = cs + cp
        for _ in range(npt):
            u = ctx.rng.random()
            if allc and u < 0.25:
                points.append(list(ctx.rng.choice(allc)))  # on a nucleus: r = 0
            elif allc and u < 0.45:
                c = list(ctx.rng.choice(allc))
                c[ctx.rng.randrange(3)] += ctx.rng.choice([thr, 0.5 * thr, 2 * thr, -thr, 1e-9])
                points.append(c)
            else:
                points.append([ctx.rng.uniform(-4, 4) for _ in range(3)])
        nz = ctx.rng.random() < 0.6
        cases.append((nz, points, (cs, ks_, as_), (cp, kp_, ap_) if havep else None))
    lines = []
    for nz, points, s, p in cases:
        ln = f"C17.pot {int(nz)} {fmat(points) if points else '0 3'} {fmat(s[0]) if s[0] else '0 3'} {fvec(s[1])} {fvec(s[2])}"
        if p is None:
            ln += " 0"
        else:
            ln += f" 1 {fmat(p[0]) if p[0] else '0 3'} {fvec(p[1])} {fvec(p[2])}"
        lines.append(ln)
    answers = driver_batch(lines)
    for (nz, points, s, p), line in zip(cases, answers):
        P = np.array(points, dtype=float).reshape(-1, 3)
        S = np.array(s[0], dtype=float).reshape(-1, 3)
        kw = {}
        if p is not None:
            kw = dict(centers_p=np.array(p[0], dtype=float).reshape(-1, 3), coeffs_p=np.array(p[1]), alphas_p=np.array(p[2]))
        try:
            with np.errstate(all="ignore"):
                v = cb.coulomb_potential(P, S, np.array(s[1]), np.array(s[2]), normalized=nz, **kw)
            itag = "ok"
        except ValueError:
            itag, v = "value-error", None
        mtag, t = _ans(line)
        nfun = len(s[1]) + (len(p[1]) if p else 0)
        ctx.count(["pot", nz, points, s, p], nontrivial=nfun >= 2 and len(points) > 0,
                  tag="pot:" + ("reject" if itag != "ok" else f"s{len(s[1])}p{'-' if p is None else len(p[1])}"))
        if itag != mtag:
            ctx.fail("corr", "coulomb_potential", f"coulomb_potential: implementation {itag}, model {mtag}",
                     witness={"normalized": nz, "points": points, "s": s, "p": p})
            continue
        if itag != "ok":
            continue
        mv = t.fvec()
        # scale of the intermediates: sum of |c| |V_k| per point
        scale = np.zeros(len(points))
        with np.errstate(all="ignore"):
            for c, a, ctr in zip(s[1], s[2], s[0]):
                scale += abs(c) * np.abs(cb.coulomb_gaussian_s(np.linalg.norm(P - np.array(ctr), axis=-1), a, normalized=nz))
            if p is not None:
                for c, a, ctr in zip(p[1], p[2], p[0]):
                    scale += abs(c) * np.abs(cb.coulomb_gaussian_p(np.linalg.norm(P - np.array(ctr), axis=-1), a, normalized=nz))
        ok = len(mv) == len(v) and all(close(float(a), b, rtol=RTOL, scale=max(float(sc), abs(b))) for a, b, sc in zip(v, mv, scale))
        if not ok:
            ctx.fail("corr", "coulomb_potential", f"coulomb_potential: implementation {v.tolist()}, model {mv}",
                     witness={"normalized": nz, "points": points, "s": s, "p": p})
    # malformed stream: rejected before the modelled part
    P = np.zeros((2, 3)); S = np.zeros((1, 3))
    malformed = [
        dict(points=np.zeros((2, 2)), centers_s=S, coeffs_s=[1.0], alphas_s=[1.0]),
        dict(points=np.zeros(3), centers_s=S, coeffs_s=[1.0], alphas_s=[1.0]),
        dict(points=P, centers_s=np.zeros((1, 2)), coeffs_s=[1.0], alphas_s=[1.0]),
        dict(points=P, centers_s=S, coeffs_s=[1.0, 2.0], alphas_s=[1.0]),
        dict(points=P, centers_s=S, coeffs_s=[1.0], alphas_s=[1.0, 2.0]),
        dict(points=P, centers_s=S, coeffs_s=[1.0], alphas_s=[1.0], coeffs_p=[1.0]),
        dict(points=P, centers_s=S, coeffs_s=[1.0], alphas_s=[1.0], centers_p=S, alphas_p=[1.0]),
        dict(points=P, centers_s=S, coeffs_s=[1.0], alphas_s=[1.0], centers_p=S, coeffs_p=[1.0, 1.0], alphas_p=[1.0]),
        dict(points=P, centers_s=S, coeffs_s=[1.0], alphas_s=[1.0], centers_p=S, coeffs_p=[1.0], alphas_p=[1.0, 3.0]),
        dict(points=P, centers_s=S, coeffs_s=[1.0], alphas_s=[1.0], centers_p=np.zeros((1, 4)), coeffs_p=[1.0], alphas_p=[1.0]),
    ]
    for kw in malformed:
        ctx.count(["pot-malformed", sorted(kw)], nontrivial=False, tag="pot:malformed")
        try:
            cb.coulomb_potential(**kw)
            ctx.fail("corr", "coulomb_potential:malformed", f"malformed call not rejected: {sorted(kw)}")
        except ValueError:
            pass


def _variants(ctx: Ctx, sym):
    pads = ["", " ", "  ", "\t", "\n", "\x0b", "\x0c", "\r", "\x1c", "\x1f", " \t "]
    out = {sym, sym.lower(), sym.upper(), sym.swapcase()}
    for _ in range(2):
        out.add(ctx.rng.choice(pads) + ctx.rng.choice([sym, sym.lower(), sym.upper()]) + ctx.rng.choice(pads))
    return sorted(out)


def _impl_load(cb, e):
    try:
        c, a = cb.load_atomic_gaussian_params(e)
        return ("ok", (np.array(c), np.array(a)))
    except ValueError:
        return ("value-error", None)
    except TypeError:
        return ("type-error", None)


def _corr_loader(ctx: Ctx, cb, utils, raw):
    reqs = []
    for z, sym in utils.num2sym.items():
        reqs.append(("num", int(z)))
        for v in _variants(ctx, sym):
            reqs.append(("sym", v))
    reqs += [("num", n) for n in (0, -1, -17, 119, 120, 10**6, 2**70)]
    junk = ["", " ", "Xx", "Qq", "H2", "Hydrogen", "h e", "H-", "1", "cl1", "C l", "c\tl", "  ", "A", "zz", "He\x00", "\x1cO\x1d",
            "hE", "ClCl", "O.", "_N", "n_"]
    for _ in range(ctx.n(40, 1500)):
        L = ctx.rng.randrange(0, 5)
        junk.append("".join(chr(ctx.rng.choice([32, 9, 10, 72, 104, 69, 101, 67, 99, 76, 108, 79, 111, 78, 110, 49, 45, 95,
                                                   ctx.rng.randrange(0, 128)])) for _ in range(L)))
    reqs += [("sym", j) for j in junk]
    lines = []
    for k, v in reqs:
        if k == "num":
            lines.append(f"C17.load num {v}")
        else:
            lines.append("C17.load sym " + " ".join([str(len(v))] + [str(ord(ch)) for ch in v]))
    answers = driver_batch(lines)
    for (k, v), line in zip(reqs, answers):
        itag, iv = _impl_load(cb, v)
        mtag, t = _ans(line)
        stored = (k == "sym" and v in raw)
        ctx.count(["load", k, v], nontrivial=not stored, tag=f"load:{k}:{itag}")
        if itag != mtag:
            ctx.fail("corr", "load_atomic_gaussian_params", f"load_atomic_gaussian_params({v!r}): implementation {itag}, model {mtag}",
                     witness={"element": v})
            continue
        if itag == "ok":
            mc, ma = t.fvec(), t.fvec()
            if len(mc) != len(iv[0]) or len(ma) != len(iv[1]) or \
                    not all(close(float(a), b, rtol=4e-16) for a, b in zip(iv[0], mc)) or \
                    not all(close(float(a), b, rtol=4e-16) for a, b in zip(iv[1], ma)):
                ctx.fail("corr", "load_atomic_gaussian_params", f"load_atomic_gaussian_params({v!r}): arrays differ from the generated table",
                         witness={"element": v})
    # malformed stream: wrong types
    for bad in (1.0, None, [1], (1,), b"H", 1 + 0j):
        itag, _ = _impl_load(cb, bad)
        ctx.count(["load", "type", repr(bad)], nontrivial=False, tag="load:malformed")
        if itag != "type-error":
            ctx.fail("corr", "load_atomic_gaussian_params:malformed", f"element={bad!r} answered {itag}, expected TypeError")
    # NumPy integers take the integer path
    for z in (np.int64(8), np.int32(17), np.uint8(1)):
        a = _impl_load(cb, z)
        b = _impl_load(cb, int(z))
        ctx.count(["load", "npint", int(z)], nontrivial=False, tag="load:npint")
        if a[0] != b[0] or (a[0] == "ok" and not (np.array_equal(a[1][0], b[1][0]) and np.array_equal(a[1][1], b[1][1]))):
            ctx.fail("corr", "load_atomic_gaussian_params:npint", f"NumPy integer {z!r} loads differently from int")


# ----------------------------------------------------------------------------
# oracle: the property on the implementation against mpmath
# ----------------------------------------------------------------------------
def _mp():
    import mpmath as mp

    mp.mp.dps = 30
    return mp


def _density(mp, kind, a, normalized):
    """The *documented* densities (docstrings of coulomb_gaussian_s / coulomb_gaussian_p)."""
    if kind == "s":
        pre = (a / mp.pi) ** mp.mpf("1.5") if normalized else mp.mpf(1)
        return lambda s: pre * mp.exp(-a * s * s)
    pre = mp.mpf(2) / 3 * a ** mp.mpf("2.5") / mp.pi ** mp.mpf("1.5") if normalized else mp.mpf(1)
    return lambda s: pre * s * s * mp.exp(-a * s * s)


def _breaks(mp, lo, hi, L):
    pts = [lo]
    for k in (0.5, 1, 2, 3, 4, 6, 8, 12, 16):
        x = lo + k * L
        if x < hi:
            pts.append(x)
    pts.append(hi)
    return pts


def _ref_potential(kind, alpha, r, normalized):
    """Electrostatic potential of the documented spherical density at radius r:
    (1/r) int_0^r 4 pi s^2 rho ds + int_r^inf 4 pi s rho ds   (mpmath quadrature)."""
    mp = _mp()
    a, r = mp.mpf(alpha), mp.mpf(r)
    rho = _density(mp, kind, a, normalized)
    L = 1 / mp.sqrt(a)
    inner = mp.mpf(0)
    if r > 0:
        inner = mp.quad(lambda s: 4 * mp.pi * s * s * rho(s), _breaks(mp, mp.mpf(0), r, L)) / r
    outer = mp.quad(lambda s: 4 * mp.pi * s * rho(s), _breaks(mp, r, mp.inf, L))
    return inner + outer


def _total_charge(kind, alpha, normalized):
    mp = _mp()
    a = mp.mpf(alpha)
    rho = _density(mp, kind, a, normalized)
    return mp.quad(lambda s: 4 * mp.pi * s * s * rho(s), _breaks(mp, mp.mpf(0), mp.inf, 1 / mp.sqrt(a)))


SNIPPET_POT = """import warnings; warnings.filterwarnings('ignore')
import mpmath as mp
from grid.coulomb import coulomb_gaussian_{kind} as f
mp.mp.dps = 30
kind, alpha, r, normalized = {kind!r}, {alpha!r}, {r!r}, {normalized!r}
a, R = mp.mpf(alpha), mp.mpf(r)
if kind == 's':
    pre = (a / mp.pi) ** mp.mpf('1.5') if normalized else 1
    rho = lambda s: pre * mp.exp(-a * s * s)                     # documented density
else:
    pre = mp.mpf(2) / 3 * a ** mp.mpf('2.5') / mp.pi ** mp.mpf('1.5') if normalized else 1
    rho = lambda s: pre * s * s * mp.exp(-a * s * s)             # documented density
L = 1 / mp.sqrt(a)
inner = mp.quad(lambda s: 4 * mp.pi * s * s * rho(s), [0, min(R, L), R]) / R if R > 0 else 0
outer = mp.quad(lambda s: 4 * mp.pi * s * rho(s), [R, R + L, R + 4 * L, R + 12 * L, mp.inf])
ref = inner + outer                                             # Coulomb potential of that density
got = float(f(r, alpha, normalized=normalized)[0])
assert abs(got - ref) <= 1e-9 * abs(ref), f'coulomb_gaussian_{{kind}}(r={{r}}, alpha={{alpha}}, normalized={{normalized}}) = {{got}}, potential of the documented density = {{mp.nstr(ref, 17)}} (ratio {{mp.nstr(got / ref, 8)}})'
"""

SNIPPET_LOAD = """import warnings; warnings.filterwarnings('ignore')
import json, numpy as np
from importlib.resources import files
from grid.coulomb import load_atomic_gaussian_params
from grid.utils import num2sym
raw = json.load(open(files('grid.data').joinpath('atomic_gauss_params.json')))
for z, sym in num2sym.items():
    for e in (sym, z):
        try:
            c, a = load_atomic_gaussian_params(e); got = 'ok'
        except ValueError:
            got = 'ValueError'
        if sym in raw:
            assert got == 'ok' and len(c) == len(a) > 0 and np.all(a > 0), f'{{e!r}}: {{got}}'
            assert np.array_equal(c, np.array(raw[sym]['coeffs_s'], float)) and np.array_equal(a, np.array(raw[sym]['alphas_s'], float)), f'{{e!r}}: arrays differ from the file'
        else:
            assert got == 'ValueError', f'{{e!r}} has no parameters but was not rejected'
"""


def oracle_at(ctx: Ctx, failure):
    """Evaluate the property at an input on which model and implementation disagreed."""
    w = failure.witness or {}
    if not (isinstance(w, dict) and {"r", "alpha", "normalized"} <= set(w)) or not failure.key.startswith("coulomb_gaussian_"):
        return
    kind = failure.key.split("_")[2][:1]
    if kind not in ("s", "p"):
        return
    cb = importlib.import_module("grid.coulomb")
    mp = _mp()
    r, a, nz = float(w["r"]), float(w["alpha"]), bool(w["normalized"])
    fn = {"s": cb.coulomb_gaussian_s, "p": cb.coulomb_gaussian_p}[kind]
    with np.errstate(all="ignore"):
        got = float(fn(r, a, normalized=nz)[0])
    if kind == "s":
        ref = _ref_potential("s", a, r, nz)
        if abs(got - ref) > 1e-10 * abs(ref):
            ctx.fail("oracle", "coulomb.coulomb_gaussian_s",
                     f"coulomb_gaussian_s(r={r!r}, alpha={a!r}, normalized={nz}) = {got!r}, but the Coulomb potential of the documented density is {mp.nstr(ref, 17)}",
                     witness={"r": r, "alpha": a, "normalized": nz, "got": got, "reference": mp.nstr(ref, 20)},
                     snippet=SNIPPET_POT.format(kind="s", alpha=a, r=r, normalized=nz))
    else:
        # the p-type function is a listed finding (wrong constants); a deviation from the formula its
        # own docstring states is a different defect and is reported under its own key
        A, R = mp.mpf(a), mp.mpf(r)
        doc = (mp.erf(mp.sqrt(A) * R) / R if r > 0 else 2 * mp.sqrt(A / mp.pi)) + mp.mpf(4) / 3 * mp.sqrt(A / mp.pi) * mp.exp(-A * R * R)
        if not nz:
            doc *= mp.mpf(3) / 2 * mp.pi ** mp.mpf("1.5") / A ** mp.mpf("2.5")
        if abs(got - doc) > 1e-10 * abs(doc):
            ctx.fail("oracle", "coulomb.coulomb_gaussian_p:vs-documented-formula",
                     f"coulomb_gaussian_p(r={r!r}, alpha={a!r}, normalized={nz}) = {got!r} deviates from the formula stated in its own docstring, {mp.nstr(doc, 17)} "
                     "(beyond the listed finding about that formula's constants)",
                     witness={"r": r, "alpha": a, "normalized": nz, "got": got, "documented_formula": mp.nstr(doc, 20)},
                     snippet=("import mpmath as mp, numpy as np\nfrom grid.coulomb import coulomb_gaussian_p as f\nmp.mp.dps = 40\n"
                              f"a, r, nz = {a!r}, {r!r}, {nz}\nA, R = mp.mpf(a), mp.mpf(r)\n"
                              "doc = (mp.erf(mp.sqrt(A)*R)/R if r > 0 else 2*mp.sqrt(A/mp.pi)) + mp.mpf(4)/3*mp.sqrt(A/mp.pi)*mp.exp(-A*R*R)\n"
                              "doc = doc if nz else doc*mp.mpf(3)/2*mp.pi**mp.mpf('1.5')/A**mp.mpf('2.5')\n"
                              "got = float(f(r, a, normalized=nz)[0])\nassert abs(got - doc) <= 1e-10*abs(doc), (got, doc)\n"))


def oracle(ctx: Ctx, budget: str):
    cb = importlib.import_module("grid.coulomb")
    utils = importlib.import_module("grid.utils")
    mp = _mp()
    large = budget == "large" or ctx.thorough
    thr = float(cb._R_ZERO_THRESHOLD)
    fns = {"s": cb.coulomb_gaussian_s, "p": cb.coulomb_gaussian_p}

    def val(kind, r, a, nz):
        with np.errstate(all="ignore"):
            return float(fns[kind](r, a, normalized=nz)[0])

    # (a) value = Coulomb integral of the documented density ----------------------
    samples = [(1.0, 0.0), (3.0, 0.0), (1.0, 1.0), (3.0, 0.5), (3.0, 2.0), (2.0, 1.5), (0.3, 3.0), (7.5, 0.1),
               (1e-6, 0.0), (1e6, 0.0), (1e-6, 2e3), (1e6, 1e-3), (1.0, thr), (1.0, float(np.nextafter(thr, 0))), (1.0, 25.0)]
    for _ in range(60 if large else 8):
        a = 10.0 ** ctx.rng.uniform(-6, 6)
        samples.append((a, 10.0 ** ctx.rng.uniform(-2.5, 1.2) / math.sqrt(a)))
    # tight and diffuse Gaussians at radii from just above the switch up to the bulk
    for _ in range(120 if large else 16):
        a = 10.0 ** ctx.rng.uniform(-10, 14)
        samples.append((a, 10.0 ** ctx.rng.uniform(math.log10(thr), math.log10(thr) + 8)))
    for kind in ("s", "p"):
        nfail = 0
        for a, r in samples:
            for nz in (True, False):
                if not nz and ctx.rng.random() < 0.5 and (a, r) not in samples[:6]:
                    continue
                ref = _ref_potential(kind, a, r, nz)
                got = val(kind, r, a, nz)
                if abs(got - ref) > 1e-10 * abs(ref):
                    nfail += 1
                    ctx.fail("oracle", f"coulomb.coulomb_gaussian_{kind}",
                             f"coulomb_gaussian_{kind}(r={r!r}, alpha={a!r}, normalized={nz}) = {got!r}, but the Coulomb potential "
                             f"of the documented density is {mp.nstr(ref, 17)} (ratio {mp.nstr(got / ref, 8)})",
                             witness={"r": r, "alpha": a, "normalized": nz, "got": got, "reference": mp.nstr(ref, 20),
                                      "lean": "GridVerif.C17.p_code_ne_correct / p_code_fails_poisson" if kind == "p" else None},
                             snippet=SNIPPET_POT.format(kind=kind, alpha=a, r=r, normalized=nz))
        # (b) radial Poisson residual of r*V (5-point second difference of the implementation)
        for a, x in [(1.0, 1.0), (2.0, 0.7), (1e-4, 1.3), (1e4, 0.4)] + [(10.0 ** ctx.rng.uniform(-6, 6), ctx.rng.uniform(0.3, 2.5))
                                                                           for _ in range(30 if large else 3)]:
            sa = math.sqrt(a)
            r, h = x / sa, 0.02 / sa
            u = [(r + k * h) * val(kind, r + k * h, a, True) for k in (-2, -1, 0, 1, 2)]
            d2 = (-u[0] + 16 * u[1] - 30 * u[2] + 16 * u[3] - u[4]) / (12 * h * h)
            want = float(-4 * mp.pi * mp.mpf(r) * _density(mp, kind, mp.mpf(a), True)(mp.mpf(r)))
            if abs(d2 - want) > 1e-5 * a:
                ctx.fail("oracle", f"coulomb.coulomb_gaussian_{kind}",
                         f"coulomb_gaussian_{kind}: (r V)'' = {d2!r} at r={r!r}, alpha={a!r}, radial Poisson equation of the documented "
                         f"density requires -4 pi r rho = {want!r}",
                         witness={"r": r, "alpha": a, "second_difference": d2, "required": want},
                         snippet=SNIPPET_POT.format(kind=kind, alpha=a, r=r, normalized=True))
        # (c) large r: r V(r) -> total charge
        for a in [1.0, 1e-6, 1e6, 10.0 ** ctx.rng.uniform(-6, 6)]:
            for nz in (True, False):
                q = _total_charge(kind, a, nz)
                for x in (40.0, 1e6):
                    r = x / math.sqrt(a)
                    got = r * val(kind, r, a, nz)
                    if abs(got - q) > 1e-12 * abs(q):
                        ctx.fail("oracle", f"coulomb.coulomb_gaussian_{kind}:far",
                                 f"coulomb_gaussian_{kind}: r V(r) = {got!r} at r={r!r}, alpha={a!r}, normalized={nz}; total charge {mp.nstr(q, 17)}",
                                 witness={"r": r, "alpha": a, "normalized": nz})
        # (d) continuity across the small-r switch (and r = 0 = limit)
        for a in [1.0, 1e-6, 1e6, 3.0, 10.0 ** ctx.rng.uniform(-6, 6)]:
            for nz in (True, False):
                below, at, above = val(kind, float(np.nextafter(thr, 0)), a, nz), val(kind, thr, a, nz), val(kind, float(np.nextafter(thr, 1)), a, nz)
                zero, small = val(kind, 0.0, a, nz), val(kind, 1e-7 / math.sqrt(a) if 1e-7 / math.sqrt(a) >= thr else 10 * thr, a, nz)
                if max(abs(below - at), abs(above - at), abs(zero - below)) > 1e-12 * abs(at) or abs(small - zero) > 1e-9 * abs(zero):
                    ctx.fail("oracle", f"coulomb.coulomb_gaussian_{kind}:switch",
                             f"coulomb_gaussian_{kind} jumps across the small-r switch: alpha={a!r}, normalized={nz}: V(0)={zero!r}, "
                             f"V(thr-)={below!r}, V(thr)={at!r}, V(thr+)={above!r}, V(small)={small!r}",
                             witness={"alpha": a, "normalized": nz})
        # unnormalised / normalised = ratio of the documented densities
        for a in [1.0, 0.37, 1e-6, 1e6, 10.0 ** ctx.rng.uniform(-6, 6)]:
            s0 = mp.mpf(1) / mp.sqrt(mp.mpf(a))
            fac = _density(mp, kind, mp.mpf(a), False)(s0) / _density(mp, kind, mp.mpf(a), True)(s0)
            for r in (0.0, thr, 0.8 / math.sqrt(a), 30 / math.sqrt(a)):
                u, n_ = val(kind, r, a, False), val(kind, r, a, True)
                if abs(u - fac * n_) > 1e-12 * abs(u):
                    ctx.fail("oracle", f"coulomb.coulomb_gaussian_{kind}:unnormalised",
                             f"coulomb_gaussian_{kind}(normalized=False)/(normalized=True) = {u / n_!r} at r={r!r}, alpha={a!r}; "
                             f"the documented densities differ by {mp.nstr(fac, 17)}", witness={"r": r, "alpha": a})
        # rejected inputs
        for r, a in [(1.0, 0.0), (1.0, -2.0), (-1e-9, 1.0)]:
            try:
                fns[kind](r, a)
                ctx.fail("oracle", f"coulomb.coulomb_gaussian_{kind}:guards", f"coulomb_gaussian_{kind}(r={r}, alpha={a}) not rejected")
            except ValueError:
                pass

    # (e) multi-centre = weighted sum of the single-centre functions (and, s-only, of the mpmath potentials)
    for i in range(40 if large else 6):
        ks, kp = ctx.rng.randrange(0, 4), ctx.rng.choice([None, 0, 1, 3])
        cs, co, al = _rand_gaussians(ctx, ks)
        P = np.array([[ctx.rng.uniform(-3, 3) for _ in range(3)] for _ in range(3)] + ([cs[0]] if ks else []))
        kw = {}
        nz = ctx.rng.random() < 0.5
        want = np.zeros(len(P))
        with np.errstate(all="ignore"):
            for c, a, ctr in zip(co, al, cs):
                want = want + c * cb.coulomb_gaussian_s(np.sqrt(((P - np.array(ctr)) ** 2).sum(axis=1)), a, normalized=nz)
            if kp is not None:
                cp, cop, alp = _rand_gaussians(ctx, kp)
                kw = dict(centers_p=np.array(cp).reshape(-1, 3), coeffs_p=np.array(cop), alphas_p=np.array(alp))
                for c, a, ctr in zip(cop, alp, cp):
                    want = want + c * cb.coulomb_gaussian_p(np.sqrt(((P - np.array(ctr)) ** 2).sum(axis=1)), a, normalized=nz)
            got = cb.coulomb_potential(P, np.array(cs).reshape(-1, 3), np.array(co), np.array(al), normalized=nz, **kw)
        sc = max(1.0, float(np.max(np.abs(want)))) if len(want) else 1.0
        if got.shape != (len(P),) or np.max(np.abs(got - want), initial=0.0) > 1e-10 * sc * (ks + (kp or 0) + 1):
            ctx.fail("oracle", "coulomb.coulomb_potential", f"coulomb_potential differs from the coefficient-weighted sum of the closed forms: {got.tolist()} vs {want.tolist()}",
                     witness={"points": P.tolist(), "s": [cs, co, al], "normalized": nz})
        if kp is None and ks and i < 3:
            refv = [sum(c * _ref_potential("s", a, float(np.linalg.norm(p - np.array(ctr))), nz) for c, a, ctr in zip(co, al, cs)) for p in P]
            mag = [sum(abs(c) * abs(_ref_potential("s", a, float(np.linalg.norm(p - np.array(ctr))), nz)) for c, a, ctr in zip(co, al, cs)) for p in P]
            if any(abs(g - rv) > 1e-9 * (m + mp.mpf(10) ** -300) for g, rv, m in zip(got, refv, mag)):
                ctx.fail("oracle", "coulomb.coulomb_potential", "coulomb_potential (s functions only) differs from the sum of the Coulomb integrals of the documented densities",
                         witness={"points": P.tolist(), "s": [cs, co, al], "normalized": nz})

    # (f) the shipped table, every element symbol and number
    raw = _json_tables()
    for sym in raw:
        if sym not in utils.sym2num:
            ctx.fail("oracle", f"data:atomic_gauss_params:{sym}", f"key {sym!r} of atomic_gauss_params.json is not an element symbol")
    first = {}
    for z, sym in utils.num2sym.items():
        for e in (sym, int(z), sym.lower(), f"  {sym.upper()} "):
            tag, arrs = _impl_load(cb, e)
            if sym in raw:
                wc = np.array([float(x) for x in raw[sym]["coeffs_s"]])
                wa = np.array([float(x) for x in raw[sym]["alphas_s"]])
                ok = tag == "ok" and arrs[0].ndim == 1 and len(arrs[0]) == len(arrs[1]) > 0 and bool(np.all(arrs[1] > 0)) \
                    and np.array_equal(arrs[0], wc) and np.array_equal(arrs[1], wa)
                if not ok:
                    ctx.fail("oracle", f"data:atomic_gauss_params:{sym}",
                             f"load_atomic_gaussian_params({e!r}): {tag}; expected matching arrays of positive exponents equal to the file "
                             f"({len(wc)} coefficients, {len(wa)} exponents, min exponent {wa.min() if len(wa) else None})",
                             witness={"element": e}, snippet=SNIPPET_LOAD.format())
                elif isinstance(e, str) and e == sym:
                    first[sym] = (arrs[0].copy(), arrs[1].copy())
                    arrs[0][:] = -1.0  # the caller's edit must not leak into later loads
                    arrs[1][:] = -1.0
                else:
                    if sym in first and not (np.array_equal(first[sym][0], arrs[0]) and np.array_equal(first[sym][1], arrs[1])):
                        ctx.fail("oracle", "coulomb.load_atomic_gaussian_params:idempotent",
                                 f"load_atomic_gaussian_params({e!r}) after an earlier load of {sym!r} (whose result was edited) returns different arrays",
                                 witness={"element": e})
            elif tag != "value-error":
                ctx.fail("oracle", "coulomb.load_atomic_gaussian_params:unknown",
                         f"load_atomic_gaussian_params({e!r}): no parameters shipped for {sym}, answered {tag}", witness={"element": e},
                         snippet=SNIPPET_LOAD.format())
    for e in ("Xx", "", "H2", "Hydrogen", "h e", 0, -1, 119, 10**9):
        tag, _ = _impl_load(cb, e)
        if tag != "value-error":
            ctx.fail("oracle", "coulomb.load_atomic_gaussian_params:unknown", f"load_atomic_gaussian_params({e!r}) answered {tag}, expected ValueError",
                     witness={"element": e})

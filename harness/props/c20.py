"""C20 — library calls never modify the caller's arrays, dictionaries or callback results.

Decision: Lean theorem `analysis_sound` (soundness of the may-alias analysis over the effects IR,
for every aliasing pattern, callback behaviour and execution order) + kernel decision
`all_functions_safe` on the IR regenerated from /repo by harness/translate/effects.py.
Tie of the IR extraction to the code: dynamic validation (`corr`): every public entry point in
the registry (harness/props/c20_registry.py) is called with byte-snapshotted, write-protected
and self-aliased arguments and with callbacks returning their input / a cached array; the set of
caller-owned objects observed to change must equal the IR's prediction (empty)."""
import importlib
import traceback

import numpy as np

from ..common import Ctx
from ..translate import effects as fx

LEVEL = "proof"
LEVEL_TEXT = (
    "Lean theorem analysis_sound: if the may-alias check accepts a function's effects IR then, for every initial "
    "aliasing pattern among the arguments, every callback behaviour and every execution order of its statements, no "
    "caller-owned object changes; all_functions_safe: the kernel decides the check for the IR of every function and "
    "method of src/grid (nested functions, lambdas and private helpers inlined), regenerated from the source on every "
    "run. Default-valued parameters of nested functions that the translator binds to their default are covered by "
    "enter_pinned / runC_sound (Python's argument binding cannot supply them under the recorded call shapes) and "
    "all_pins_ok (the kernel re-decides that condition on the regenerated shapes). "
    "The IR extraction (which NumPy calls copy / view / mutate) is validated dynamically on every run by calling the "
    "public entry points with read-only, snapshotted and aliased arguments and input-returning callbacks."
)
TECHNIQUE = "Lean 4 proof (soundness of an alias/effects analysis + kernel-decided check of the regenerated IR) + dynamic validation"
GEN = ["effects"]
LEAN_MODULES = ["GridVerif.Props.C20", "GridVerif.Props.C20.Pinned"]
THEOREMS = [
    "GridVerif.C20.analysis_sound",
    "GridVerif.C20.all_functions_safe",
    "GridVerif.C20.library_never_writes_caller_data",
    # round 3: default-valued parameters of nested functions ("pinned" parameters)
    "GridVerif.C20.supplied_none_of_fits",
    "GridVerif.C20.enter_pinned",
    "GridVerif.C20.enter_conservative",
    "GridVerif.C20.run_of_runC",
    "GridVerif.C20.runC_sound",
    "GridVerif.C20.all_pins_ok",
    "GridVerif.C20.library_never_writes_caller_data_with_calls",
]
RULE = (
    "dynamic validation: each registry entry (public function/method x argument builder) is run under the aliasing "
    "patterns {read-only arguments, writable+byte-snapshot, same array passed for two parameters where shapes allow, "
    "callbacks returning their argument, callbacks returning one cached array}; a case is non-trivial if it passes at "
    "least one array/list/dict/callback that the function could reach with an in-place statement (i.e. not 'all fresh "
    "scalars'); distinct = distinct (entry point, pattern, argument-shape signature); round 3 adds the patterns "
    "{every integer sequence as a plain list, as a write-protected int64 array, as a writable int32 array - all at once "
    "and one at a time} and, in the thorough tier, a parameter-level audit (which parameter of which public callable "
    "received an object owned by the caller under which pattern); round 4 adds {views into larger caller buffers with the "
    "base snapshotted, float32 / negative-stride / Fortran-ordered arguments, the same argument objects for three "
    "successive calls with every answer compared with the one on pristine arguments, one argument made unacceptable so "
    "that the call raises part-way, callbacks returning float32 / complex / longdouble / int / changing kinds} and "
    "two-step histories for every class (object built twice from the caller's arrays, infinite-radius local grid, every "
    "setter twice, the mutating methods in between); in the quick tier the patterns other than rw / ro / cb-identity / "
    "cb-cached run on every other entry, alternating with the seed (all of them in the thorough tier); round 5 adds "
    "{callbacks returning a row of a caller table; the argument arrays edited in place between two calls with the second "
    "answer compared with the one on fresh arguments; longdouble / float16 / integer arguments given directly} and "
    "degenerate value patterns for every entry point with callbacks (all lower coefficients zero as numbers / callables, "
    "leading coefficient != 1, zero right-hand side, zero densities), argument arrays past block boundaries (1025 ... "
    "2^19+1) with split-additivity references, descending / shuffled inputs, explicit parameters beyond the data, two "
    "instances sharing caller arrays; the search after a broken tie is staged (flagged entry points first, CPU budget per "
    "stage, later stages dropped once a concrete input exists)"
)
TRUSTED_BASE = [
    "Lean 4.33 kernel; axioms propext, Classical.choice, Quot.sound only (audited per theorem)",
    "translator harness/translate/effects.py: Python AST -> effects IR; its tables of NumPy/SciPy/builtin calls that "
    "return new objects / views / mutate an argument; SSA renaming of unconditional re-assignments; greatest-fixpoint "
    "return summaries of library functions (sound for terminating executions); for default-valued parameters of nested "
    "functions: condition (E) of FuncTranslator.pinned_defaults (the nested function is called only from call "
    "expressions in the text of the function it is written in) and the collection of the call shapes — the condition "
    "on the shapes itself is re-decided by the kernel (all_pins_ok) and its sufficiency is proved (enter_pinned)",
    "reading of the IR semantics: one abstract object per variable binding, views modelled as the same object",
]
ASSUMPTIONS = [
    "NumPy arithmetic, np.array, .copy(), fancy indexing return new arrays; basic slicing, reshape, asarray, .T return views",
    "SciPy solvers, cKDTree, CubicSpline do not modify the arrays they are given (their own mesh arrays are theirs: "
    "an ODE right-hand side that returns its argument hands the library SciPy's mesh, which the IR treats as caller-owned)",
]


def _flagged():
    progs = fx.translate_all()
    return [(p["name"], fx.offenders(p)) for p in progs if fx.offenders(p)], len(progs)


class _Parts:
    """Independent parts of `corr` / `oracle`: an exception inside one part (a translator that raises
    on a changed tree, a self-test, the audit) is recorded and kept, the other parts still run — above
    all the registry, which needs the implementation only; the first exception is re-raised at the end."""

    def __init__(self, ctx: Ctx):
        self.ctx = ctx
        self.first = None
        self.errors = {}

    def run(self, name, fn, default=None):
        try:
            return fn()
        except KeyboardInterrupt:
            raise
        except BaseException as e:  # noqa: BLE001
            self.errors[name] = f"{type(e).__name__}: {str(e)[:300]}"
            self.ctx.info(f"C20 part `{name}` raised {type(e).__name__}: {str(e)[:200]} (the other parts still run)")
            if self.first is None:
                self.first = e
            return default

    def finish(self):
        if self.errors:
            self.ctx.extra["parts_raised"] = dict(self.errors)
        if self.first is not None:
            raise self.first


def corr(ctx: Ctx):
    """Dynamic validation of the IR: an observed change of caller-owned data is at the same time a
    concrete violation of the property, so it is recorded as an `oracle` failure (with replay).
    Parts: translator self-tests | IR of the tree (only used to order the registry) | registry."""
    from . import c20_registry as reg

    parts = _Parts(ctx)

    def selftests():
        # the translator's decisions on default-valued parameters of nested functions, one synthetic
        # function per clause of the condition (harness/translate/effects.py: PINNED_SELFTEST)
        for k, msg in enumerate(fx.pinned_selftest()):
            ctx.fail("corr", f"effects.pinned_defaults.selftest.{k}", msg)
        ctx.extra["pinned_selftest_cases"] = len(fx.PINNED_SELFTEST)
        # the analysis' verdict on one synthetic function per external call / calling convention that can
        # write into an argument (overwrite_* / inplace / copy=False keywords, out operands, np.put*, sort, …)
        for k, msg in enumerate(fx.effects_selftest()):
            ctx.fail("corr", f"effects.selftest.{k}", msg)
        ctx.extra["effects_selftest_cases"] = len(fx.EFFECTS_SELFTEST)

    def ir():
        flagged, nprogs = _flagged()
        ctx.extra["ir_functions"] = nprogs
        ctx.extra["ir_flagged"] = [f"{n}: {o[:3]}" for n, o in flagged]
        return {n for n, _ in flagged}

    parts.run("translator-selftests", selftests)
    flagged = parts.run("effects-ir", ir, default=set())
    parts.run("registry", lambda: reg.run(ctx, budget="thorough" if ctx.thorough else "quick", flagged=flagged))
    parts.finish()


def oracle(ctx: Ctx, budget: str):
    """Failing-input search when a proof obligation broke: run the registry with the large budget,
    the entry points that reach a flagged function first (the IR is only used for the order: if the
    translator raises on the changed tree the registry runs in its plain order)."""
    if budget != "large":
        return
    from . import c20_registry as reg

    parts = _Parts(ctx)
    flagged = parts.run("effects-ir", lambda: {n for n, _ in _flagged()[0]}, default=set())
    parts.run("registry", lambda: reg.run(ctx, budget="large", flagged=flagged))
    parts.finish()
